//! tx3-stackprobe front <file>: one hex-encoded source text per line; each is parsed and analysed on a
//! 2 MiB thread (same reporting as below).
//! tx3-stackprobe request <file>: one hex-encoded IR payload per line; each is wrapped into a resolve request
//! ({"tir": {"content": <hex>, "encoding": "hex", "version": "v1beta0"}, "args": {}}) and handed to
//! tx3_resolver::trp::parse_resolve_request on a 2 MiB thread (same reporting as below).
//! tx3-stackprobe <file>: one hex-encoded IR payload per line; each is decoded with
//! tx3_tir::encoding::from_bytes on a thread with Rust's default stack size for spawned threads (2 MiB),
//! in an unoptimised build. Prints "<line> OK|ERR|PANIC" per payload and flushes, so that a stack
//! overflow (which aborts the process) is attributable to the line after the last one printed.

use std::io::Write;

fn main() {
    let front = std::env::args().nth(1).as_deref() == Some("front");
    let request = std::env::args().nth(1).as_deref() == Some("request");
    let path = std::env::args().nth(if front || request { 2 } else { 1 }).expect("file");
    let text = std::fs::read_to_string(&path).expect("readable file");
    let out = std::io::stdout();
    for (i, line) in text.lines().enumerate() {
        let Ok(bytes) = hex::decode(line.trim()) else {
            println!("{i} SKIP");
            continue;
        };
        {
            let mut o = out.lock();
            let _ = writeln!(o, "{i} START");
            let _ = o.flush();
        }
        let r = std::thread::Builder::new()
            .stack_size(2 << 20)
            .spawn(move || {
                if front {
                    let src = String::from_utf8_lossy(&bytes).to_string();
                    // the same logical step budget as the main monitor: an exponential parse ends in an error
                    // here instead of occupying the probe for hours
                    pest::set_call_limit(std::num::NonZeroUsize::new(2_000_000 + 5_000 * src.len()));
                    match tx3_lang::parsing::parse_string(&src) {
                        Ok(mut p) => {
                            let _ = tx3_lang::analyzing::analyze(&mut p);
                            true
                        }
                        Err(_) => false,
                    }
                } else if request {
                    let doc = serde_json::json!({"tir": {"content": hex::encode(&bytes), "encoding": "hex", "version": "v1beta0"}, "args": {}});
                    match serde_json::from_value::<tx3_resolver::trp::ResolveParams>(doc) {
                        Ok(params) => tx3_resolver::trp::parse_resolve_request(params).is_ok(),
                        Err(_) => false,
                    }
                } else {
                    tx3_tir::encoding::from_bytes(&bytes, tx3_tir::encoding::TirVersion::V1Beta0).is_ok()
                }
            })
            .expect("spawn")
            .join();
        let mut o = out.lock();
        let _ = match r {
            Ok(true) => writeln!(o, "{i} OK"),
            Ok(false) => writeln!(o, "{i} ERR"),
            Err(_) => writeln!(o, "{i} PANIC"),
        };
        let _ = o.flush();
    }
    println!("DONE");
}
