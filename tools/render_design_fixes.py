#!/usr/bin/env python3
"""Re-renders the table of fix: commits in DESIGN.md (between the FIXTABLE markers) from git log + known_findings.jsonl."""
import json, os, re, subprocess
V = os.path.dirname(os.path.dirname(os.path.abspath(__file__)))
kf = [json.loads(l) for l in open(os.path.join(V, 'known_findings.jsonl')) if l.startswith('{')]
by = {}
for k in kf:
    if k['status'] == 'fixed':
        by.setdefault(k['commit'][:7], set()).add(k['property'])
        for h in re.findall(r'\b[0-9a-f]{7}\b', k['what']):
            by.setdefault(h, set()).add(k['property'])
log = subprocess.run(['git', '-C', '/repo', 'log', '--format=%h %s'], capture_output=True, text=True).stdout.strip().split('\n')
rows = []
for l in log:
    h, sub = l.split(' ', 1)
    if sub.startswith('fix:'):
        rows.append(f"| `{h}` | {','.join(sorted(by.get(h[:7], []))) or '-'} | {sub[5:]} |")
t = '| commit | property | what |\n|---|---|---|\n' + '\n'.join(rows) + '\n'
p = os.path.join(V, 'DESIGN.md')
s = open(p).read()
s = re.sub(r'<!-- FIXTABLE:BEGIN -->.*?<!-- FIXTABLE:END -->', lambda m: '<!-- FIXTABLE:BEGIN -->\n' + t + '<!-- FIXTABLE:END -->', s, flags=re.S)
open(p, 'w').write(s)
print(len(rows), 'fix commits')
