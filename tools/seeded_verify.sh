#!/bin/bash
# Confirms a seeded change in a scratch worktree:
#   tools/seeded_verify.sh <worktree> <variant-dir> <crate> <demo-file.rs> [dest-dir-relative-to-crate (default tests)] [demo-setup.diff (demo plumbing, e.g. a dev-dependency; applied for the demo runs only)]
# 1. unchanged tree: demo passes   2. patched tree: whole existing suite passes, demo fails.
# Leaves the worktree at HEAD. Prints RESULT lines; exit 0 iff all three hold.
set -u
WT="$1"; V="$2"; CRATE="$3"; DEMO="$4"; DEST="${5:-tests}"; SETUP="${6:-}"
cd "$WT" || exit 2
export CARGO_NET_OFFLINE=true
CR=$(find crates bin -maxdepth 1 -name "$CRATE" | head -1)
[ -z "$CR" ] && { echo "no crate $CRATE"; exit 2; }
git checkout -q -- . 
T="${DEMO%.rs}"
mkdir -p "$CR/$DEST"; created=0; [ "$(ls -A $CR/$DEST | wc -l)" = 0 ] && created=1
cp "seeded/$V/$DEMO" "$CR/$DEST/$DEMO"
[ -n "$SETUP" ] && git apply "seeded/$V/$SETUP"
cargo test -q -p "$CRATE" --offline --test "$T" > "seeded/$V/verify-clean.log" 2>&1; rc_clean=$?
rm -f "$CR/$DEST/$DEMO"
[ -n "$SETUP" ] && git checkout -q -- .
git apply "seeded/$V/patch.diff" || { echo "RESULT patch does not apply"; exit 2; }
cargo nextest run --workspace --no-fail-fast --offline > "seeded/$V/verify-suite.log" 2>&1; rc_suite=$?
# the two proptests the baseline lists as flaky (their generator overflows i128) do not count
bad=$(grep -E '^\s+FAIL ' "seeded/$V/verify-suite.log" | grep -v -E 'composite_contains_some_(naked|composite)' | sort -u | wc -l)
[ $rc_suite != 0 ] && [ "$bad" = 0 ] && grep -q 'tests run' "seeded/$V/verify-suite.log" && rc_suite=0
cp "seeded/$V/$DEMO" "$CR/$DEST/$DEMO"
[ -n "$SETUP" ] && git apply "seeded/$V/$SETUP"
cargo test -q -p "$CRATE" --offline --test "$T" > "seeded/$V/verify-patched.log" 2>&1; rc_patched=$?
rm -f "$CR/$DEST/$DEMO"; [ $created = 1 ] && rmdir "$CR/$DEST" 2>/dev/null
git checkout -q -- .
git status --short | grep -v '^?? seeded/' | head -5
echo "RESULT $WT $V demo_on_clean=$rc_clean suite_on_patched=$rc_suite ($(grep -E 'Summary' seeded/$V/verify-suite.log | tr -s ' ')) demo_on_patched=$rc_patched"
[ $rc_clean = 0 ] && [ $rc_suite = 0 ] && [ $rc_patched != 0 ]
