#!/bin/bash
# tools/seeded_intake.sh <ID> <crate-of-demo-A> <crate-of-demo-B>  : verify both seeded changes of /tmp/wt-<ID>, copy to seeded/
cd "$(dirname "$0")/.."
id=$1
for v in A B; do
  crate=$2; [ $v = B ] && crate=$3
  demo=$(cd /tmp/wt-$id/seeded/$v && ls *.rs | head -1)
  tools/seeded_verify.sh /tmp/wt-$id $v $crate $demo 2>&1 | grep RESULT
  d=seeded/$id-$v; mkdir -p $d
  cp /tmp/wt-$id/seeded/$v/patch.diff /tmp/wt-$id/seeded/$v/*.rs /tmp/wt-$id/seeded/$v/run.txt /tmp/wt-$id/seeded/$v/notes.md $d/ 2>/dev/null
done
