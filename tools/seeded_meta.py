#!/usr/bin/env python3
"""Writes seeded/<id>/meta.json from the table below + seeded/MATRIX.tsv (which quick checks report a violation)."""
import json, os, collections
ROOT = os.path.join(os.path.dirname(__file__), '..', 'seeded')
T = {
 'C01-A': ('C01', 'compile_mint_block: take_while instead of filter drops every asset of a policy that sorts after one netting to zero', 'one policy with >= 2 asset names in mint/burn blocks, one netting to exactly 0 and another non-zero one sorting after it'),
 'C01-B': ('C01', 'StructConstructor lowering matches explicit fields positionally against the declaration', 'a constructor with a spread whose explicit fields are not written in declaration order'),
 'C02-A': ('C02', 'mint/burn netting folded pairwise in i64 through aggregate_assets: entries vanish or wrap on 64-bit overflow', '>= 2 mint/burn blocks of one class whose running sum leaves the i64 range while each amount fits'),
 'C02-B': ('C02', 'negative bignum datum/redeemer integers encoded as |n| instead of -1-n', 'an integer below -2^64 in a datum or redeemer'),
 'C03-A': ('C03', 'SearchSpace::take fills the 50-window from the whole union, so duplicates of the best matches use up slots', 'from + token in min_amount, >= 26 UTxOs at the address (<= 50 candidates), multi-UTxO threshold that needs the UTxOs without the token'),
 'C03-B': ('C03', 'excess UTxOs of a multi-UTxO selection trimmed in one pass against a surplus computed once', 'greedy pick ending with >= 2 spare UTxOs that each fit the surplus but together exceed it'),
 'C04-A': ('C04', 'selector keeps one usage per UTxO in a map: collateral overwrites the input mark', 'an input named before "collateral" takes X, collateral takes X too, an input named after "collateral" gets X again'),
 'C04-B': ('C04', 'exclusion of used UTxOs moved into the window but applied to its best-match part only', 'an earlier input took X (no token); a later multi-UTxO input from the same party asks for a token its holders cannot cover in ADA'),
 'C05-A': ('C05', 'InputNotResolved in a later resolve round is swallowed and the previous round returned', 'fee-dependent min_amount and a UTxO that covers the early rounds\' fee but not the final one'),
 'C05-B': ('C05', 'Compiler::compile reports max(size fee, fee already in the body)', 'a transaction that shrinks once the fee is charged (change crossing a CBOR width boundary downwards)'),
 'C06-A': ('C06', 'Tx::apply_inputs leaves the chain-specific directives untouched', 'an input referenced from inside a cardano:: directive field'),
 'C06-B': ('C06', 'safe_apply_args returns early on an empty argument map, skipping the missing-argument check', 'resolve_tx with no arguments at all on a template that reports parameters'),
 'C07-A': ('C07', 'Expression::is_constant ignores the asset name of an Assets entry', 'asset whose name is a pending parameter (policy and amount constant) in +/-, and a reduce before the name is applied'),
 'C07-B': ('C07', 'reduce_op reads the operand of slot_to_time before reducing it', 'slot_to_time over a parameter, built-ins applied after args with no reduce in between'),
 'C08-A': ('C08', 'spend redeemer index found by byte order of txid ++ index.to_le_bytes()', '>= 2 inputs of one transaction id with an output index >= 256, differing redeemers'),
 'C08-B': ('C08', 'mint redeemer index taken from the policies of the template blocks, not of the compiled mint field', 'one policy minted and burned in equal quantities (vanishes) and a redeemer on a policy sorting after it'),
 'C09-A': ('C09', 'integers fitting u64 routed through the u64 encoder, which casts to i64', 'a datum/redeemer integer in [2^63, 2^64)'),
 'C09-B': ('C09', 'constructor tag ranges refactored with <= instead of <: index 128 gets tag 1401', 'a variant with >= 129 cases, constructing exactly case 128'),
 'C10-A': ('C10', 'input ordering comparator ignores the output index (a-vs-a slip): same-txid inputs keep hash-set order', '>= 2 UTxOs of one transaction id in one input block, compared across independently built sets / processes'),
 'C10-B': ('C10', 'required signers de-duplicated before coercion to key hashes', 'two different signer expressions coercing to the same key hash'),
 'C11-A': ('C11', 'decoder recursion limit raised from 256 to 1024', 'a payload nested > ~425 levels in a typed position, decoded on a <= 2 MiB thread in an unoptimised build'),
 'C11-B': ('C11', 'UtxoSet serialised through a BTreeMap keyed by txid only', 'an IR holding a UtxoSet with >= 2 UTxOs of one transaction id'),
 'C12-A': ('C12', 'parse-error message helper uses pest\'s character column as a byte index', 'a grammar-level syntax error preceded on the same line by multi-byte (3-byte) text or lone CRs'),
 'C12-B': ('C12', 'alias resolution loops until a pass changes nothing (no bound)', 'a cycle made of type aliases only (type A = B; type B = A;)'),
 'C13-A': ('C13', 'missing-field check only runs when the constructor has fewer explicit fields than declared', 'a constructor without spread that repeats a field so the count matches while another is missing'),
 'C13-B': ('C13', 'PropertyOp decides "is this an index" before analysing its operand', 'a list index that is a bare name equal to an Int field of the enclosing constructor, inside a once-analysed block (mint/burn/withdrawal redeemer...)'),
 'C14-A': ('C14', 'Sub no longer validates its left operand', 'hand-built IR: Sub(Assets[amount not a Number | overflowing duplicates], Assets|None)'),
 'C14-B': ('C14', 'min_utxo lookup guarded with index <= outputs.len()', 'min_utxo(k) with k = number of outputs of the previously compiled body (dropped optional output, or reused compiler)'),
 'C15-A': ('C15', 'contains_total returns false early when other has more raw entries than self', 'other carries explicit zero entries pushing its entry count above self\'s'),
 'C15-B': ('C15', 'AssetClass::name() answers only for Defined', 'a value with a Named (policy-less) class passing through the canonical -> asset-expression list conversion'),
 'C16-A': ('C16', '0x integers read with from_str_radix (signed magnitude) instead of two\'s complement bytes', 'an Int sent as 0x + 32 hex digits encoding a negative number'),
 'C16-B': ('C16', 'failed coercion of an env entry silently skipped (filter_map ... .ok()?)', 'an ill-formed value for a declared parameter supplied under env, not overridden by args'),
 'C17-A': ('C17', 'argument-namespace conflict check forgets how the env var was spelled', 'an env var and a tx parameter differing only in case, both used'),
 'C17-B': ('C17', 'TII drops a parameter whose key is already an env entry', 'a tx parameter spelled exactly like an env var (legitimate shadow) with another type'),
 'C18-A': ('C18', 'ad-hoc directive fields ordered by key length only', 'a cardano::publish block with both amount and script (two keys of equal length)'),
 'C18-B': ('C18', 'Workspace::lower skips transactions that are already in its IR map', 'one Workspace: lower(), apply_args(..), lower() again'),
 'C19-A': ('C19', 'parse-error span widened by one byte', 'a grammar error right before a non-ASCII character'),
 'C19-B': ('C19', 'unknown variant case located at the whole constructor (Span == wildcard on dummy)', 'Type::UnknownCase { .. } or an implicit constructor on a variant type without Default'),
 'C20-A': ('C20', 'latest_tx_body only replaced when the compiled body has as many outputs as the template', 'reused compiler, target with a dropped optional output and min_utxo (pre-fix tree 8a4aba0; neutralised by fix 4c68aca, see notes)'),
 'C20-B': ('C20', 'resolve_tx evaluates compiler operators once before the refinement loop (rebased onto 4c68aca: before the reset)', 'a min_utxo template on an instance whose previous body has an output at that position'),
}
matrix = collections.defaultdict(dict)
mp = os.path.join(ROOT, 'MATRIX.tsv')
if os.path.exists(mp):
    for line in open(mp):
        f = line.rstrip('\n').split('\t')
        if len(f) >= 3 and f[1].startswith('C'):
            matrix[f[0]][f[1]] = (f[2], f[3] if len(f) > 3 else '')
for sid, (prop, what, needs) in T.items():
    d = os.path.join(ROOT, sid)
    if not os.path.isdir(d):
        continue
    caught = {k: v[1].strip('|').split('|')[:4] for k, v in matrix.get(sid, {}).items() if v[0] == 'rc=1'}
    meta = {
        'id': sid, 'breaks_property': prop, 'change': what, 'needs_to_manifest': needs,
        'origin': 'written by a fresh sub-agent that was given only the property text and its own scratch worktree',
        'confirmed_by': 'tools/seeded_verify.sh in the scratch worktree: demo passes on the unchanged tree; with patch.diff applied the whole existing suite passes (the two baseline-flaky proptests aside) and the demo fails',
        'checked_with': 'tools/seeded_eval.sh <patch> quick <check> (applies the patch to the tree, runs the check, restores the tree); full cross table in seeded/MATRIX.tsv',
        'quick_checks_reporting_a_violation': caught,
        'target_check_detects': prop in caught if matrix.get(sid) else None,
    }
    json.dump(meta, open(os.path.join(d, 'meta.json'), 'w'), indent=1)
print('wrote', len(T))
