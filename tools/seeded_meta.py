#!/usr/bin/env python3
"""Writes seeded/<id>/meta.json from the table below + seeded/MATRIX.tsv (which quick checks report a violation)."""
import json, os, collections
ROOT = os.path.join(os.path.dirname(__file__), '..', 'seeded')
T = {
 'C01-A': ('C01', 'compile_mint_block: take_while instead of filter drops every asset of a policy that sorts after one netting to zero', 'one policy with >= 2 asset names in mint/burn blocks, one netting to exactly 0 and another non-zero one sorting after it'),
 'C01-B': ('C01', 'StructConstructor lowering matches explicit fields positionally against the declaration', 'a constructor with a spread whose explicit fields are not written in declaration order'),
 'C02-A': ('C02', 'mint/burn netting folded pairwise in i64 through aggregate_assets: entries vanish or wrap on 64-bit overflow', '>= 2 mint/burn blocks of one class whose running sum leaves the i64 range while each amount fits'),
 'C02-B': ('C02', 'negative bignum datum/redeemer integers encoded as |n| instead of -1-n', 'an integer below -2^64 in a datum or redeemer'),
 'C03-A': ('C03', 'SearchSpace::take fills the 50-window from the whole union, so duplicates of the best matches use up slots', 'from + token in min_amount, >= 26 UTxOs at the address (<= 50 candidates), multi-UTxO threshold that needs the UTxOs without the token'),
 'C03-B': ('C03', 'excess UTxOs of a multi-UTxO selection trimmed in one pass against a surplus computed once', 'greedy pick ending with >= 2 spare UTxOs that each fit the surplus but together exceed it'),
 'C04-A': ('C04', 'selector keeps one usage per UTxO in a map: collateral overwrites the input mark', 'an input named before "collateral" takes X, collateral takes X too, an input named after "collateral" gets X again'),
 'C04-B': ('C04', 'exclusion of used UTxOs moved into the window but applied to its best-match part only', 'an earlier input took X (no token); a later multi-UTxO input from the same party asks for a token its holders cannot cover in ADA'),
 'C05-A': ('C05', 'InputNotResolved in a later resolve round is swallowed and the previous round returned', 'fee-dependent min_amount and a UTxO that covers the early rounds\' fee but not the final one'),
 'C05-B': ('C05', 'Compiler::compile reports max(size fee, fee already in the body)', 'a transaction that shrinks once the fee is charged (change crossing a CBOR width boundary downwards)'),
 'C06-A': ('C06', 'Tx::apply_inputs leaves the chain-specific directives untouched', 'an input referenced from inside a cardano:: directive field'),
 'C06-B': ('C06', 'safe_apply_args returns early on an empty argument map, skipping the missing-argument check', 'resolve_tx with no arguments at all on a template that reports parameters'),
 'C07-A': ('C07', 'Expression::is_constant ignores the asset name of an Assets entry', 'asset whose name is a pending parameter (policy and amount constant) in +/-, and a reduce before the name is applied'),
 'C07-B': ('C07', 'reduce_op reads the operand of slot_to_time before reducing it', 'slot_to_time over a parameter, built-ins applied after args with no reduce in between'),
 'C08-A': ('C08', 'spend redeemer index found by byte order of txid ++ index.to_le_bytes()', '>= 2 inputs of one transaction id with an output index >= 256, differing redeemers'),
 'C08-B': ('C08', 'mint redeemer index taken from the policies of the template blocks, not of the compiled mint field', 'one policy minted and burned in equal quantities (vanishes) and a redeemer on a policy sorting after it'),
 'C09-A': ('C09', 'integers fitting u64 routed through the u64 encoder, which casts to i64', 'a datum/redeemer integer in [2^63, 2^64)'),
 'C09-B': ('C09', 'constructor tag ranges refactored with <= instead of <: index 128 gets tag 1401', 'a variant with >= 129 cases, constructing exactly case 128'),
 'C10-A': ('C10', 'input ordering comparator ignores the output index (a-vs-a slip): same-txid inputs keep hash-set order', '>= 2 UTxOs of one transaction id in one input block, compared across independently built sets / processes'),
 'C10-B': ('C10', 'required signers de-duplicated before coercion to key hashes', 'two different signer expressions coercing to the same key hash'),
 'C11-A': ('C11', 'decoder recursion limit raised from 256 to 1024', 'a payload nested > ~425 levels in a typed position, decoded on a <= 2 MiB thread in an unoptimised build'),
 'C11-B': ('C11', 'UtxoSet serialised through a BTreeMap keyed by txid only', 'an IR holding a UtxoSet with >= 2 UTxOs of one transaction id'),
 'C12-A': ('C12', 'parse-error message helper uses pest\'s character column as a byte index', 'a grammar-level syntax error preceded on the same line by multi-byte (3-byte) text or lone CRs'),
 'C12-B': ('C12', 'alias resolution loops until a pass changes nothing (no bound)', 'a cycle made of type aliases only (type A = B; type B = A;)'),
 'C13-A': ('C13', 'missing-field check only runs when the constructor has fewer explicit fields than declared', 'a constructor without spread that repeats a field so the count matches while another is missing'),
 'C13-B': ('C13', 'PropertyOp decides "is this an index" before analysing its operand', 'a list index that is a bare name equal to an Int field of the enclosing constructor, inside a once-analysed block (mint/burn/withdrawal redeemer...)'),
 'C14-A': ('C14', 'Sub no longer validates its left operand', 'hand-built IR: Sub(Assets[amount not a Number | overflowing duplicates], Assets|None)'),
 'C14-B': ('C14', 'min_utxo lookup guarded with index <= outputs.len()', 'min_utxo(k) with k = number of outputs of the previously compiled body (dropped optional output, or reused compiler)'),
 'C15-A': ('C15', 'contains_total returns false early when other has more raw entries than self', 'other carries explicit zero entries pushing its entry count above self\'s'),
 'C15-B': ('C15', 'AssetClass::name() answers only for Defined', 'a value with a Named (policy-less) class passing through the canonical -> asset-expression list conversion'),
 'C16-A': ('C16', '0x integers read with from_str_radix (signed magnitude) instead of two\'s complement bytes', 'an Int sent as 0x + 32 hex digits encoding a negative number'),
 'C16-B': ('C16', 'failed coercion of an env entry silently skipped (filter_map ... .ok()?)', 'an ill-formed value for a declared parameter supplied under env, not overridden by args'),
 'C17-A': ('C17', 'argument-namespace conflict check forgets how the env var was spelled', 'an env var and a tx parameter differing only in case, both used'),
 'C17-B': ('C17', 'TII drops a parameter whose key is already an env entry', 'a tx parameter spelled exactly like an env var (legitimate shadow) with another type'),
 'C18-A': ('C18', 'ad-hoc directive fields ordered by key length only', 'a cardano::publish block with both amount and script (two keys of equal length)'),
 'C18-B': ('C18', 'Workspace::lower skips transactions that are already in its IR map', 'one Workspace: lower(), apply_args(..), lower() again'),
 'C19-A': ('C19', 'parse-error span widened by one byte', 'a grammar error right before a non-ASCII character'),
 'C19-B': ('C19', 'unknown variant case located at the whole constructor (Span == wildcard on dummy)', 'Type::UnknownCase { .. } or an implicit constructor on a variant type without Default'),
 'C20-A': ('C20', 'latest_tx_body only replaced when the compiled body has as many outputs as the template', 'reused compiler, target with a dropped optional output and min_utxo (pre-fix tree 8a4aba0; neutralised by fix 4c68aca, see notes)'),
 'C20-B': ('C20', 'resolve_tx evaluates compiler operators once before the refinement loop (rebased onto 4c68aca: before the reset)', 'a min_utxo template on an instance whose previous body has an output at that position'),
 'C01-C': ('C01', 'StructConstructor lowering fast path (no spread, all fields present) keeps the written field order', 'a constructor without spread listing its fields in another order than the type definition'),
 'C01-D': ('C01', 'reducer folds the known tail of a +/- chain while its head is unknown; (x + a) + b becomes x + (a - b)', 'head + a + b with an input (or input datum) as head and args / fees / literals as a, b, under staged evaluation (args, reduce, inputs, reduce)'),
 'C02-C': ('C02', 'the already-taken check of input selection is merged into the ref check: a ref-pinned query no longer consults the taken set', 'two inputs, one by address / min_amount and one pinned by ref to the UTxO the first one picks, the pinned one named after the other (value is created; C04 is the property that sees the double spend)'),
 'C02-D': ('C02', 'output_has_assets decides emptiness from lovelace alone: an optional output holding only native tokens is dropped', 'output? whose amount reduces to native assets with zero lovelace'),
 'C04-C': ('C04', 'resolve_tx keeps selections across fee passes and reserves kept sets lazily in name order', 'full resolve_tx loop, >= 2 passes: a fee-dependent many block named before a fee-independent block of the same party, send-all boundary so the real fee needs one more UTxO'),
 'C06-C': ('C06', 'Expression::params returns nothing below a compiler built-in', 'a parameter all of whose occurrences sit inside a compiler-op operand (time_to_slot(deadline))'),
 'C07-C': ('C07', 'is_constant of a Map checks the entry values only, not the keys', 'a map literal with a parameter key under a Property lookup, reduced while the key is pending'),
 'C07-D': ('C07', 'reduce_op only strips an applied-argument wrapper from operands instead of reducing them', 'a compiler op over arithmetic on an applied argument (time_to_slot(deadline + grace)), compiler pass straight after apply_args'),
 'C08-C': ('C08', 'inputs sorted by the textual order of txid#index (two cooperating sites)', '>= 2 spent UTxOs of one transaction id whose output indices order differently as decimal strings (2 and 10)'),
 'C08-D': ('C08', 'cancelled-out policies pruned from the mint field only after the witness set is built', 'mint and burn of one policy cancelling for every asset name plus a redeemer on a policy sorting after it'),
 'C09-C': ('C09', 'TypeDef::find_case_index compares case names ignoring ASCII case', 'a variant type with two cases differing only in letter case, constructing the later one'),
 'C09-D': ('C09', 'map entries sorted by key when encoded as Plutus Data', 'a datum / redeemer map whose keys are not in ascending order'),
 'C10-C': ('C10', 'process-wide cache of Plutus language views keyed by language only', 'two compilers with different cost models for one language compiling transactions with redeemers in one process'),
 'C11-C': ('C11', 'byte fields written as CBOR byte strings and read back with deserialize_bytes (ciborium scratch buffer of 4096 bytes)', 'an IR holding a Bytes / Address / Hash value (or UTxO txid / address) longer than 4096 bytes'),
 'C11-D': ('C11', 'directive data map pre-sized from the declared CBOR map length', 'a valid encoding up to the data map of a directive whose map header declares a huge length'),
 'C12-C': ('C12', 'bool grammar rule made non-atomic with a look-ahead: the pair text includes trailing whitespace, bool_parse unwraps', 'a boolean literal followed by whitespace or a comment before the next token'),
 'C12-D': ('C12', 'shared-scope fallback in type resolution guarded by an off-by-one pass counter, so it never fires', 'a policy / asset definition whose expression holds a constructor, property access or index, plus at least one alias or custom-typed field'),
 'C13-C': ('C13', 'FnCall arity / callable checks run before the callee is resolved', 'a call mistake (arity, non-callable name) in a part of the tx analysed only once (mint, burn, validity, metadata, signers, reference, collateral, cardano::*)'),
 'C14-C': ('C14', 'Expression::as_number reads a one-element asset list as its amount', 'a constant asset whose amount is itself a single-asset value (Ada(fees) after apply_fees, or client IR) in Add / Sub / Negate or as min_amount'),
 'C14-D': ('C14', 'reducer error messages truncated with String::truncate(256)', "a failing reduction whose operand's Debug text is longer than 256 bytes with a multi-byte character across byte 256"),
 'C15-C': ('C15', 'value -> asset-expression list conversion keyed by policy bytes ++ name bytes', 'one value holding two classes whose policy ++ name concatenations coincide (Defined("ab","c") / Defined("a","bc"), Defined(p,"") / Named(p))'),
 'C16-C': ('C16', 'Expression::params returns nothing below a compiler built-in', 'a request supplying a parameter the template uses only inside a compiler-op operand'),
 'C16-D': ('C16', 'hex-prefix helper slices the string at byte offset 2', 'a string value whose byte 2 is not a character boundary ("1€", "日本")'),
 'C17-C': ('C17', 'collision check between globals sorts the spellings (case-sensitively) and compares neighbours (case-insensitively)', 'two env vars / parties differing only in letter case with a third global sorting strictly between them'),
 'C17-D': ('C17', 'lower() looks the template up ignoring ASCII case', 'two txs whose names are equal ignoring case with different argument keys'),
 'C18-C': ('C18', 'TII profiles lower-cased when filed, collected in their original spelling in a hash set', 'one profile named in two spellings (--profile Preview --profile-env-file preview:file) whose env file contributes values'),
 'C19-C': ('C19', "a negation's span runs from the operator to the end of its operand, but literals carry the dummy span (0,0)", '!1 or !true where the analyzer locates a diagnostic at the expression (metadata key, withdrawal amount, asset policy)'),
 'C20-C': ('C20', 'per-output min_utxo sizes cached in the compiler outlive reset()', 'an earlier resolution on the instance aborted in pass >= 2 (after the compiler ops ran, before compile), then a template using min_utxo on that output index at a tight balance'),
 'C20-D': ('C20', 'resolve_tx resets the compiler on exit instead of on entry', 'a history containing a direct Compiler::compile() (not through resolve_tx), then a min_utxo template sensitive to its first pass'),
 'C01-E': ('C01', 'Pratt parser: prefix negation registered below the infix +/- level, so !a + b parses as !(a + b)', 'an unparenthesised ! followed by an infix + or -'),
 'C03-C': ('C03', 'pick_single returns the closest candidate at once when its distance on log-compressed amounts is 0, skipping the containment check', 'single-UTxO input, amounts >= ~1e8, best candidate 1..10 short of min_amount'),
 'C03-D': ('C03', 'collateral filter extracted into a helper that only rejects Defined classes: a Named (policy-less) asset passes as pure lovelace', 'a collateral block whose candidates include a covering UTxO with an AssetClass::Named entry'),
 'C04-D': ('C04', 'taken-refs filter skipped when the exact matches alone fill the 50-ref window', 'a party with >= 50 UTxOs and two blocks sharing the same first-choice UTxO'),
 'C05-C': ('C05', 'convergence test also stops when the fee estimate went down (anti-oscillation guard)', 'a fee-dependent amount dropping one CBOR width class as the fee grows; the UTxO total in an 88-lovelace window'),
 'C05-D': ('C05', 'round budget check moved after the increment: one evaluation fewer', 'a small budget (0..3) and a resolution needing exactly five distinct rounds'),
 'C06-D': ('C06', 'Workspace::apply_args re-lowers every template first, discarding what earlier calls substituted', 'one Workspace: apply_args(a proper subset), then apply_args(the rest)'),
 'C06-E': ('C06', 'missing-argument check folds the supplied keys to lower case, substitution does not', 'resolve_tx with a reported parameter absent but a key differing only in letter case present'),
 'C07-E': ('C07', 'apply_args falls back to a case-insensitive match of argument names', 'arguments in two batches whose keys are equal up to letter case, the case variant applied first'),
 'C07-F': ('C07', 'Property over a literal container resolved as soon as the index is constant', 'Property over a Map literal with a pending key before a constant key equal to the index, reduced while the key is pending'),
 'C08-E': ('C08', 'withdrawal redeemer index matched on the credential hash, ignoring the header byte', 'two withdrawals with the same 28-byte hash, one key and one script credential'),
 'C09-E': ('C09', 'lowering fast path: a constructor whose case is called Default gets constructor 0 without lookup', 'a variant type with a case literally named Default that is not the first case'),
 'C09-F': ('C09', 'map encoder passes its entries through without_duplicates', 'a datum / redeemer map with two entries of equal key and value'),
 'C10-D': ('C10', 'script-data hash memoised per redeemer bytes on the compiler instance', 'one instance compiling two transactions with identical redeemers but different Plutus language back to back'),
}
# seed -> (detected by the target check when first tried?, what was strengthened to detect it / remark)
HISTORY = {
 'C01-A': (False, 'generator: burns that exactly cancel a mint block or one atom of it'),
 'C03-A': (False, 'C03 tight phase: threshold = exact total of <= 50 candidates among up to 80 others'),
 'C04-A': (False, 'C04: block names on both sides of "collateral", collateral in half of the cases'),
 'C07-A': (False, 'C07: partially constant asset atoms, arguments in two instalments'),
 'C08-A': (False, 'worlds: UTxOs of one transaction id, output indices across the 1/2/4-byte boundaries'),
 'C08-B': (False, 'generator: exact-cancel burns; a cancelled policy without redeemer next to a guarded one is judged'),
 'C10-A': (False, 'worlds: UTxOs of one transaction id inside one multi-UTxO block (cross-process byte comparison)'),
 'C10-B': (False, 'worlds: two signer expressions denoting one key hash'),
 'C11-A': (False, 'C11: typed nesting 50..100000 deep decoded on a 2 MiB thread + dev-profile stack probe'),
 'C11-B': (False, 'C11: field-by-field structural view (independent of Serialize), sibling UTxOs in random trees'),
 'C13-B': (False, 'C13: index-by-wrong-kind-name mutators inside constructors, constructor-biased targets'),
 'C14-A': (False, 'tirgen: constant near-miss operands for every built-in'),
 'C16-B': (False, 'C16: ill-formed values for declared parameters inside requests (args and env)'),
 'C18-B': (False, 'C18: Workspace facade histories (found a genuine defect too: fix e536ff5)'),
 'C20-A': (False, 'C20: dropped optional outputs, tight balances (found two genuine defects: fix 4c68aca, which also neutralises this seed: on the repaired tree it no longer breaks C20)'),
 'C02-C': (False, 'not a miss of the machinery: the double spend is C04\'s subject and C04 reports it (C02\'s conservation monitor assigns UTxOs, it does not select them)'),
 'C07-C': (False, 'C07 trees phase: typed evaluable IR expressions under six argument-feeding schedules'),
 'C07-D': (False, 'generator: compiler built-ins over arithmetic on a parameter'),
 'C09-C': (False, 'generator: case / field names that differ in letter case only'),
 'C10-C': (False, 'C10: another cost model in every case (salted), so process-wide state shows in the script-data hash'),
 'C11-C': (False, 'tirgen: byte strings on both sides of 4096 and 64 KiB'),
 'C14-D': (False, 'tirgen: long texts whose multi-byte characters fall on every byte alignment'),
 'C15-C': (False, 'C15: class families over a two-letter alphabet whose policy ++ name concatenations coincide'),
 'C16-C': (False, 'C16: the declared set is found by walking the serialised IR, not by the params() traversal the request parser itself uses'),
 'C16-D': (False, 'C16: non-ASCII strings as ill-formed values and in random JSON'),
 'C17-D': (False, 'generator: tx names that differ in letter case only (and identical tx names, which found a genuine defect, see section 12.1)'),
 'C18-C': (False, "C18: profile names in several spellings for --profile and --profile-env-file, env files with the program's real env vars and parties"),
 'C20-C': (False, 'C20: history steps that fail late (just below the minimum a fresh instance needs)'),
 'C20-D': (False, 'C20: history steps that compile (or only evaluate compiler operators) directly on the instance'),
 'C03-C': (False, 'C03 tight/single: magnitudes from units to 2^45 and near misses 1..10 above the best candidate'),
 'C03-D': (False, 'C03 stores: one UTxO in five also holds a policy-less Named asset'),
 'C06-D': (False, 'C06: arguments through the Workspace facade in 2..3 apply_args batches'),
 'C06-E': (False, 'C06 missing-argument probe: the removed value present under a key differing in letter case only'),
 'C07-E': (False, 'C07 trees: a batch of decoy keys (parameter names in upper case, other values) before / after / with the real arguments'),
 'C08-E': (False, 'worlds: two withdrawals whose reward accounts share the 28-byte hash (key vs script credential)'),
 'C09-E': (False, 'generator: a later variant case named Default'),
 'C09-F': (False, 'generator: map literals with an entry repeated verbatim or a key repeated with another value'),
 'C10-D': (False, 'C10: the template compiled on an instance that just compiled the previous case / a sibling running another Plutus language'),
}
matrix = collections.defaultdict(dict)
mp = os.path.join(ROOT, 'MATRIX.tsv')
if os.path.exists(mp):
    for line in open(mp):
        f = line.rstrip('\n').split('\t')
        if len(f) >= 3 and f[1].startswith('C'):
            matrix[f[0]][f[1]] = (f[2], f[3] if len(f) > 3 else '')
for sid, (prop, what, needs) in T.items():
    d = os.path.join(ROOT, sid)
    if not os.path.isdir(d):
        continue
    caught = {k: v[1].strip('|').split('|')[:4] for k, v in matrix.get(sid, {}).items() if v[0] == 'rc=1'}
    meta = {
        'id': sid, 'breaks_property': prop, 'change': what, 'needs_to_manifest': needs,
        'origin': 'written by a fresh sub-agent that was given only the property text and its own scratch worktree',
        'confirmed_by': 'tools/seeded_verify.sh in the scratch worktree: demo passes on the unchanged tree; with patch.diff applied the whole existing suite passes (the two baseline-flaky proptests aside) and the demo fails',
        'checked_with': 'tools/seeded_eval.sh <patch> quick <check> (applies the patch to the tree, runs the check, restores the tree); full cross table in seeded/MATRIX.tsv',
        'quick_checks_reporting_a_violation': caught,
        'target_check_detects': prop in caught if matrix.get(sid) else None,
        'detected_when_first_tried': HISTORY.get(sid, (True, ''))[0],
        'strengthening': HISTORY.get(sid, (True, 'none needed: the quick check of the target property reported it at once'))[1],
    }
    json.dump(meta, open(os.path.join(d, 'meta.json'), 'w'), indent=1)
print('wrote', len(T))
# table for DESIGN.md section 13
rows = []
for sid, (prop, what, needs) in sorted(T.items()):
    first, how = HISTORY.get(sid, (True, ''))
    others = sorted(k for k, v in matrix.get(sid, {}).items() if v[0] == 'rc=1' and k != prop)
    rows.append(f"| {sid} | {what} | {needs} | {'yes' if first else 'no'} | {how or '-'} | {', '.join(others) or '-'} |")
open(os.path.join(ROOT, 'TABLE.md'), 'w').write('| seed | change | needs | caught at once | strengthening | other quick checks that report it |\n|---|---|---|---|---|---|\n' + '\n'.join(rows) + '\n')
