#!/bin/bash
# Runs checks against a seeded change applied to /repo and restores /repo afterwards.
#   tools/seeded_eval.sh <patch.diff> <tier> [ids...]      -> one line per check: id rc + signatures of violations
set -u
cd "$(dirname "$0")/.."
P="$(realpath "$1")"; TIER="${2:-quick}"; shift 2
IDS="$@"; [ -z "$IDS" ] && IDS="C01 C02 C03 C04 C05 C06 C07 C08 C09 C10 C11 C12 C13 C14 C15 C16 C17 C18 C19 C20"
if [ -n "$(git -C /repo status --short --untracked-files=no)" ]; then echo "/repo is dirty, refusing"; exit 2; fi
git -C /repo apply "$P" || { echo "patch does not apply"; exit 2; }
trap 'git -C /repo checkout -q -- .' EXIT
export VERIF_EVIDENCE=/verif/target/seeded-evidence   # never touch the committed evidence
mkdir -p "$VERIF_EVIDENCE"
for id in $IDS; do
  out=$(bin/check $id $TIER 2>&1); rc=$?
  sigs=$(echo "$out" | grep '^VIOLATION' | sed -e 's/.*signature=//' | cut -c1-110 | tr '\n' '|')
  echo "EVAL $(basename $(dirname $P))/$(basename $P) $id rc=$rc ${sigs}"
  [ $rc -ge 2 ] && echo "$out" | grep -E 'HARNESS-ERROR' | head -3
done
