#!/bin/bash
# Re-runs, for every seeded change, the quick check of its target property (and of the other property that
# is documented to report it) with the CURRENT harness, in isolated copies (N lanes, each with its own git
# worktree of /repo and its own copy of /verif under /tmp), and writes seeded/DIAGONAL.tsv:
#   <seed> <check> <rc> <signatures>
# Nothing in /repo or /verif/evidence is touched.  Usage: tools/seeded_diag.sh [lanes=4]
set -u
cd "$(dirname "$0")/.."
N="${1:-4}"
VERIF="$PWD"
declare -A EXTRA=( [C02-C]=C04 [C02-G]=C04 [C03-F]=C05 [C06-F]=C16 [C02-F]=C16 [C09-I]=C08 [C01-H]=C10 )
seeds=( $(ls -d seeded/C*/ | xargs -n1 basename) )
lane() {
  k=$1; L=/tmp/diag-$k
  rm -rf $L; mkdir -p $L
  rsync -a --exclude target --exclude .git --exclude 'harness/target' "$VERIF/" $L/verif/
  git -C /repo worktree add -q --detach $L/repo HEAD
  export VERIF_REPO=$L/repo VERIF_SCRATCH=$L/scratch VERIF_EVIDENCE=$L/evidence CARGO_BUILD_JOBS=6
  mkdir -p $VERIF_EVIDENCE
  : > $L/out.tsv
  i=0
  for s in "${seeds[@]}"; do
    i=$((i+1)); [ $((i % N)) -eq $k ] || continue
    P="$VERIF/seeded/$s/patch.diff"
    if ! git -C $L/repo apply "$P" 2>/dev/null; then echo -e "$s\t-\tpatch-does-not-apply\t" >> $L/out.tsv; continue; fi
    for id in ${s%%-*} ${EXTRA[$s]:-}; do
      out=$(cd $L/verif && bin/check $id quick 2>&1); rc=$?
      sigs=$(echo "$out" | grep '^VIOLATION' | sed -e 's/.*signature=//' | cut -c1-110 | tr '\n' '|')
      echo -e "$s\t$id\trc=$rc\t$sigs" >> $L/out.tsv
    done
    git -C $L/repo checkout -q -- .
  done
  # the unchanged tree once more, every check of this lane's last build: must be silent
  git -C /repo worktree remove --force $L/repo
}
for k in $(seq 0 $((N-1))); do lane $k & done
wait
{ echo "# every seeded change x the quick check of its target property (+ the property documented to report it), current harness ($(git -C "$VERIF" rev-parse --short HEAD)) against repo $(git -C /repo rev-parse --short HEAD), isolated copies (tools/seeded_diag.sh); rc=1 = violation reported"; cat /tmp/diag-*/out.tsv | sort; } > seeded/DIAGONAL.tsv
rm -rf /tmp/diag-*
git -C /repo worktree prune
echo DIAG-DONE
