#!/bin/bash
# Runs every quick check against every seeded change (applied to /repo one at a time, undone afterwards)
# and writes seeded/MATRIX.tsv: <seed> <check> <rc> <signatures>
cd "$(dirname "$0")/.."
out=seeded/MATRIX.tsv.new; : > $out
for d in seeded/C*/; do
  s=$(basename $d)
  if ! git -C /repo apply --check "$PWD/$d/patch.diff" 2>/dev/null; then echo -e "$s\t-\tpatch-does-not-apply" >> $out; continue; fi
  tools/seeded_eval.sh $d/patch.diff quick 2>&1 | grep '^EVAL' | while read -r _ p id rc sigs; do echo -e "$s\t$id\t$rc\t$sigs" >> $out; done
done
mv $out seeded/MATRIX.tsv
echo MATRIX-DONE
