#!/usr/bin/env python3
"""Copies seeded/TABLE.md between the SEEDTABLE markers of DESIGN.md."""
import os, re
V = os.path.dirname(os.path.dirname(os.path.abspath(__file__)))
t = open(os.path.join(V, 'seeded', 'TABLE.md')).read()
p = os.path.join(V, 'DESIGN.md')
s = open(p).read()
s = re.sub(r'<!-- SEEDTABLE:BEGIN -->.*?<!-- SEEDTABLE:END -->', '<!-- SEEDTABLE:BEGIN -->\n' + t.replace('\\', '\\\\') + '<!-- SEEDTABLE:END -->', s, flags=re.S)
open(p, 'w').write(s)
