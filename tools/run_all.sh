#!/bin/bash
# usage: tools/run_all.sh quick|thorough [ids...]   (VERIF_SEED honoured) — prints one line per check
cd "$(dirname "$0")/.."
tier="${1:-quick}"; shift
ids="$@"; [ -z "$ids" ] && ids="C01 C02 C03 C04 C05 C06 C07 C08 C09 C10 C11 C12 C13 C14 C15 C16 C17 C18 C19 C20"
for id in $ids; do
  t0=$(date +%s)
  out=$(bin/check $id $tier 2>&1); rc=$?
  t1=$(date +%s)
  echo "== $id rc=$rc $((t1-t0))s :: $(echo "$out" | grep -c '^VIOLATION') violations, $(echo "$out" | grep -c '^KNOWN-FINDING') known, $(echo "$out" | grep -c '^INCONCLUSIVE') inconclusive"
  echo "$out" | grep -E '^(VIOLATION|INCONCLUSIVE|HARNESS-ERROR|SUMMARY)' | cut -c1-300
done
