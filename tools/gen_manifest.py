#!/usr/bin/env python3
"""Regenerates /verif/MANIFEST.json from the table below (kept in one place so it stays valid)."""
import json, os
V = os.path.dirname(os.path.dirname(os.path.abspath(__file__)))
props = [json.loads(l) for l in open(os.path.join(V, "properties.jsonl"))]

# id -> (category, technique, level text, level note, design ref)
CLAIMED = {
 "C15": ("exploration", "runtime monitor: algebraic-law oracle + BigInt-style reference map over exhaustive small space and random values",
         "Every pair (and, for associativity, triple) of representations of values over 3 asset classes with amounts in -2..2 is enumerated completely and checked against the group laws with the code's own ==, against a reference map, and against the definitions of the predicates; random values extend this to the i128 range and arbitrary class names. Held = no law failed on any enumerated or sampled execution.",
         "trusts the harness' reference arithmetic (checked i128 over a BTreeMap) and ciborium for building values with explicit zero entries; classes in non-normal form (empty policy / empty name given directly to from_class_and_amount) are only fed through the normalising constructors",
         "DESIGN.md section 3 C15"),
}

checks = []
for p in props:
    pid = p["id"]
    if pid not in CLAIMED:
        continue
    cat, tech, text, note, ref = CLAIMED[pid]
    checks.append({
        "property_id": pid,
        "quick_cmd": f"bin/check {pid} quick",
        "thorough_cmd": f"bin/check {pid} thorough",
        "evidence_file": f"/verif/evidence/{pid}.json",
        "replay_cmd_template": f"bin/check {pid} --replay {{path}}",
        "engine": "tx3-verif",
        "level_claimed": {"category": cat, "text": text, "design_ref": ref},
        "level_note": note,
        "technique": tech,
    })

na = [{"property_id": p["id"], "reason": "check not built yet (work in progress, see DESIGN.md section 3)"}
      for p in props if p["id"] not in CLAIMED]

m = {
 "version": 1,
 "setup_cmd": "bin/check --setup",
 "hooks": {
   "guard": "tx3_verif",
   "enable": "--cfg tx3_verif is passed on every harness build (harness/.cargo/config.toml); no hook exists in /repo: all observation is through public API (Compiler/UtxoStore trait wrappers, pest::set_call_limit, pub fields)",
   "baseline_off_cmd": "cd /repo && cargo nextest run --workspace --no-fail-fast --offline || cargo test --workspace --no-fail-fast --offline",
   "source_commits": [],
   "add_only": True,
 },
 "engines": [{"name": "tx3-verif", "path": "/verif/harness", "serves_properties": [c["property_id"] for c in checks],
              "kind_free_text": "Rust harness (supervisor + sharded worker subprocesses) linking the crates of /repo by path; monitors: reference models, independent decoders, metamorphic relations, panic/abort/hang capture, event-log checkers"}],
 "checks": checks,
 "notes": "Runtime monitoring only. bin/check rebuilds the harness (release + checked profiles) against /repo's working tree on every call. Known findings: /verif/known_findings.jsonl.",
 "not_applicable": na,
}
json.dump(m, open(os.path.join(V, "MANIFEST.json"), "w"), indent=1)
print("checks:", len(checks), "not_applicable:", len(na))
