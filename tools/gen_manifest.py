#!/usr/bin/env python3
"""Regenerates /verif/MANIFEST.json from the table below (kept in one place so it stays valid)."""
import json, os
V = os.path.dirname(os.path.dirname(os.path.abspath(__file__)))
props = [json.loads(l) for l in open(os.path.join(V, "properties.jsonl"))]

# id -> (category, technique, level text, level note, design ref)
CLAIMED = {
 "C01": ("translation_validation", "runtime differential oracle: independent reference semantics + independent CBOR/Plutus-Data decoder vs the real parse/analyse/lower/apply/reduce/compile pipeline, plus layout metamorphic relation",
         "Every generated program of the core fragment is translated by the real pipeline and the emitted transaction is validated field by field (inputs, ordered outputs incl. address/lovelace/assets/inline datum, mint, validity, signers, references, collateral, metadata, fee, network id) against a denotation computed by an independently written big-step semantics over the generator's own syntax tree; 2-3 random whitespace/comment layouts must lower to the same canonical IR. Held = no disagreement on any generated (program, argument vector, UTxO assignment, fee, network).",
         "trusts the harness' reference semantics (self-tested on hand-computed cases at start-up), its CBOR/Plutus-Data reader and the generator's adherence to the analyzer's name-resolution rules; UTxOs are assigned rather than selected; sampled, not exhaustive",
         "DESIGN.md section 3 C01"),
 "C02": ("exploration", "runtime monitor: BigInt reference denotation with ledger-range table on boundary-valued arguments; conservation (in + mint = out + fee) checker on decoded transactions",
         "Programs (half in balanced form) are run with boundary-valued integer arguments and under-funded UTxOs; whenever the pipeline returns Ok every numeric field must fit its ledger type and equal the exact value, and balanced templates must conserve value per asset class on the decoded bytes; a panic is reported as panic-instead-of-error. Held = no silent wrap/truncate/drop outside the listed known findings.",
         "release profile so that wraps are silent (checked profile in a second phase); Err results are always acceptable; ranges per DESIGN appendix B",
         "DESIGN.md section 3 C02"),
 "C03": ("exploration", "runtime monitor: brute-force reference selector written against the statement + store event log, over an exhaustive query grid on sampled small stores and random large stores",
         "Every combination of address / reference (own, foreign, dangling) / min_amount per class / single-many / input-collateral is run with the real tx3_resolver::inputs::resolve against sampled stores of 0..4 UTxOs, random queries against stores of up to 200 UTxOs with amounts up to 2^62, and a 'tight' phase (1..50 candidates at the queried address among up to 80 others, threshold = exact total of the candidates or the one dominating candidate, so that losing any candidate in narrowing, window, selection or excess trimming turns a resolvable query into a failure; single-UTxO thresholds at magnitudes from units to 2^45 with near misses 1..10 above the best candidate; UTxOs holding a policy-less Named asset, which are no collateral); the bound set is checked for soundness against every stated constraint and, when the candidate set has <= 50 members and contains a covering UTxO / total, for completeness. The store's event log shows which narrowing and fetch paths ran. Held = no unsound binding and no missed match.",
         "the in-memory store implements the UtxoStore contract; min_amount entries are non-negative; multi-reference queries are checked for soundness only; default (vector) selector build",
         "DESIGN.md section 3 C03"),
 "C04": ("exploration", "runtime monitor: pairwise-disjointness check of per-block selections after inputs::resolve + duplicate / count check on the raw body input list after resolve_tx",
         "Templates with 1..4 overlapping input blocks (same party, nested thresholds, shared references, multi-UTxO blocks, optional collateral; block names drawn so that they sort on both sides of each other and of the collateral query, since blocks are visited in name order) are resolved against stores sized below / at / above what the blocks need; selections must be pairwise disjoint, the emitted input list free of duplicates and at least as long as the number of blocks, and resolution must fail when there are fewer UTxOs than blocks. Held on every generated (template, store).",
         "block names are distinct after lower-casing; collateral may overlap a regular input",
         "DESIGN.md section 3 C04"),
 "C05": ("exploration", "runtime monitor: fee-equation oracle on decoded bytes + per-round event log from a compiler wrapper (fee applied, payload length, fee reported)",
         "The real resolve_tx is run on fee-dependent templates over a protocol-parameter grid with UTxO amounts placed around CBOR width boundaries of the change and the fee, and on a multi-UTxO input with a fee-dependent threshold against wallets of 2..12 small UTxOs (the real fee forces the selection to grow, which makes the transaction larger again); decoded body fee = reported fee = a*len+b+margin, the change and the input threshold must have used that same fee. The round log classifies a failure (cut at the round limit vs returned early). Held except for the listed known finding (oscillation cut at the round limit).",
         "Err results are out of scope; single-UTxO stores in the 'fees' phase, wallets of small UTxOs in the 'multi' phase",
         "DESIGN.md section 3 C05"),
 "C06": ("exploration", "runtime monitor: independent structural walk over the serialised IR (ciborium Value of the Serialize derive) compared with find_params / find_queries before and after each application stage; missing-argument probe through resolve_tx",
         "For lowered generated programs, the examples and random IR trees with a parameter / query / fees node in every expression position, the names found by the walk must equal the reported ones; after apply_args / apply_fees / apply_inputs of everything reported no unresolved node of that kind may remain, after compiler ops + reduce none at all and is_constant must agree; resolve_tx with one reported argument removed (half of the time with its value present under a key differing in letter case only) must return MissingTxArg naming it; through the Workspace facade the arguments arrive in 2..3 apply_args batches, after which no tx may still report a supplied parameter. The evidence lists the (kind, position) pairs reached. Held on every IR.",
         "the walk sees exactly what Serialize sees; nodes under an applied Param::Set and queries nested in a query's own field are outside the language and not generated",
         "DESIGN.md section 3 C06"),
 "C07": ("exploration", "runtime monitor: exhaustive schedule enumeration per template (24 stage orders x 32 reduce placements x arguments at once / in two instalments with a reduction in between) with canonical-IR and decoded-transaction equality oracle and idempotence check after every reduce",
         "For each generated template (every third one built from asset atoms in which exactly one of policy / name / amount is a parameter) and world all admissible schedules of {args, inputs, fees, compiler ops} with any subset of interleaved reductions are executed on the real Apply / Node / reduce API; the canonical fully reduced IR and the independently decoded compiled transaction must be the same for all of them, and reduce must be idempotent wherever it is applied; a second phase feeds random typed, evaluable IR expressions (parameter keys and indices of lists / maps / tuples, parameter policies / names / amounts of assets) their arguments in ten ways, incl. decoy keys that differ from the parameter names in letter case only. Schedules are exhaustive per template; templates are sampled. Held = one outcome per template.",
         "admissibility is defined on stage dependencies known from the generator (compiler ops after args when a built-in reads a parameter); a fresh compiler per schedule",
         "DESIGN.md section 3 C07"),
 "C08": ("exploration", "runtime monitor: redeemer-attachment oracle (ledger-order ranks computed by the reference semantics) vs the independently decoded witness set",
         "Generated templates with script inputs (single and multi-UTxO), mints/burns on shared and distinct policies and withdrawals, with random transaction ids / policy ids / credentials so that every relative order occurs, UTxOs of one transaction id with output indices across the 1/2/4-byte boundaries, and burns that exactly cancel a mint (the policy vanishes from the mint field); the decoded map (purpose tag, index) -> data must equal the map built from the source. Lost, spurious, misindexed and wrong-data redeemers have distinct signatures. Held = maps equal on every generated case.",
         "ledger ordering of inputs (txid bytes, index), mint policies and reward accounts as implemented in the reference semantics; ambiguous mint blocks (several policies / cancelled policy with a redeemer) are counted, not judged",
         "DESIGN.md section 3 C08"),
 "C09": ("exploration", "runtime monitor: independent Plutus-Data reader (written from the CDDL) vs reference denotation; exhaustive constructor-index sweep 0..139",
         "Every constructor index 0..139 (tags 121-127, 1280-1400, 102) is exercised as inline datum and as redeemer, with integer fields over the i128 boundary set; generated programs add nested records/variants/lists/maps, spread, field access, integers over the whole i128 range and byte strings of 0..100 bytes. Held = the spec reader recovers exactly the denoted value from the emitted bytes in every case.",
         "the harness' Plutus-Data reader is self-tested on hand-written vectors for tags 121/127/1280/1400/102 and bignums; an 'arithmetic overflow' error for values beyond i128 is the accepted outcome",
         "DESIGN.md section 3 C09"),
 "C10": ("exploration", "runtime monitor: pallas decode acceptance + own Blake2b-256 over raw byte ranges (body, auxiliary data, script integrity) + structural scan of the independent CBOR view + compile-twice and cross-process byte equality",
         "Constant templates from generated programs are compiled and the bytes inspected: standard decoder accepts; reported hash = digest of raw body bytes; aux-data and script-data hashes present exactly when metadata / redeemers are and equal to digests of what the payload carries; no duplicate/empty/zero entries; network id; identical bytes for same instance, fresh instance, an instance that just compiled the previous case's template or a sibling running another Plutus language, and three fresh processes; cost models differ from case to case so that process-wide state shows in the script-data hash. Held = all oracles satisfied on every compiled template.",
         "script integrity computed per the Alonzo rule with the cost models handed to the compiler; ledger validity beyond these structural rules (min-UTxO, script execution) is not modelled",
         "DESIGN.md section 3 C10"),
 "C11": ("exploration", "runtime monitor: round-trip oracle on two independent views (canonicalised Serialize output and a field-by-field structural view) over random IR trees and lowered programs; hostile-bytes totality monitor with panic hook, signal and watchdog observers, nested payloads decoded on a 2 MiB thread and by an unoptimised stack-probe binary; Miri cross-run in the thorough tier",
         "Random IR trees covering every Expression/Param/BuiltInOp/CompilerOp/Coerce variant, all lowered example and generated programs are encoded and decoded and compared in canonical form and field by field through the model's public fields (plus find_params/find_queries and the compiled transaction after identical application); 13 kinds of hostile byte strings (incl. 11 expression wrappers nested 50..100000 deep in a typed position, decoded on a 2 MiB thread and once more by a dev-profile probe binary) and a list of version strings must yield Ok/Err without panic, abort or hang; the thorough tier repeats a few hundred operations under the Miri interpreter. Held = no difference and no crash on anything generated.",
         "the structural view reads public fields only (a private field added later would be invisible); stack sufficiency is judged on Rust's default 2 MiB thread stack in the optimised harness and in an unoptimised probe; hang = wall-clock watchdog reproduced alone with 3x budget",
         "DESIGN.md section 3 C11"),
 "C12": ("exploration", "runtime monitor: totality oracle (panic hook, worker signals, watchdog) + logical step budget on the parser (pest call limit) + CPU-time growth probe, over grammar-derived inputs, token mutations and exhaustive nesting sweeps; Miri cross-run in the thorough tier",
         "Inputs derived from tx3.pest itself (read at run time), 12 token-level mutators over the examples and generated programs, 30 recursive constructs at every nesting depth 1..64 and 7 families of linearly growing definition chains are parsed and analysed in worker subprocesses; every call must return, the parser within a step budget three orders of magnitude above linear behaviour, and CPU time must not grow exponentially with program length; the thorough tier repeats a few hundred operations under the Miri interpreter. Held = no panic / abort / budget overrun apart from the listed known finding.",
         "termination of analyze is observed by watchdog and growth probe only (it has no step counter); memory is capped at 6 GiB per worker",
         "DESIGN.md section 3 C12"),
 "C13": ("exploration", "runtime monitor: implication oracle (analyze reports nothing => lower succeeds, facade returns Ok) over semantic mutants of valid generated programs, with panic hook and CPU-time growth probe",
         "Valid generated programs are put through ~45 kinds of semantic mutation on the generator's own tree (plus token-level mutations; incl. a list index that is a bare name of the wrong kind - the constructor's own field, a type, party, asset, policy, case or function name - inside constructors in every block kind) and fed to the real parse / analyze / lower and to Workspace::{parse, analyze, lower}; whenever the analyzer reports no error every tx must lower and the facade must return Ok without panicking. Which mutants the analyzer rejects or accepts is counted per mutator in the evidence. Held apart from the listed known findings (reference cycles, local chains >= 9, odd hex literals, exponential alias chains).",
         "only the implication is judged; the cause labels reference-cycle / local-chain>=9 come from the harness' own inspection of the mutant",
         "DESIGN.md section 3 C13"),
 "C14": ("exploration", "runtime monitor: totality oracle (panic hook with in-repo frame extraction, worker signal exits, per-case watchdog) over every public back-end entry point, checked (overflow-checks + debug-assertions) and release profiles",
         "Lowered generator templates with type-correct but hostile arguments, stores and protocol parameters, and random well-formed IR trees a client could send (incl. built-ins over constant operands of every near-miss shape: asset lists whose amount / policy / name is a constant of the wrong kind, duplicate classes that overflow when merged, extreme integers), and one-input queries against wallets with 0..120 full and 0..60 partial matches (both sides of the selection window) are pushed through find_params, find_queries, is_constant, apply_args, apply_fees, Node::apply(compiler), reduce, apply_inputs, compile, inputs::resolve and resolve_tx in worker subprocesses; every call must return Ok or Err. Held = no panic, abort or reproducible overrun on any driven call.",
         "arguments are type-correct in the property's sense; stores follow the trait contract and hold amounts below 2^80 in magnitude; nothing is asserted about which of Ok/Err comes back",
         "DESIGN.md section 3 C14"),
 "C19": ("exploration", "runtime monitor: span-inside-text invariant checked on every diagnostic produced by erroneous inputs, plus rendering through miette's graphical handler; Miri cross-run in the thorough tier",
         "Grammar expansions, token mutants and semantic mutants (multi-line layouts with multi-byte comments, so that errors fall on every line / column class) are parsed and analysed; every parse error must have start <= end <= len(carried text) on char boundaries and render with a snippet, every analysis error with a real span must lie within the input on char boundaries and, for not-in-scope errors, locate exactly the reported name; the thorough tier repeats a few hundred operations under the Miri interpreter. Held on every diagnostic observed.",
         "dummy spans are skipped; the harness' own 'call limit reached' error is not a diagnostic of the code under test",
         "DESIGN.md section 3 C19"),
 "C20": ("exploration", "runtime monitor: differential oracle between a used and a fresh compiler instance over generated call histories",
         "Histories of 0..4 earlier resolutions (succeeding and failing, with and without min_utxo, 1..6 outputs) are replayed on one compiler instance before a target is resolved (min_utxo on random outputs, an optional output that is dropped from the body in a third of the cases, balances placed at the binary-searched minimum a fresh instance needs +- small offsets, coins_per_utxo_byte over 1..40000 incl. 289..291); the outcome (bytes, hash, fee / error kind / panic site) must equal that of a fresh identically configured instance. Held on every generated (history, target).",
         "same single-UTxO store for both runs so that hash order cannot differ; latest_tx_body is the only state the instance carries",
         "DESIGN.md section 3 C20"),
 "C16": ("exploration", "runtime monitor: encoder/decoder inversion oracle over generated values x admissible encodings, refusal oracle over ill-formed shapes, panic hook around from_json / parse_resolve_request, and a reference subset-map for request assembly",
         "For every argument type a random value is rendered in each documented JSON encoding and from_json must return exactly that value; listed ill-formed shapes must be refused; random JSON against every type and random / corrupted resolve requests (10 envelope corruptions, parameters split between args and env, undeclared extras) must return Ok or Err, and on Ok the argument map must equal the declared subset of args + env coerced by the declared types; one request in five carries an ill-formed value for a declared parameter (under args or env) and must be refused; the thorough tier repeats a few hundred operations under the Miri interpreter. Held = no miscoercion, acceptance of an ill-formed value, dropped / extra key or panic on any generated document.",
         "values are sampled (i128 boundary set, byte strings up to 100 bytes, all Shelley address kinds); a key is never placed in both args and env; transaction-id length is not policed because the statement does not",
         "DESIGN.md section 3 C16"),
 "C17": ("exploration", "runtime monitor: the real tx3c binary is run per generated program; the emitted TII is read back and confronted with find_params of the decoded embedded IR (name-agreement oracle), with lower() computed in-process (canonical equality), and with a request assembled from exactly the declared keys (closure oracle through parse_resolve_request + apply_args)",
         "Generated programs with parameters, env vars and parties re-spelled in lower / UPPER / mixed case, unused declarations, policies of every form, optional profile flags and dotfiles, and (collision phase) two declared names made equal up to case are compiled by the real CLI; for every tx the embedded envelope must decode to the lowered IR, every key the IR requires must be declared under the identical spelling in exactly one section with no other declared key equal to it up to case, and a client supplying precisely the declared keys (typed by the declared schemas) must get every required key through parse_resolve_request with its value and close all value parameters; hand-shaped programs add parameters typed by records / variants / alias chains / lists and maps of them (every key the embedded IR requires must be declared); any two declarations visible to one tx that share a key up to letter case (incl. an env var plus two parameters spelled alike, and two txs of one name; a parameter shadowing an identically spelled env var excepted) must be refused by the analyzer. Held = no spelling / undeclared / collision / closure disagreement on any emitted file.",
         "a program accepted in-process but refused by tx3c is inconclusive (no file to judge); parameters of record / list / map type are not supplied; a parameter shadowing an env var of the same spelling is judged by the closure oracle only",
         "DESIGN.md section 3 C17"),
 "C18": ("exploration", "runtime monitor: offline checker over recorded histories of artifacts - the set of distinct byte strings per (source, tx) over 20 in-process repetitions, 3 fresh processes (new hash seeds), 3 runs of the real tx3c binary and a random history of Workspace facade operations must be a singleton; differences are located by a parallel walk of the two CBOR / JSON documents",
         "All example programs of the repository and generated programs weighted towards chain-specific directives with several fields are parsed, analysed, lowered and encoded 20 times in one process and once in each of 3 fresh processes, and their TII file is produced 3 times by the real CLI (distinct output paths, one run from a copy in another directory, 0-2 profile flags, optional dotfile, some histories spanning more than a second); every artifact must be one byte string; on one Workspace a random history of parse / analyze / lower / ensure_tir / apply_args(type-correct arguments) followed by lower() must give, per tx, the bytes of a fresh pass. Held = singleton sets on every history.",
         "hash seeds are sampled (20 maps per process + 3 processes), not enumerated: an order-dependent encoding of a map with k entries escapes one comparison with probability about 1/k!; machine-dependent inputs other than path, time and hash seeds (locale, environment variables) are not varied",
         "DESIGN.md section 3 C18"),
 "C15": ("exploration", "runtime monitor: algebraic-law oracle + BigInt-style reference map over exhaustive small space and random values",
         "Every pair (and, for associativity, triple) of representations of values over 3 asset classes with amounts in -2..2 is enumerated completely and checked against the group laws with the code's own ==, against a reference map, and against the definitions of the predicates; random values extend this to the i128 range and arbitrary class names. Held = no law failed on any enumerated or sampled execution.",
         "trusts the harness' reference arithmetic (checked i128 over a BTreeMap) and ciborium for building values with explicit zero entries; classes in non-normal form (empty policy / empty name given directly to from_class_and_amount) are only fed through the normalising constructors",
         "DESIGN.md section 3 C15"),
}

checks = []
for p in props:
    pid = p["id"]
    if pid not in CLAIMED:
        continue
    cat, tech, text, note, ref = CLAIMED[pid]
    checks.append({
        "property_id": pid,
        "quick_cmd": f"bin/check {pid} quick",
        "thorough_cmd": f"bin/check {pid} thorough",
        "evidence_file": f"/verif/evidence/{pid}.json",
        "replay_cmd_template": f"bin/check {pid} --replay {{path}}",
        "engine": "tx3-verif",
        "level_claimed": {"category": cat, "text": text, "design_ref": ref},
        "level_note": note,
        "technique": tech,
    })

na = [{"property_id": p["id"], "reason": "not claimed (see DESIGN.md)"}
      for p in props if p["id"] not in CLAIMED]

m = {
 "version": 1,
 "setup_cmd": "bin/check --setup",
 "hooks": {
   "guard": "tx3_verif",
   "enable": "--cfg tx3_verif is passed on every harness build (harness/.cargo/config.toml); no hook exists in /repo: all observation is through public API (Compiler/UtxoStore trait wrappers, pest::set_call_limit, pub fields)",
   "baseline_off_cmd": "cd /repo && cargo nextest run --workspace --no-fail-fast --offline || cargo test --workspace --no-fail-fast --offline",
   "source_commits": [],
   "add_only": True,
 },
 "engines": [{"name": "tx3-verif", "path": "/verif/harness", "serves_properties": [c["property_id"] for c in checks],
              "kind_free_text": "Rust harness (supervisor + sharded worker subprocesses) linking the crates of /repo by path; monitors: reference models, independent decoders, metamorphic relations, panic/abort/hang capture, event-log checkers"}],
 "checks": checks,
 "notes": "Runtime monitoring only. bin/check rebuilds the harness (release + checked profiles) against /repo's working tree on every call. Known findings: /verif/known_findings.jsonl.",
 "not_applicable": na,
}
json.dump(m, open(os.path.join(V, "MANIFEST.json"), "w"), indent=1)
print("checks:", len(checks), "not_applicable:", len(na))
