#!/usr/bin/env python3
"""Validates MANIFEST.json and every evidence file against the schemas in /root/.vp (run with python3-vt)."""
import json, sys, glob, jsonschema
ms = json.load(open('/root/.vp/MANIFEST.schema.json')); es = json.load(open('/root/.vp/EVIDENCE.schema.json'))
m = json.load(open('/verif/MANIFEST.json')); jsonschema.validate(m, ms)
bad = 0
for c in m['checks']:
    f = c['evidence_file']
    try:
        e = json.load(open(f)); jsonschema.validate(e, es)
        cov = e['coverage']
        if not cov.get('samples'): print('NO SAMPLES', f); bad += 1
        print(c['property_id'], e['tier'], 'evals', cov.get('evaluations'), 'distinct', cov.get('distinct_nontrivial'), 'samples', len(cov.get('samples', [])), 'violations', e.get('violations'))
    except Exception as x:
        print('INVALID', f, str(x)[:300]); bad += 1
sys.exit(1 if bad else 0)
