//! Structural view of a TIR transaction built by reading the model's *public fields* directly: it does
//! not go through `Serialize` (so a lossy or order-dependent `Serialize` impl on a model type cannot hide
//! behind itself, as it would in `canon`), nor through the hand-written traversals of the code under test.
//! Hash-ordered containers are sorted by their identity (UTxO reference, directive key, asset class).

use ciborium::Value;
use tx3_tir::model::assets::{AssetClass, CanonicalAssets};
use tx3_tir::model::core::{Type, Utxo, UtxoRef};
use tx3_tir::model::v1beta0 as tir;

fn t(s: &str) -> Value {
    Value::Text(s.to_string())
}

fn node(name: &str, fields: Vec<Value>) -> Value {
    let mut v = vec![t(name)];
    v.extend(fields);
    Value::Array(v)
}

fn bytes(b: &[u8]) -> Value {
    Value::Bytes(b.to_vec())
}

fn int(n: i128) -> Value {
    // i128 does not fit ciborium's Integer in general: decimal text keeps it exact
    Value::Text(format!("i:{n}"))
}

pub fn utxo_ref(r: &UtxoRef) -> Value {
    node("ref", vec![bytes(&r.txid), Value::Integer(r.index.into())])
}

pub fn class(c: &AssetClass) -> Value {
    #[allow(unreachable_patterns)]
    match c {
        AssetClass::Naked => node("naked", vec![]),
        AssetClass::Named(n) => node("named", vec![bytes(n)]),
        AssetClass::Defined(p, n) => node("defined", vec![bytes(p), bytes(n)]),
        other => node("unknown-class", vec![t(&format!("{other:?}"))]),
    }
}

pub fn assets(a: &CanonicalAssets) -> Value {
    let mut entries: Vec<(Vec<u8>, Value)> = a
        .iter()
        .map(|(c, q)| {
            let k = class(c);
            (crate::canon::value_bytes(&k), Value::Array(vec![k, int(*q)]))
        })
        .collect();
    entries.sort_by(|x, y| x.0.cmp(&y.0));
    node("assets", entries.into_iter().map(|e| e.1).collect())
}

pub fn utxo(u: &Utxo) -> Value {
    node(
        "utxo",
        vec![
            utxo_ref(&u.r#ref),
            bytes(&u.address),
            assets(&u.assets),
            u.datum.as_ref().map(expr).unwrap_or(Value::Null),
            u.script.as_ref().map(expr).unwrap_or(Value::Null),
        ],
    )
}

pub fn ty(x: &Type) -> Value {
    t(&format!("{x:?}"))
}

pub fn query(q: &tir::InputQuery) -> Value {
    node("query", vec![expr(&q.address), expr(&q.min_amount), expr(&q.r#ref), Value::Bool(q.many), Value::Bool(q.collateral)])
}

pub fn param(p: &tir::Param) -> Value {
    #[allow(unreachable_patterns)]
    match p {
        tir::Param::Set(e) => node("Set", vec![expr(e)]),
        tir::Param::ExpectValue(n, x) => node("ExpectValue", vec![t(n), ty(x)]),
        tir::Param::ExpectInput(n, q) => node("ExpectInput", vec![t(n), query(q)]),
        tir::Param::ExpectFees => node("ExpectFees", vec![]),
        other => node("unknown-param", vec![t(&format!("{other:?}"))]),
    }
}

pub fn adhoc(d: &tir::AdHocDirective) -> Value {
    let mut entries: Vec<(&String, Value)> = d.data.iter().map(|(k, v)| (k, Value::Array(vec![t(k), expr(v)]))).collect();
    entries.sort_by(|a, b| a.0.cmp(b.0));
    node("adhoc", vec![t(&d.name), Value::Array(entries.into_iter().map(|e| e.1).collect())])
}

pub fn expr(e: &tir::Expression) -> Value {
    use tir::Expression as E;
    #[allow(unreachable_patterns)]
    match e {
        E::None => node("None", vec![]),
        E::List(xs) => node("List", xs.iter().map(expr).collect()),
        E::Map(xs) => node("Map", xs.iter().map(|(k, v)| Value::Array(vec![expr(k), expr(v)])).collect()),
        E::Tuple(p) => node("Tuple", vec![expr(&p.0), expr(&p.1)]),
        E::Struct(s) => node("Struct", vec![Value::Text(format!("c:{}", s.constructor)), Value::Array(s.fields.iter().map(expr).collect())]),
        E::Bytes(b) => node("Bytes", vec![bytes(b)]),
        E::Number(n) => node("Number", vec![int(*n)]),
        E::Bool(b) => node("Bool", vec![Value::Bool(*b)]),
        E::String(s) => node("String", vec![t(s)]),
        E::Address(b) => node("Address", vec![bytes(b)]),
        E::Hash(b) => node("Hash", vec![bytes(b)]),
        E::UtxoRefs(rs) => node("UtxoRefs", rs.iter().map(utxo_ref).collect()),
        E::UtxoSet(s) => {
            let mut items: Vec<(Vec<u8>, u32, Value)> = s.iter().map(|u| (u.r#ref.txid.clone(), u.r#ref.index, utxo(u))).collect();
            items.sort_by(|a, b| (&a.0, a.1).cmp(&(&b.0, b.1)));
            node("UtxoSet", items.into_iter().map(|i| i.2).collect())
        }
        E::Assets(xs) => node("Assets", xs.iter().map(|a| Value::Array(vec![expr(&a.policy), expr(&a.asset_name), expr(&a.amount)])).collect()),
        E::EvalParam(p) => node("EvalParam", vec![param(p)]),
        E::EvalBuiltIn(op) => match op.as_ref() {
            tir::BuiltInOp::NoOp(a) => node("BuiltIn:NoOp", vec![expr(a)]),
            tir::BuiltInOp::Add(a, b) => node("BuiltIn:Add", vec![expr(a), expr(b)]),
            tir::BuiltInOp::Sub(a, b) => node("BuiltIn:Sub", vec![expr(a), expr(b)]),
            tir::BuiltInOp::Concat(a, b) => node("BuiltIn:Concat", vec![expr(a), expr(b)]),
            tir::BuiltInOp::Negate(a) => node("BuiltIn:Negate", vec![expr(a)]),
            tir::BuiltInOp::Property(a, b) => node("BuiltIn:Property", vec![expr(a), expr(b)]),
            other => node("unknown-builtin", vec![t(&format!("{other:?}"))]),
        },
        E::EvalCompiler(op) => match op.as_ref() {
            tir::CompilerOp::BuildScriptAddress(a) => node("Compiler:BuildScriptAddress", vec![expr(a)]),
            tir::CompilerOp::ComputeMinUtxo(a) => node("Compiler:ComputeMinUtxo", vec![expr(a)]),
            tir::CompilerOp::ComputeTipSlot => node("Compiler:ComputeTipSlot", vec![]),
            tir::CompilerOp::ComputeSlotToTime(a) => node("Compiler:ComputeSlotToTime", vec![expr(a)]),
            tir::CompilerOp::ComputeTimeToSlot(a) => node("Compiler:ComputeTimeToSlot", vec![expr(a)]),
            other => node("unknown-compiler-op", vec![t(&format!("{other:?}"))]),
        },
        E::EvalCoerce(c) => match c.as_ref() {
            tir::Coerce::NoOp(a) => node("Coerce:NoOp", vec![expr(a)]),
            tir::Coerce::IntoAssets(a) => node("Coerce:IntoAssets", vec![expr(a)]),
            tir::Coerce::IntoDatum(a) => node("Coerce:IntoDatum", vec![expr(a)]),
            tir::Coerce::IntoScript(a) => node("Coerce:IntoScript", vec![expr(a)]),
            other => node("unknown-coerce", vec![t(&format!("{other:?}"))]),
        },
        E::AdHocDirective(d) => adhoc(d),
        // a variant added to the model later: its Debug text (hash order may then show up as a false
        // difference; the monitor reports it under its own signature)
        other => node("unknown-expression", vec![t(&format!("{other:?}"))]),
    }
}

pub fn tx(x: &tir::Tx) -> Value {
    node(
        "tx",
        vec![
            node("fees", vec![expr(&x.fees)]),
            node("references", x.references.iter().map(expr).collect()),
            node("inputs", x.inputs.iter().map(|i| Value::Array(vec![t(&i.name), expr(&i.utxos), expr(&i.redeemer)])).collect()),
            node("outputs", x.outputs.iter().map(|o| Value::Array(vec![expr(&o.address), expr(&o.datum), expr(&o.amount), Value::Bool(o.optional)])).collect()),
            node("validity", x.validity.iter().map(|v| Value::Array(vec![expr(&v.since), expr(&v.until)])).collect()),
            node("mints", x.mints.iter().map(|m| Value::Array(vec![expr(&m.amount), expr(&m.redeemer)])).collect()),
            node("burns", x.burns.iter().map(|m| Value::Array(vec![expr(&m.amount), expr(&m.redeemer)])).collect()),
            node("adhoc", x.adhoc.iter().map(adhoc).collect()),
            node("collateral", x.collateral.iter().map(|c| expr(&c.utxos)).collect()),
            node("signers", x.signers.iter().map(|s| Value::Array(s.signers.iter().map(expr).collect())).collect()),
            node("metadata", x.metadata.iter().map(|m| Value::Array(vec![expr(&m.key), expr(&m.value)])).collect()),
        ],
    )
}

/// name of the first top-level section in which two views differ
pub fn first_difference(a: &Value, b: &Value) -> String {
    if let (Value::Array(xa), Value::Array(xb)) = (a, b) {
        for (x, y) in xa.iter().zip(xb.iter()).skip(1) {
            if x != y {
                if let Value::Array(s) = x {
                    if let Some(Value::Text(name)) = s.first() {
                        return name.clone();
                    }
                }
            }
        }
    }
    "?".into()
}
