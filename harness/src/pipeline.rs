//! Thin drivers around the public API of the code under test, with outcome classification.

use crate::env::{self, PP};
use crate::gen::sem::World;
use crate::panics::{catch, PanicInfo};
use tx3_tir::compile::{CompiledTx, Compiler as _};
use tx3_tir::encoding::AnyTir;
use tx3_tir::model::v1beta0 as tir;
use tx3_tir::reduce::{apply_args, apply_fees, apply_inputs, reduce, Apply as _};
use tx3_tir::Node as _;

#[derive(Debug, Clone)]
pub enum FrontErr {
    Parse(String),
    Analyze(String),
    Lower(String),
    NoSuchTx,
    Panic(PanicInfo),
}

impl FrontErr {
    pub fn class(&self) -> String {
        match self {
            FrontErr::Parse(_) => "parse-error".into(),
            FrontErr::Analyze(_) => "analyze-error".into(),
            FrontErr::Lower(_) => "lower-error".into(),
            FrontErr::NoSuchTx => "no-such-tx".into(),
            FrontErr::Panic(p) => p.signature(),
        }
    }
    pub fn text(&self) -> String {
        match self {
            FrontErr::Parse(s) | FrontErr::Analyze(s) | FrontErr::Lower(s) => s.clone(),
            FrontErr::NoSuchTx => "tx not found".into(),
            FrontErr::Panic(p) => format!("{} at {}", p.message, p.location),
        }
    }
}

/// parse + analyse + lower one tx
pub fn front(src: &str, tx_name: &str) -> Result<tir::Tx, FrontErr> {
    let r = catch(|| {
        let mut prog = tx3_lang::parsing::parse_string(src).map_err(|e| FrontErr::Parse(e.message.clone()))?;
        let report = tx3_lang::analyzing::analyze(&mut prog);
        if !report.errors.is_empty() {
            return Err(FrontErr::Analyze(format!("{}", report)));
        }
        tx3_lang::lowering::lower(&prog, tx_name).map_err(|e| FrontErr::Lower(e.to_string()))
    });
    match r {
        Ok(x) => x,
        Err(p) => Err(FrontErr::Panic(p)),
    }
}

#[derive(Debug, Clone)]
pub enum BackErr {
    Args(String),
    Reduce(String),
    Compile(String),
    NonConstant,
    Unrepresentable,
    Panic(PanicInfo),
}

impl BackErr {
    pub fn class(&self) -> String {
        match self {
            BackErr::Args(_) => "args-error".into(),
            BackErr::Reduce(_) => "reduce-error".into(),
            BackErr::Compile(_) => "compile-error".into(),
            BackErr::NonConstant => "non-constant".into(),
            BackErr::Unrepresentable => "world-unrepresentable".into(),
            BackErr::Panic(p) => p.signature(),
        }
    }
    pub fn text(&self) -> String {
        match self {
            BackErr::Args(s) | BackErr::Reduce(s) | BackErr::Compile(s) => s.chars().take(400).collect(),
            BackErr::NonConstant => "template not constant after applying everything".into(),
            BackErr::Unrepresentable => "world value does not fit the API types".into(),
            BackErr::Panic(p) => format!("{} at {}", p.message, p.location),
        }
    }
    pub fn is_panic(&self) -> bool {
        matches!(self, BackErr::Panic(_))
    }
}

/// The resolver's stage order (args, fees, compiler ops, reduce, inputs, reduce, compile) with the
/// UTxOs *assigned* by the world instead of selected.
pub fn back_assigned(tx: &tir::Tx, world: &World, pp: &PP) -> Result<CompiledTx, BackErr> {
    let args = env::world_args(world).ok_or(BackErr::Unrepresentable)?;
    let inputs = env::world_inputs(world, Some("collateral")).ok_or(BackErr::Unrepresentable)?;
    let mut pp = pp.clone();
    pp.mainnet = world.network == 1;
    let tx = tx.clone();
    let fee = world.fee;
    let r = catch(move || {
        let mut compiler = env::compiler(&pp);
        let t = AnyTir::V1Beta0(tx);
        let t = apply_args(t, &args).map_err(|e| BackErr::Args(e.to_string()))?;
        let t = apply_fees(t, fee).map_err(|e| BackErr::Reduce(e.to_string()))?;
        let t = t.apply(&mut compiler).map_err(|e| BackErr::Reduce(e.to_string()))?;
        let t = reduce(t).map_err(|e| BackErr::Reduce(e.to_string()))?;
        let t = apply_inputs(t, &inputs).map_err(|e| BackErr::Reduce(e.to_string()))?;
        let t = reduce(t).map_err(|e| BackErr::Reduce(e.to_string()))?;
        if !t.is_constant() {
            return Err(BackErr::NonConstant);
        }
        compiler.compile(&t).map_err(|e| BackErr::Compile(e.to_string()))
    });
    match r {
        Ok(x) => x,
        Err(p) => Err(BackErr::Panic(p)),
    }
}
