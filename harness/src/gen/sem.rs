//! Reference semantics `[[.]]`: an independently written big-step evaluator over `G` with
//! arbitrary-precision integers. Never looks at the repo's AST or TIR.

use super::ast::*;
use num_bigint::BigInt;
use num_traits::{Signed, Zero};
use std::collections::{BTreeMap, BTreeSet};

/// None = lovelace, Some((policy, name)) = native token
pub type Class = Option<(Vec<u8>, Vec<u8>)>;
/// never holds zero entries
pub type Assets = BTreeMap<Class, BigInt>;
pub type Ref = (Vec<u8>, u64);

#[derive(Clone, Debug, PartialEq, Eq, PartialOrd, Ord)]
pub enum PD {
    Constr(u64, Vec<PD>),
    Int(BigInt),
    Bytes(Vec<u8>),
    List(Vec<PD>),
    Map(Vec<(PD, PD)>),
}

#[derive(Clone, Debug, PartialEq)]
pub enum V {
    Int(BigInt),
    Bytes(Vec<u8>),
    Str(String),
    Bool(bool),
    Unit,
    List(Vec<V>),
    Map(Vec<(V, V)>),
    Constr(u64, Vec<V>),
    Assets(Assets),
    Address(Vec<u8>),
    Refs(Vec<Ref>),
}

#[derive(Clone, Debug)]
pub struct UtxoV {
    pub txid: Vec<u8>,
    pub index: u64,
    pub address: Vec<u8>,
    pub assets: Assets,
    pub datum: Option<V>,
}

#[derive(Clone, Debug, Default)]
pub struct World {
    /// params / env / parties by lower-cased name
    pub args: BTreeMap<String, V>,
    /// input name (lower-cased) -> assigned UTxOs
    pub inputs: BTreeMap<String, Vec<UtxoV>>,
    pub collateral: Vec<UtxoV>,
    pub fee: u64,
    /// 0 testnet, 1 mainnet
    pub network: u8,
    pub tip_slot: u64,
    pub tip_time: u128,
}

#[derive(Clone, Debug, PartialEq)]
pub enum Meta {
    Int(BigInt),
    Text(String),
    Bytes(Vec<u8>),
}

#[derive(Clone, Debug, PartialEq)]
pub struct ExpOut {
    pub address: Vec<u8>,
    pub lovelace: BigInt,
    /// (policy, name) -> amount, zero entries absent
    pub assets: BTreeMap<(Vec<u8>, Vec<u8>), BigInt>,
    pub datum: Option<PD>,
}

#[derive(Clone, Debug, Default, PartialEq)]
pub struct ExpTx {
    pub inputs: BTreeSet<Ref>,
    pub outputs: Vec<ExpOut>,
    pub mint: BTreeMap<(Vec<u8>, Vec<u8>), BigInt>,
    pub validity_start: Option<BigInt>,
    pub ttl: Option<BigInt>,
    pub signers: BTreeSet<Vec<u8>>,
    pub references: BTreeSet<Ref>,
    pub collateral: BTreeSet<Ref>,
    pub metadata: BTreeMap<BigInt, Meta>,
    pub fee: BigInt,
    /// reward account bytes (header + credential) -> amount
    pub withdrawals: BTreeMap<Vec<u8>, BigInt>,
    pub donation: Option<BigInt>,
    /// (tag, index) -> data ; tag 0 spend, 1 mint, 3 reward
    pub redeemers: BTreeMap<(u8, u32), PD>,
    /// a mint/burn block names an asset class whose quantity in that block, or net over all blocks,
    /// is zero (not a ledger field: only used to decide whether the case is in range)
    pub zero_mint: bool,
    /// the template leaves the meaning open (e.g. a redeemer on a mint block whose policy cancels out
    /// against a burn, or that names several policies): such cases are counted, not judged
    pub ambiguous: Option<String>,
}

#[derive(Clone, Debug, PartialEq)]
pub enum Undef {
    /// the denotation is not defined for this program/world (generator should not have produced it)
    Undefined(String),
}

type R<T> = Result<T, Undef>;

fn undef<T>(s: impl Into<String>) -> R<T> {
    Err(Undef::Undefined(s.into()))
}

pub fn assets_add(a: &Assets, b: &Assets) -> Assets {
    let mut out = a.clone();
    for (k, v) in b {
        let e = out.entry(k.clone()).or_insert_with(BigInt::zero);
        *e += v;
    }
    out.retain(|_, v| !v.is_zero());
    out
}

pub fn assets_neg(a: &Assets) -> Assets {
    a.iter().map(|(k, v)| (k.clone(), -v)).collect()
}

pub fn single(class: Class, amount: BigInt) -> Assets {
    let mut m = Assets::new();
    if !amount.is_zero() {
        m.insert(class, amount);
    }
    m
}

pub struct Sem<'a> {
    pub prog: &'a Program,
    pub world: &'a World,
}

impl<'a> Sem<'a> {
    pub fn new(prog: &'a Program, world: &'a World) -> Self {
        Sem { prog, world }
    }

    fn arg(&self, name: &str) -> R<V> {
        self.world
            .args
            .get(&name.to_lowercase())
            .cloned()
            .ok_or(Undef::Undefined(format!("no argument for {name}")))
    }

    fn policy_hash(&self, name: &str) -> R<Vec<u8>> {
        self.prog
            .policies
            .iter()
            .find(|p| p.name == name)
            .map(|p| p.hash.clone())
            .ok_or(Undef::Undefined(format!("unknown policy {name}")))
    }

    pub fn script_address(&self, hash: &[u8]) -> Vec<u8> {
        // Shelley enterprise address with a script payment credential: header 0b0111_nnnn
        let mut a = vec![0x70 | (self.world.network & 0x0f)];
        a.extend_from_slice(hash);
        a
    }

    fn bytes_of(&self, v: V) -> R<Vec<u8>> {
        match v {
            V::Bytes(b) => Ok(b),
            V::Str(s) => Ok(s.into_bytes()),
            V::Address(a) => Ok(a),
            other => undef(format!("expected bytes, got {other:?}")),
        }
    }

    pub fn eval(&self, e: &E) -> R<V> {
        Ok(match e {
            E::Int(n) => V::Int(BigInt::from(*n)),
            E::Hex(b) => V::Bytes(b.clone()),
            E::Str(s) => V::Str(s.clone()),
            E::Bool(b) => V::Bool(*b),
            E::Unit => V::Unit,
            E::Param(n) | E::Party(n) => self.arg(n)?,
            E::Local(_, inner) => self.eval(inner)?,
            E::InputValue(n) => {
                let us = self.world.inputs.get(&n.to_lowercase()).ok_or(Undef::Undefined(format!("no utxos for input {n}")))?;
                let mut acc = Assets::new();
                for u in us {
                    acc = assets_add(&acc, &u.assets);
                }
                V::Assets(acc)
            }
            E::InputDatum(n) => {
                let us = self.world.inputs.get(&n.to_lowercase()).ok_or(Undef::Undefined(format!("no utxos for input {n}")))?;
                if us.len() != 1 {
                    return undef("datum of a multi-UTxO input");
                }
                match &us[0].datum {
                    Some(d) => d.clone(),
                    None => return undef("input has no datum"),
                }
            }
            E::PolicyAddr(n) => V::Address(self.script_address(&self.policy_hash(n)?)),
            E::PolicyHash(n) => V::Bytes(self.policy_hash(n)?),
            E::Fees => V::Assets(single(None, BigInt::from(self.world.fee))),
            E::Add(a, b) => match (self.eval(a)?, self.eval(b)?) {
                (V::Int(x), V::Int(y)) => V::Int(x + y),
                (V::Assets(x), V::Assets(y)) => V::Assets(assets_add(&x, &y)),
                (x, y) => return undef(format!("add of {x:?} and {y:?}")),
            },
            E::Sub(a, b) => match (self.eval(a)?, self.eval(b)?) {
                (V::Int(x), V::Int(y)) => V::Int(x - y),
                (V::Assets(x), V::Assets(y)) => V::Assets(assets_add(&x, &assets_neg(&y))),
                (x, y) => return undef(format!("sub of {x:?} and {y:?}")),
            },
            E::Neg(a) => match self.eval(a)? {
                V::Int(x) => V::Int(-x),
                V::Assets(x) => V::Assets(assets_neg(&x)),
                x => return undef(format!("neg of {x:?}")),
            },
            E::Paren(a) => self.eval(a)?,
            E::Prop(a, f, idx) => match self.eval(a)? {
                V::Constr(_, fields) => fields.get(*idx).cloned().ok_or(Undef::Undefined(format!("no field {f}")))?,
                x => return undef(format!("property {f} of {x:?}")),
            },
            E::Index(a, i) => match (self.eval(a)?, self.eval(i)?) {
                (V::List(xs), V::Int(i)) => {
                    if i.is_negative() || i >= BigInt::from(xs.len()) {
                        return undef("index out of range");
                    }
                    let i: usize = i.try_into().unwrap();
                    xs[i].clone()
                }
                (x, y) => return undef(format!("index {y:?} of {x:?}")),
            },
            E::Concat(a, b) => match (self.eval(a)?, self.eval(b)?) {
                (V::Bytes(mut x), V::Bytes(y)) => {
                    x.extend(y);
                    V::Bytes(x)
                }
                (V::Str(x), V::Str(y)) => V::Str(x + &y),
                (V::List(mut x), V::List(y)) => {
                    x.extend(y);
                    V::List(x)
                }
                (x, y) => return undef(format!("concat of {x:?} and {y:?}")),
            },
            E::List(xs) => V::List(xs.iter().map(|x| self.eval(x)).collect::<R<_>>()?),
            E::Map(kvs) => V::Map(kvs.iter().map(|(k, v)| Ok((self.eval(k)?, self.eval(v)?))).collect::<R<_>>()?),
            E::Struct { case_index, def_fields, fields, spread, .. } => {
                let mut out = vec![];
                let spread_v = match spread {
                    Some(s) => Some(self.eval(s)?),
                    None => None,
                };
                for (i, df) in def_fields.iter().enumerate() {
                    if let Some((_, v)) = fields.iter().find(|(n, _)| n == df) {
                        out.push(self.eval(v)?);
                    } else {
                        match &spread_v {
                            Some(V::Constr(_, sf)) => out.push(sf.get(i).cloned().ok_or(Undef::Undefined("spread source too short".into()))?),
                            _ => return undef("missing field without usable spread"),
                        }
                    }
                }
                V::Constr(*case_index as u64, out)
            }
            E::Ada(n) => match self.eval(n)? {
                V::Int(x) => V::Assets(single(None, x)),
                x => return undef(format!("Ada of {x:?}")),
            },
            E::AssetCall(a, n) => {
                let def = self.prog.assets.iter().find(|d| d.name == *a).ok_or(Undef::Undefined(format!("unknown asset {a}")))?;
                match self.eval(n)? {
                    V::Int(x) => V::Assets(single(Some((def.policy.clone(), def.asset_name.clone())), x)),
                    x => return undef(format!("asset amount {x:?}")),
                }
            }
            E::AnyAsset(p, n, q) => {
                let p = self.bytes_of(self.eval(p)?)?;
                let n = self.bytes_of(self.eval(n)?)?;
                match self.eval(q)? {
                    V::Int(x) => V::Assets(single(Some((p, n)), x)),
                    x => return undef(format!("asset amount {x:?}")),
                }
            }
            E::TipSlot => V::Int(BigInt::from(self.world.tip_slot)),
            E::SlotToTime(s) => match self.eval(s)? {
                V::Int(s) => V::Int(BigInt::from(self.world.tip_time) + (s - BigInt::from(self.world.tip_slot)) * 1000),
                x => return undef(format!("slot_to_time of {x:?}")),
            },
            E::TimeToSlot(t) => match self.eval(t)? {
                V::Int(t) => {
                    let diff = t - BigInt::from(self.world.tip_time);
                    // truncation vs floor is not pinned by any document: only exact or non-negative cases
                    let rem: BigInt = &diff % BigInt::from(1000);
                    if diff.is_negative() && !rem.is_zero() {
                        return undef("time_to_slot of a past non-whole-second time");
                    }
                    V::Int(BigInt::from(self.world.tip_slot) + diff / 1000)
                }
                x => return undef(format!("time_to_slot of {x:?}")),
            },
            E::MinUtxo(_) => return undef("min_utxo is state dependent"),
            E::UtxoRef(t, i) => V::Refs(vec![(t.clone(), *i)]),
            E::Raw(s) => return undef(format!("raw source {s}")),
        })
    }

    pub fn to_pd(&self, v: &V) -> R<PD> {
        Ok(match v {
            V::Int(n) => PD::Int(n.clone()),
            V::Bytes(b) => PD::Bytes(b.clone()),
            V::Str(s) => PD::Bytes(s.as_bytes().to_vec()),
            V::Bool(b) => PD::Constr(*b as u64, vec![]),
            V::Unit => PD::Constr(0, vec![]),
            V::List(xs) => PD::List(xs.iter().map(|x| self.to_pd(x)).collect::<R<_>>()?),
            V::Map(kvs) => PD::Map(kvs.iter().map(|(k, v)| Ok((self.to_pd(k)?, self.to_pd(v)?))).collect::<R<_>>()?),
            V::Constr(i, fs) => PD::Constr(*i, fs.iter().map(|x| self.to_pd(x)).collect::<R<_>>()?),
            V::Address(a) => PD::Bytes(a.clone()),
            other => return undef(format!("no plutus data for {other:?}")),
        })
    }

    fn address_of(&self, e: &E) -> R<Vec<u8>> {
        match self.eval(e)? {
            V::Address(a) => Ok(a),
            V::Bytes(a) => Ok(a),
            V::Str(s) => bech32_payload(&s).ok_or(Undef::Undefined("string address is not bech32".into())),
            x => undef(format!("address {x:?}")),
        }
    }

    fn refs_of(&self, e: &E) -> R<Vec<Ref>> {
        match self.eval(e)? {
            V::Refs(r) => Ok(r),
            x => undef(format!("refs {x:?}")),
        }
    }

    fn int_of(&self, e: &E) -> R<BigInt> {
        match self.eval(e)? {
            V::Int(n) => Ok(n),
            x => undef(format!("int {x:?}")),
        }
    }

    fn assets_of(&self, e: &E) -> R<Assets> {
        match self.eval(e)? {
            V::Assets(a) => Ok(a),
            x => undef(format!("assets {x:?}")),
        }
    }

    /// Denotation of one tx of the program in the world.
    pub fn tx(&self, tx: &TxDef) -> R<ExpTx> {
        let mut out = ExpTx::default();
        out.fee = BigInt::from(self.world.fee);
        for i in &tx.inputs {
            let us = self.world.inputs.get(&i.name.to_lowercase()).ok_or(Undef::Undefined(format!("no utxos for input {}", i.name)))?;
            for u in us {
                out.inputs.insert((u.txid.clone(), u.index));
            }
        }
        if tx.collateral.is_some() {
            for u in &self.world.collateral {
                out.collateral.insert((u.txid.clone(), u.index));
            }
        }
        for (_, e) in &tx.references {
            for r in self.refs_of(e)? {
                out.references.insert(r);
            }
        }
        for o in &tx.outputs {
            let value = match &o.amount {
                Some(a) => self.assets_of(a)?,
                None => return undef("output without amount"),
            };
            if o.optional && value.is_empty() {
                continue;
            }
            let address = match &o.to {
                Some(t) => self.address_of(t)?,
                None => return undef("output without address"),
            };
            let datum = match &o.datum {
                Some(d) => Some(self.to_pd(&self.eval(d)?)?),
                None => None,
            };
            out.outputs.push(ExpOut {
                address,
                lovelace: value.get(&None).cloned().unwrap_or_else(BigInt::zero),
                assets: value.iter().filter_map(|(k, v)| k.clone().map(|k| (k, v.clone()))).collect(),
                datum,
            });
        }
        let mut mint = Assets::new();
        let mut mentioned: BTreeSet<Class> = BTreeSet::new();
        for (m, sign) in tx.mints.iter().map(|m| (m, 1)).chain(tx.burns.iter().map(|b| (b, -1))) {
            let block = self.assets_of(&m.amount)?;
            // a block that is a single asset atom with quantity zero is a "zero mint" (must be an
            // error); quantities that cancel inside a block or across blocks may also simply be
            // omitted from the mint field
            let mut atom = &m.amount;
            while let E::Paren(x) | E::Local(_, x) = atom {
                atom = x;
            }
            if matches!(atom, E::AssetCall(..) | E::AnyAsset(..)) && block.is_empty() {
                out.zero_mint = true;
            }
            for c in self.classes_mentioned(&m.amount)? {
                mentioned.insert(c);
            }
            mint = assets_add(&mint, &if sign == 1 { block } else { assets_neg(&block) });
        }
        let _ = mentioned;
        for m in tx.mints.iter().chain(tx.burns.iter()) {
            if m.redeemer.is_some() {
                let pols: BTreeSet<Vec<u8>> = self.classes_mentioned(&m.amount)?.into_iter().filter_map(|k| k.map(|(p, _)| p)).collect();
                if pols.len() != 1 {
                    out.ambiguous = Some("redeemer on a mint block naming several policies".into());
                } else if !mint.keys().any(|k| matches!(k, Some((p, _)) if pols.contains(p))) {
                    out.ambiguous = Some("redeemer on a mint block whose policy cancels out".into());
                }
            }
        }
        for (k, v) in mint {
            match k {
                Some(k) => {
                    out.mint.insert(k, v);
                }
                None => return undef("lovelace in mint"),
            }
        }
        if let Some((since, until)) = &tx.validity {
            if let Some(s) = since {
                out.validity_start = Some(self.int_of(s)?);
            }
            if let Some(u) = until {
                out.ttl = Some(self.int_of(u)?);
            }
        }
        if let Some(signers) = &tx.signers {
            for s in signers {
                let h = match self.eval(s)? {
                    V::Address(a) => payment_hash(&a).ok_or(Undef::Undefined("signer address without payment hash".into()))?,
                    V::Bytes(b) => b,
                    x => return undef(format!("signer {x:?}")),
                };
                out.signers.insert(h);
            }
        }
        for (k, v) in &tx.metadata {
            let key = self.int_of(k)?;
            let val = match self.eval(v)? {
                V::Int(n) => Meta::Int(n),
                V::Str(s) => Meta::Text(s),
                V::Bytes(b) => Meta::Bytes(b),
                x => return undef(format!("metadatum {x:?}")),
            };
            // later entries with the same key win in a map built by insertion; the generator keeps keys distinct
            out.metadata.insert(key, val);
        }
        for c in &tx.cardano {
            match c {
                Cardano::Withdrawal { from, amount, .. } => {
                    let addr = self.address_of(from)?;
                    let acct = reward_account(&addr).ok_or(Undef::Undefined("withdrawal address without stake part".into()))?;
                    // the ledger's withdrawal map has one amount per reward account: two blocks naming one
                    // account have no denotation (whichever amount is kept, the other one is dropped)
                    if out.withdrawals.insert(acct, self.int_of(amount)?).is_some() {
                        return undef("withdrawals share a reward account");
                    }
                }
                Cardano::TreasuryDonation { coin } => out.donation = Some(self.int_of(coin)?),
                _ => {}
            }
        }
        out.redeemers = self.redeemers(tx, &out)?;
        Ok(out)
    }

    /// asset classes named syntactically in a value expression
    fn classes_mentioned(&self, e: &E) -> R<Vec<Class>> {
        Ok(match e {
            E::Add(a, b) | E::Sub(a, b) => {
                let mut v = self.classes_mentioned(a)?;
                v.extend(self.classes_mentioned(b)?);
                v
            }
            E::Neg(a) | E::Paren(a) | E::Local(_, a) => self.classes_mentioned(a)?,
            E::Ada(_) | E::Fees => vec![None],
            E::AssetCall(a, _) => {
                let def = self.prog.assets.iter().find(|d| d.name == *a).ok_or(Undef::Undefined(format!("unknown asset {a}")))?;
                vec![Some((def.policy.clone(), def.asset_name.clone()))]
            }
            E::AnyAsset(p, n, _) => vec![Some((self.bytes_of(self.eval(p)?)?, self.bytes_of(self.eval(n)?)?))],
            _ => vec![],
        })
    }

    /// (tag, index) -> data, index = rank of the guarded item in the ledger's order of the body field.
    fn redeemers(&self, tx: &TxDef, body: &ExpTx) -> R<BTreeMap<(u8, u32), PD>> {
        let mut out = BTreeMap::new();
        let sorted_inputs: Vec<&Ref> = body.inputs.iter().collect(); // BTreeSet order = (txid bytes, index)
        for i in &tx.inputs {
            if let Some(r) = &i.redeemer {
                let data = self.to_pd(&self.eval(r)?)?;
                for u in &self.world.inputs[&i.name.to_lowercase()] {
                    let rank = sorted_inputs.iter().position(|x| x.0 == u.txid && x.1 == u.index).unwrap();
                    out.insert((0u8, rank as u32), data.clone());
                }
            }
        }
        let policies: Vec<Vec<u8>> = {
            let s: BTreeSet<Vec<u8>> = body.mint.keys().map(|(p, _)| p.clone()).collect();
            s.into_iter().collect()
        };
        for m in tx.mints.iter().chain(tx.burns.iter()) {
            if let Some(r) = &m.redeemer {
                let data = self.to_pd(&self.eval(r)?)?;
                let pols: BTreeSet<Vec<u8>> = self.classes_mentioned(&m.amount)?.into_iter().filter_map(|k| k.map(|(p, _)| p)).collect();
                for p in pols {
                    if let Some(rank) = policies.iter().position(|x| *x == p) {
                        // one slot per policy: two blocks of one policy with different redeemers have no
                        // denotation (whichever is kept, a written redeemer is lost)
                        if let Some(old) = out.insert((1u8, rank as u32), data.clone()) {
                            if old != data {
                                return undef("two redeemers for one policy");
                            }
                        }
                    }
                }
            }
        }
        let accounts: Vec<&Vec<u8>> = body.withdrawals.keys().collect();
        for c in &tx.cardano {
            if let Cardano::Withdrawal { from, redeemer: Some(r), .. } = c {
                let addr = self.address_of(from)?;
                let acct = reward_account(&addr).ok_or(Undef::Undefined("withdrawal without stake part".into()))?;
                let data = self.to_pd(&self.eval(r)?)?;
                let rank = accounts.iter().position(|x| **x == acct).unwrap();
                out.insert((3u8, rank as u32), data);
            }
        }
        Ok(out)
    }
}

/// payment credential hash of a Shelley address (types 0-7)
pub fn payment_hash(addr: &[u8]) -> Option<Vec<u8>> {
    let h = addr.first()? >> 4;
    if h <= 7 && addr.len() >= 29 {
        Some(addr[1..29].to_vec())
    } else {
        None
    }
}

/// reward account (header 0xe0/0xf0 | network, + 28-byte credential) of an address carrying a stake part
pub fn reward_account(addr: &[u8]) -> Option<Vec<u8>> {
    let header = *addr.first()?;
    let ty = header >> 4;
    let net = header & 0x0f;
    match ty {
        // base addresses: bit 5 of the header (0x20) says the stake credential is a script
        0..=3 if addr.len() == 57 => {
            let stake_is_script = ty & 0b10 != 0;
            let mut out = vec![(if stake_is_script { 0xf0 } else { 0xe0 }) | net];
            out.extend_from_slice(&addr[29..57]);
            Some(out)
        }
        14 | 15 if addr.len() == 29 => Some(addr.to_vec()),
        _ => None,
    }
}

/// payload bytes of a bech32 string (no checksum verification beyond charset; used for address literals
/// the generator itself produced)
pub fn bech32_payload(s: &str) -> Option<Vec<u8>> {
    const CHARSET: &str = "qpzry9x8gf2tvdw0s3jn54khce6mua7l";
    let pos = s.rfind('1')?;
    let data = &s[pos + 1..];
    if data.len() < 6 {
        return None;
    }
    let vals: Option<Vec<u8>> = data.chars().map(|c| CHARSET.find(c).map(|i| i as u8)).collect();
    let vals = vals?;
    let vals = &vals[..vals.len() - 6];
    let mut acc: u32 = 0;
    let mut bits = 0;
    let mut out = vec![];
    for v in vals {
        acc = (acc << 5) | *v as u32;
        bits += 5;
        if bits >= 8 {
            bits -= 8;
            out.push((acc >> bits) as u8);
            acc &= (1 << bits) - 1;
        }
    }
    Some(out)
}

/// Fields whose mathematical value does not fit the ledger type (C01: such cases are excluded;
/// C02: such cases must be errors).
pub fn out_of_range(t: &ExpTx) -> Vec<String> {
    let mut bad = vec![];
    let two64 = BigInt::from(1u8) << 64;
    let two63 = BigInt::from(1u8) << 63;
    let in_u64 = |x: &BigInt| !x.is_negative() && *x < two64;
    for (i, o) in t.outputs.iter().enumerate() {
        if o.lovelace.is_negative() {
            bad.push(format!("output[{i}].lovelace-negative"));
        } else if !in_u64(&o.lovelace) {
            bad.push(format!("output[{i}].lovelace-overflow"));
        }
        for v in o.assets.values() {
            if v.is_negative() {
                bad.push(format!("output[{i}].asset-negative"));
            } else if !in_u64(v) {
                bad.push(format!("output[{i}].asset-overflow"));
            }
        }
    }
    for v in t.mint.values() {
        if v.is_zero() || *v >= two63 || *v < -&two63 {
            bad.push("mint".into());
        }
    }
    if t.zero_mint {
        bad.push("mint-zero".into());
    }
    if !in_u64(&t.fee) {
        bad.push("fee".into());
    }
    for (name, x) in [("validity_start", &t.validity_start), ("ttl", &t.ttl)] {
        if let Some(x) = x {
            if !in_u64(x) {
                bad.push(name.into());
            }
        }
    }
    for (k, v) in &t.metadata {
        if !in_u64(k) {
            bad.push("metadata.key".into());
        }
        if let Meta::Int(n) = v {
            if *n >= two64 || *n < -&two64 {
                bad.push("metadata.int".into());
            }
        }
    }
    for v in t.withdrawals.values() {
        if !in_u64(v) {
            bad.push("withdrawal".into());
        }
    }
    if let Some(d) = &t.donation {
        if !in_u64(d) || d.is_zero() {
            bad.push("donation".into());
        }
    }
    for r in t.inputs.iter().chain(t.references.iter()).chain(t.collateral.iter()) {
        if r.1 > u32::MAX as u64 {
            bad.push("utxo-ref-index".into());
        }
    }
    bad
}
