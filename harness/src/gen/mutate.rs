//! Semantic mutators over `G`: each turns a valid generated program into one with a specific kind of
//! mistake (C13: every such mistake must be caught by the analyzer, or be harmless).

use super::ast::*;
use crate::rng::Rng;

fn for_each_expr_mut(p: &mut Program, f: &mut dyn FnMut(&mut E)) {
    fn walk(e: &mut E, f: &mut dyn FnMut(&mut E)) {
        f(e);
        match e {
            E::Local(_, a) | E::Neg(a) | E::Paren(a) | E::Prop(a, _, _) | E::Ada(a) | E::AssetCall(_, a) | E::SlotToTime(a) | E::TimeToSlot(a) => walk(a, f),
            E::Add(a, b) | E::Sub(a, b) | E::Index(a, b) | E::Concat(a, b) => {
                walk(a, f);
                walk(b, f);
            }
            E::AnyAsset(a, b, c) => {
                walk(a, f);
                walk(b, f);
                walk(c, f);
            }
            E::List(xs) => xs.iter_mut().for_each(|x| walk(x, f)),
            E::Map(kvs) => kvs.iter_mut().for_each(|(k, v)| {
                walk(k, f);
                walk(v, f);
            }),
            E::Struct { fields, spread, .. } => {
                fields.iter_mut().for_each(|(_, v)| walk(v, f));
                if let Some(s) = spread {
                    walk(s, f);
                }
            }
            _ => {}
        }
    }
    for tx in p.txs.iter_mut() {
        for (_, e) in tx.locals.iter_mut() {
            // locals are printed from this list; uses carry their own copy
            walk(e, f);
        }
        for (_, e) in tx.references.iter_mut() {
            walk(e, f);
        }
        for i in tx.inputs.iter_mut() {
            for e in [&mut i.from, &mut i.min_amount, &mut i.rf, &mut i.redeemer].into_iter().flatten() {
                walk(e, f);
            }
        }
        if let Some(c) = tx.collateral.as_mut() {
            for e in [&mut c.from, &mut c.min_amount, &mut c.rf].into_iter().flatten() {
                walk(e, f);
            }
        }
        for m in tx.mints.iter_mut().chain(tx.burns.iter_mut()) {
            walk(&mut m.amount, f);
            if let Some(r) = m.redeemer.as_mut() {
                walk(r, f);
            }
        }
        for o in tx.outputs.iter_mut() {
            for e in [&mut o.to, &mut o.amount, &mut o.datum].into_iter().flatten() {
                walk(e, f);
            }
        }
        if let Some((a, b)) = tx.validity.as_mut() {
            for e in [a, b].into_iter().flatten() {
                walk(e, f);
            }
        }
        if let Some(s) = tx.signers.as_mut() {
            s.iter_mut().for_each(|e| walk(e, f));
        }
        for (k, v) in tx.metadata.iter_mut() {
            walk(k, f);
            walk(v, f);
        }
        for c in tx.cardano.iter_mut() {
            match c {
                Cardano::Withdrawal { from, amount, redeemer } => {
                    walk(from, f);
                    walk(amount, f);
                    if let Some(r) = redeemer {
                        walk(r, f);
                    }
                }
                Cardano::TreasuryDonation { coin } => walk(coin, f),
                Cardano::VoteDelegation { drep, stake } => {
                    walk(drep, f);
                    walk(stake, f);
                }
                Cardano::PlutusWitness { version, script } => {
                    walk(version, f);
                    walk(script, f);
                }
                Cardano::NativeWitness { script } => walk(script, f),
                Cardano::Publish { to, amount, datum, version, script, .. } => {
                    walk(to, f);
                    walk(amount, f);
                    if let Some(d) = datum {
                        walk(d, f);
                    }
                    walk(version, f);
                    walk(script, f);
                }
            }
        }
    }
}

/// A call of a built-in with a random number (0..5) of arguments of random kinds - located names, literals,
/// keywords - derived from `bits`: wrong arities with every mix of located and unlocated operands.
fn random_builtin_call(bits: u64, foreign: &str) -> String {
    let mut x = bits | 1;
    let mut next = |n: u64| {
        x = x.wrapping_mul(6364136223846793005).wrapping_add(1442695040888963407);
        (x >> 33) % n
    };
    let name = ["tip_slot", "slot_to_time", "time_to_slot", "min_utxo", "concat", "Ada", "AnyAsset"][next(7) as usize];
    let n = next(6);
    let args: Vec<String> = (0..n)
        .map(|_| match next(10) {
            0 => "1".to_string(),
            1 => "true".to_string(),
            2 => "()".to_string(),
            3 => "0x01".to_string(),
            4 => "\"s\"".to_string(),
            5 => "fees".to_string(),
            6 => "noSuchName77".to_string(),
            7 => "(1 + 2)".to_string(),
            _ => foreign.to_string(),
        })
        .collect();
    format!("{name}({})", args.join(", "))
}


/// names of other symbol kinds present in the program: (kind, name)
fn foreign_names(p: &Program) -> Vec<(&'static str, String)> {
    let mut v: Vec<(&'static str, String)> = vec![("undefined", "noSuchName77".into()), ("function", "tip_slot".into()), ("function", "min_utxo".into()), ("builtin-asset", "Ada".into()), ("keyword", "fees".into())];
    for t in &p.types {
        v.push(("type", t.name.clone()));
        for c in &t.cases {
            if !t.record {
                v.push(("case", c.name.clone()));
            }
            for (f, _) in &c.fields {
                v.push(("field", f.clone()));
            }
        }
    }
    for a in &p.assets {
        v.push(("asset", a.name.clone()));
    }
    for x in &p.parties {
        v.push(("party", x.clone()));
    }
    for x in &p.policies {
        v.push(("policy", x.name.clone()));
    }
    for (n, _) in &p.env {
        v.push(("env", n.clone()));
    }
    for tx in &p.txs {
        v.push(("tx", tx.name.clone()));
        for (n, _) in &tx.params {
            v.push(("param", n.clone()));
        }
        for i in &tx.inputs {
            v.push(("input", i.name.clone()));
        }
        for o in &tx.outputs {
            if let Some(n) = &o.name {
                v.push(("output", n.clone()));
            }
        }
        for (n, _) in &tx.locals {
            v.push(("local", n.clone()));
        }
    }
    v
}

/// Applies one semantic mutation; returns its name (None when no site was found).
pub fn mutate_semantic(p: &mut Program, rng: &mut Rng) -> Option<String> {
    // block-level mutators first (1 in 4)
    if rng.chance(1, 4) && !p.txs.is_empty() {
        let ti = rng.usize(p.txs.len());
        let foreign = foreign_names(p);
        let tx = &mut p.txs[ti];
        match rng.below(12) {
            11 => {
                // a policy whose hash, script or ref is written as a name in scope (an env var, a party, another
                // policy, an asset, a type ...) instead of a literal
                if !p.policies.is_empty() {
                    let k = rng.usize(p.policies.len());
                    let (kind, name) = rng.pick(&foreign).clone();
                    let lit = format!("0x{}", ::hex::encode(&p.policies[k].hash));
                    let (fields, what) = match rng.below(4) {
                        0 | 1 => (format!("hash: {name},"), "hash"),
                        2 => (format!("hash: {lit}, script: {name},"), "script"),
                        _ => (format!("hash: {lit}, ref: {name},"), "ref"),
                    };
                    p.policies[k].form = PolicyForm::RawCtor(fields);
                    if rng.bool() {
                        // next to it, an unused policy whose hash is a property access: an analysed definition that
                        // keeps a handle on the program scope
                        p.policies.push(Policy { name: "AnchorPol77".into(), hash: vec![0x77; 28], form: PolicyForm::RawCtor(format!("hash: 0x{}#0.tx_hash,", "ab".repeat(32))) });
                        return Some(format!("policy-{what}-is-{kind}+anchor-policy"));
                    }
                    return Some(format!("policy-{what}-is-{kind}"));
                }
            }
            10 => {
                // an asset (that some tx constructs) whose policy or name is written as a name in scope - an env
                // var, a parameter, a party, a policy, another asset ... - instead of a literal
                if !p.assets.is_empty() {
                    let k = rng.usize(p.assets.len());
                    let (kind, name) = rng.pick(&foreign).clone();
                    let text = if rng.chance(1, 4) { format!("concat({name}, 0x00)") } else { name };
                    if rng.bool() {
                        p.assets[k].raw_policy = Some(text);
                        return Some(format!("asset-policy-is-{kind}"));
                    } else {
                        p.assets[k].raw_asset_name = Some(text);
                        return Some(format!("asset-name-is-{kind}"));
                    }
                }
            }
            9 => {
                // an asset named like a built-in function: its constructor calls read `tip_slot(5)`
                if !p.assets.is_empty() {
                    let k = rng.usize(p.assets.len());
                    let old = p.assets[k].name.clone();
                    let new = (*rng.pick(&["tip_slot", "min_utxo", "slot_to_time", "time_to_slot"])).to_string();
                    if p.assets.iter().all(|a| a.name != new) {
                        p.assets[k].name = new.clone();
                        let mut used = false;
                        for_each_expr_mut(p, &mut |e| {
                            if let E::AssetCall(n, _) = e {
                                if *n == old {
                                    *n = new.clone();
                                    used = true;
                                }
                            }
                        });
                        return Some(format!("asset-named-like-builtin{}", if used { "" } else { "-unused" }));
                    }
                }
            }
            0 => {
                // chain of locals of length 2..15 used in an output
                let n = 2 + rng.usize(14);
                let base = tx.params.iter().find(|(_, t)| *t == Ty::Int).map(|(n, _)| E::Param(n.clone())).unwrap_or(E::Int(7));
                let mut prev = base;
                for k in 0..n {
                    let name = format!("chainLoc{k}x");
                    let e = E::Add(Box::new(prev.clone()), Box::new(E::Int(1)));
                    tx.locals.push((name.clone(), e.clone()));
                    prev = E::Local(name, Box::new(e));
                }
                if let Some(o) = tx.outputs.first_mut() {
                    o.amount = Some(E::Ada(Box::new(prev)));
                }
                return Some(format!("local-chain-{}", if n >= 9 { ">=9" } else { "<9" }));
            }
            1 => {
                tx.locals.push(("cycA".into(), E::Raw("cycB + 1".into())));
                tx.locals.push(("cycB".into(), E::Raw("cycA + 1".into())));
                if let Some(o) = tx.outputs.first_mut() {
                    o.amount = Some(E::Ada(Box::new(E::Raw("cycA".into()))));
                }
                return Some("cyclic-locals".into());
            }
            2 => {
                // an input whose redeemer reads its own datum
                if let Some(i) = tx.inputs.iter_mut().find(|i| i.datum_is.is_some() && !i.many) {
                    let name = i.name.clone();
                    i.redeemer = Some(E::InputDatum(name));
                    return Some("input-redeemer-reads-own-datum".into());
                }
            }
            3 => {
                // two inputs reading each other's datum
                let ds: Vec<usize> = tx.inputs.iter().enumerate().filter(|(_, i)| i.datum_is.is_some() && !i.many).map(|(k, _)| k).collect();
                if ds.len() >= 2 {
                    let (a, b) = (tx.inputs[ds[0]].name.clone(), tx.inputs[ds[1]].name.clone());
                    tx.inputs[ds[0]].redeemer = Some(E::InputDatum(b));
                    tx.inputs[ds[1]].redeemer = Some(E::InputDatum(a));
                    return Some("inputs-read-each-other".into());
                }
            }
            4 => {
                if let Some(o) = tx.outputs.first_mut() {
                    o.amount = Some(E::Add(Box::new(E::Ada(Box::new(E::Int(5)))), Box::new(E::MinUtxo("noSuchOutput9".into()))));
                    return Some("min_utxo-undefined-output".into());
                }
            }
            5 => {
                // drop a required output / directive field
                if let Some(o) = tx.outputs.first_mut() {
                    if rng.bool() {
                        o.amount = None;
                        return Some("output-without-amount".into());
                    } else {
                        o.to = None;
                        return Some("output-without-to".into());
                    }
                }
            }
            6 => {
                let (kind, name) = rng.pick(&foreign).clone();
                tx.cardano.push(Cardano::Withdrawal { from: E::Raw(name), amount: E::Int(5), redeemer: None });
                return Some(format!("withdrawal-from-{kind}"));
            }
            7 => {
                // a parameter named like a record field (shadowing inside constructors)
                let field = foreign.iter().find(|(k, _)| *k == "field").map(|(_, n)| n.clone());
                if let Some(f) = field {
                    tx.params.push((f, Ty::Int));
                    return Some("param-shadows-record-field".into());
                }
            }
            _ => {
                // datum_is of an undefined / wrong-kind type
                if let Some(i) = tx.inputs.first_mut() {
                    let (kind, name) = rng.pick(&foreign).clone();
                    i.datum_is = Some(Ty::Custom(name));
                    return Some(format!("datum_is-{kind}"));
                }
            }
        }
    }
    // expression-level: pick the k-th expression node
    let mut count = 0usize;
    for_each_expr_mut(p, &mut |_| count += 1);
    if count == 0 {
        return None;
    }
    let mut target = rng.usize(count);
    // one time in three aim at a record constructor (the richest family of mutators)
    if rng.chance(1, 3) {
        let mut structs = vec![];
        let mut k = 0usize;
        for_each_expr_mut(p, &mut |e| {
            if matches!(e, E::Struct { .. }) {
                structs.push(k);
            }
            k += 1;
        });
        if !structs.is_empty() {
            target = structs[rng.usize(structs.len())];
        }
    }
    let foreign = foreign_names(p);
    let pick = rng.next_u64();
    let (fk, fname) = foreign[(rng.next_u64() % foreign.len() as u64) as usize].clone();
    let mut seen = 0usize;
    let mut applied: Option<String> = None;
    for_each_expr_mut(p, &mut |e| {
        if seen == target {
            let m = pick % 4;
            let name: String = match e {
                E::Struct { ty, case, fields, spread, def_fields, .. } => match pick % 12 {
                    // an extra entry whose name is not a field of the case but is something else in scope
                    // (a parameter, party, policy, asset, type, env var, local, input, output ...)
                    11 => {
                        fields.push((fname.clone(), E::Int(1)));
                        format!("constructor-extra-entry-named-like-{fk}")
                    }
                    // a list index that is a bare name of the wrong kind: one of the constructor's own
                    // field names (in scope inside the constructor, but a field is not a value) ...
                    8 if !fields.is_empty() && !def_fields.is_empty() => {
                        let k = (pick / 12) as usize % fields.len();
                        let own = def_fields[(pick / 64) as usize % def_fields.len()].clone();
                        fields[k].1 = E::Raw(format!("idxList9[{own}]"));
                        "index-by-own-field-name".into()
                    }
                    // ... or the name of a type / party / asset / policy / case / function
                    9 if !fields.is_empty() => {
                        let k = (pick / 12) as usize % fields.len();
                        fields[k].1 = E::Raw(format!("idxList9[{fname}]"));
                        format!("index-by-{fk}")
                    }
                    10 if !fields.is_empty() => {
                        let k = (pick / 12) as usize % fields.len();
                        fields[k].1 = E::Raw(format!("idxList9[idxList9[{fname}]]"));
                        format!("nested-index-by-{fk}")
                    }
                    0 if spread.is_none() && !fields.is_empty() => {
                        fields.remove((pick / 8) as usize % fields.len());
                        "constructor-missing-field-without-spread".into()
                    }
                    1 if !fields.is_empty() => {
                        let f = fields[(pick / 8) as usize % fields.len()].clone();
                        fields.push(f);
                        "constructor-duplicate-field".into()
                    }
                    2 if !fields.is_empty() => {
                        let k = (pick / 8) as usize % fields.len();
                        fields[k].0 = "noSuchField5".into();
                        "constructor-unknown-field".into()
                    }
                    3 if case.is_some() => {
                        *case = None;
                        "implicit-constructor-on-variant".into()
                    }
                    4 => {
                        *ty = fname.clone();
                        format!("constructor-type-is-{fk}")
                    }
                    5 => {
                        *spread = Some(Box::new(E::Int(3)));
                        "spread-of-int".into()
                    }
                    6 if case.is_some() => {
                        *case = Some("NoSuchCase3".into());
                        "constructor-unknown-case".into()
                    }
                    _ => {
                        fields.clear();
                        *spread = None;
                        if def_fields.is_empty() { "constructor-untouched".into() } else { "constructor-missing-all-fields".into() }
                    }
                },
                E::Ada(_) => {
                    *e = E::Raw(["Ada()", "Ada(1, 2)", "Ada(1, 2, 3)", "Ada"][m as usize].into());
                    format!("ada-arity-{}", ["0", "2", "3", "no-call"][m as usize])
                }
                E::AssetCall(a, _) => {
                    let a = a.clone();
                    *e = match m {
                        0 => E::Raw(format!("{a}()")),
                        1 => E::Raw(format!("{a}(1, 2)")),
                        2 => E::Raw(format!("{fname}(1)")),
                        _ => E::Raw(a),
                    };
                    match m {
                        0 => "asset-call-arity-0".into(),
                        1 => "asset-call-arity-2".into(),
                        2 => format!("call-of-{fk}"),
                        _ => "asset-name-as-value".into(),
                    }
                }
                E::Param(_) | E::Party(_) | E::InputValue(_) | E::InputDatum(_) | E::PolicyAddr(_) | E::PolicyHash(_) | E::Local(..) => {
                    *e = E::Raw(fname.clone());
                    format!("identifier-replaced-by-{fk}")
                }
                E::Hex(b) => {
                    let h = ::hex::encode(&b[..]);
                    *e = E::Raw(format!("0x{h}a"));
                    "odd-hex-literal".into()
                }
                E::Int(_) => {
                    *e = match m {
                        0 => E::Raw("5.someField".into()),
                        1 => E::Raw("99999999999999999999".into()),
                        2 => E::Raw(format!("{fname}.f")),
                        _ => E::Raw("7[0]".into()),
                    };
                    match m {
                        0 => "property-on-int".into(),
                        1 => "numeral-out-of-range".into(),
                        2 => format!("property-on-{fk}"),
                        _ => "index-on-int".into(),
                    }
                }
                E::Prop(_, f, _) => {
                    *f = "noSuchProp2".into();
                    "unknown-property".into()
                }
                E::Index(_, i) => {
                    **i = E::Hex(vec![1, 2]);
                    "index-with-bytes".into()
                }
                E::TipSlot | E::SlotToTime(_) | E::TimeToSlot(_) | E::Concat(..) if (pick >> 9) % 2 == 0 => {
                    *e = E::Raw(random_builtin_call(pick >> 10, &fname));
                    "builtin-call-with-random-arguments".into()
                }
                E::TipSlot => {
                    *e = E::Raw("tip_slot(1)".into());
                    "tip_slot-arity-1".into()
                }
                E::SlotToTime(_) | E::TimeToSlot(_) => {
                    *e = E::Raw(["slot_to_time()", "time_to_slot(1, 2)", "slot_to_time", "time_to_slot()"][m as usize].into());
                    "time-fn-arity".into()
                }
                E::MinUtxo(o) => {
                    *o = fname.clone();
                    format!("min_utxo-of-{fk}")
                }
                E::Concat(..) => {
                    *e = E::Raw("concat(0x01)".into());
                    "concat-arity-1".into()
                }
                E::AnyAsset(..) => {
                    *e = E::Raw(["AnyAsset(0x01, 0x02)", "AnyAsset()", "AnyAsset(1, 2, 3, 4)", "AnyAsset(fees, fees, fees)"][m as usize].into());
                    "anyasset-arity-or-kind".into()
                }
                E::UtxoRef(t, _) => {
                    let h = ::hex::encode(&t[..]);
                    *e = E::Raw(format!("0x{h}a#1"));
                    "odd-hex-utxo-ref".into()
                }
                E::List(xs) => {
                    xs.push(E::Str("mixed".into()));
                    xs.push(E::Raw(fname.clone()));
                    format!("list-with-{fk}")
                }
                E::Fees => {
                    *e = E::Raw("fees.amount".into());
                    "property-on-fees".into()
                }
                _ => "untouched".into(),
            };
            applied = Some(name);
        }
        seen += 1;
    });
    if matches!(&applied, Some(a) if a.contains("index-by-")) {
        // the list the mutated expression indexes
        for tx in p.txs.iter_mut() {
            if !tx.params.iter().any(|(n, _)| n == "idxList9") {
                tx.params.push(("idxList9".into(), Ty::List(Box::new(Ty::Int))));
            }
        }
    }
    applied
}

/// Does some tx hold a reference cycle among its inputs and locals (an input whose fields mention
/// the input itself, inputs mentioning each other, locals defined in terms of each other)?
pub fn has_reference_cycle(p: &Program) -> bool {
    use std::collections::{BTreeMap, BTreeSet};
    for tx in &p.txs {
        let mut text: BTreeMap<String, String> = BTreeMap::new();
        for (n, e) in &tx.locals {
            text.insert(n.clone(), print_expr(e));
        }
        for i in &tx.inputs {
            let mut t = String::new();
            for e in [&i.from, &i.min_amount, &i.rf, &i.redeemer].into_iter().flatten() {
                t.push_str(&print_expr(e));
                t.push(' ');
            }
            text.insert(i.name.clone(), t);
        }
        let names: BTreeSet<String> = text.keys().cloned().collect();
        let edges: BTreeMap<String, Vec<String>> = text
            .iter()
            .map(|(n, t)| (n.clone(), crate::grammar::tokenize(t).into_iter().filter(|tok| names.contains(tok)).collect()))
            .collect();
        // depth-first search for a back edge
        fn visit(n: &str, edges: &BTreeMap<String, Vec<String>>, state: &mut BTreeMap<String, u8>) -> bool {
            match state.get(n) {
                Some(1) => return true,
                Some(2) => return false,
                _ => {}
            }
            state.insert(n.to_string(), 1);
            for m in edges.get(n).into_iter().flatten() {
                if visit(m, edges, state) {
                    return true;
                }
            }
            state.insert(n.to_string(), 2);
            false
        }
        let mut state = BTreeMap::new();
        for n in &names {
            if visit(n, &edges, &mut state) {
                return true;
            }
        }
    }
    false
}
