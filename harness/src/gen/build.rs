//! Random generation of programs in the core fragment `G` together with worlds (arguments, UTxO
//! assignment, fee, network) in which their denotation is defined.

use super::ast::*;
use super::sem::{Assets, UtxoV, World, V};
use crate::rng::Rng;
use num_bigint::BigInt;
use std::collections::BTreeMap;

#[derive(Clone, Debug)]
pub struct Cfg {
    /// chance (per 100) that a tx gets chain-specific blocks
    pub cardano_pct: u64,
    pub redeemers: bool,
    /// features that are known or likely to trip defects of the code under test (param as list index,
    /// compiler built-in over a param, policy name inside AnyAsset); each is feature-tagged
    pub risky_pct: u64,
    /// draw integer arguments from the boundary distribution (C02) instead of "comfortable" ranges
    pub boundary_ints: bool,
    pub max_txs: usize,
    /// write outputs in balanced form (inputs + mint - burn - fees) (C02 conservation)
    pub balanced: bool,
    pub min_utxo: bool,
    pub max_cases: usize,
    pub datum_pct: u64,
    pub mint_pct: u64,
    /// C09: datum/redeemer heavy programs, integers over the whole i128 range, long byte strings
    pub datum_focus: bool,
    /// C08: every input / mint / burn / withdrawal block carries a redeemer with high probability
    pub redeemer_focus: bool,
    /// C07: value expressions made of asset atoms in which exactly one of policy / name / amount is a
    /// parameter and the rest literal, summed with literal atoms (what a reduction *before* the arguments
    /// arrive must leave alone)
    pub partial_const: bool,
    /// C17: now and then two txs of one program carry exactly the same name
    pub dup_tx_names: bool,
    /// C10: now and then the same UTxO is assigned to two input blocks (what a client can hand to apply_inputs)
    pub share_utxo_between_blocks: bool,
    /// C08: now and then an input's redeemer is a value that has no Plutus-Data form (a bare UTxO reference):
    /// such a template has no denotation and must be refused, not compiled without the redeemer
    pub unencodable_redeemer: bool,
    /// C08: a burn block carries its own redeemer even when a mint block of the tx names the same policy
    /// (one slot, two redeemers: no denotation unless the two are equal)
    pub redeemer_clash: bool,
}

impl Default for Cfg {
    fn default() -> Self {
        Cfg { cardano_pct: 10, redeemers: true, risky_pct: 25, boundary_ints: false, max_txs: 2, balanced: false, min_utxo: false, max_cases: 4, datum_pct: 60, mint_pct: 40, datum_focus: false, redeemer_focus: false, partial_const: false, dup_tx_names: false, share_utxo_between_blocks: false, unencodable_redeemer: false, redeemer_clash: false }
    }
}

#[derive(Clone, Debug, PartialEq)]
pub enum Role {
    Int(i64, i64),
    /// slot-like / time-like values near the chain tip
    Slot,
    Time,
    Bytes(Option<usize>),
    Bool,
    Addr,
    /// any i128 (datum / redeemer integers are unbounded)
    BigInt,
    /// address carrying a stake credential (base address or stake address)
    StakeAddr,
    Ref,
}

#[derive(Clone, Debug)]
pub struct Decl {
    pub name: String,
    pub ty: Ty,
    pub role: Role,
}

/// Everything the world generator needs to know about one tx beyond the program text.
#[derive(Clone, Debug, Default)]
pub struct TxMeta {
    pub params: Vec<Decl>,
    /// input name -> datum type, many
    pub inputs: Vec<(String, Option<Ty>, bool)>,
    pub has_collateral: bool,
}

#[derive(Clone, Debug, Default)]
pub struct Generated {
    pub prog: Program,
    pub env: Vec<Decl>,
    pub parties: Vec<Decl>,
    pub txs: Vec<TxMeta>,
}

#[derive(Clone, Copy, PartialEq, Eq, Debug)]
pub enum Pos {
    Asset,
    Datum,
    Address,
    Plain,
}

pub struct Builder<'r> {
    pub rng: &'r mut Rng,
    pub cfg: Cfg,
    counter: u32,
    g: Generated,
    cur: TxMeta,
    cur_tx: TxDef,
    /// locals of the current tx by kind: (name, expr)
    int_locals: Vec<(String, E)>,
    val_locals: Vec<(String, E)>,
    /// locals bound to a bare policy name / input name: (local, policy or input). What such a local denotes
    /// depends on where it is mentioned (address vs hash; value vs datum)
    pol_locals: Vec<(String, String)>,
    in_locals: Vec<(String, String)>,
    tags: Vec<String>,
}

const LOWER: &[&str] = &["qty", "amount", "deadline", "owner", "lock", "fee_share", "idx", "note", "seed", "x"];
const UPPER: &[&str] = &["Quantity", "Amount", "Deadline", "Owner", "Lock", "Share", "Pos", "Note", "Seed", "X"];
const MIXED: &[&str] = &["qTy", "aMount", "deadLine", "oWner", "loCK", "shARe", "pOs", "nOTe", "sEEd", "xX"];

impl<'r> Builder<'r> {
    pub fn new(rng: &'r mut Rng, cfg: Cfg) -> Self {
        Builder { rng, cfg, counter: 0, g: Generated::default(), cur: TxMeta::default(), cur_tx: TxDef::default(), int_locals: vec![], val_locals: vec![], pol_locals: vec![], in_locals: vec![], tags: vec![] }
    }

    fn tag(&mut self, t: &str) {
        if !self.tags.iter().any(|x| x == t) {
            self.tags.push(t.to_string());
        }
    }

    /// unique (case-insensitively) identifier with a kind prefix and a random case style
    pub fn name(&mut self, kind: &str) -> String {
        self.counter += 1;
        let i = self.rng.usize(LOWER.len());
        let base = match self.rng.below(3) {
            0 => LOWER[i],
            1 => UPPER[i],
            _ => MIXED[i],
        };
        let n = format!("{kind}{base}{}", self.counter);
        if self.rng.chance(1, 4) {
            format!("{n}_z")
        } else {
            n
        }
    }

    // -------------------------------------------------------------------------------------
    // declarations on demand

    fn party(&mut self) -> String {
        let plain: Vec<String> = self.g.parties.iter().filter(|d| d.role == Role::Addr).map(|d| d.name.clone()).collect();
        if !plain.is_empty() && (plain.len() >= 3 || self.rng.chance(2, 3)) {
            return self.rng.pick(&plain).clone();
        }
        let n = self.name("P");
        self.g.parties.push(Decl { name: n.clone(), ty: Ty::Address, role: Role::Addr });
        self.g.prog.parties.push(n.clone());
        n
    }

    fn stake_party(&mut self) -> String {
        let have: Vec<String> = self.g.parties.iter().filter(|d| d.role == Role::StakeAddr).map(|d| d.name.clone()).collect();
        if !have.is_empty() && !(self.cfg.redeemer_focus && have.len() < 3 && self.rng.bool()) {
            return self.rng.pick(&have).clone();
        }
        let n = self.name("S");
        self.g.parties.push(Decl { name: n.clone(), ty: Ty::Address, role: Role::StakeAddr });
        self.g.prog.parties.push(n.clone());
        n
    }

    fn param(&mut self, ty: Ty, role: Role) -> E {
        // reuse (param or env) with the same type+role, or declare a new one
        let use_env = self.rng.chance(1, 4);
        if use_env {
            let found: Vec<String> = self.g.env.iter().filter(|d| d.ty == ty && d.role == role).map(|d| d.name.clone()).collect();
            if !found.is_empty() && (self.g.env.len() >= 4 || self.rng.bool()) {
                return E::Param(self.rng.pick(&found).clone());
            }
            if self.g.env.len() < 4 {
                let n = self.name("e");
                self.g.env.push(Decl { name: n.clone(), ty: ty.clone(), role });
                self.g.prog.env.push((n.clone(), ty));
                self.tag("env-var");
                return E::Param(n);
            }
        }
        let found: Vec<String> = self.cur.params.iter().filter(|d| d.ty == ty && d.role == role).map(|d| d.name.clone()).collect();
        if !found.is_empty() && (self.cur.params.len() >= 6 || self.rng.bool()) {
            return E::Param(self.rng.pick(&found).clone());
        }
        let n = self.name("a");
        self.cur.params.push(Decl { name: n.clone(), ty: ty.clone(), role });
        self.cur_tx.params.push((n.clone(), ty));
        E::Param(n)
    }

    /// A mention of policy `pname`: directly, or through a local bound to the bare policy name (the local is an
    /// address where an address is expected and the hash elsewhere - the meaning is decided at each mention).
    fn pol_ref(&mut self, pname: String, addr: bool) -> E {
        let direct = if addr { E::PolicyAddr(pname.clone()) } else { E::PolicyHash(pname.clone()) };
        match self.pol_locals.iter().find(|(_, p)| *p == pname).cloned() {
            Some((l, _)) if self.rng.chance(3, 4) => {
                self.tag(if addr { "policy-through-local:address" } else { "policy-through-local:hash" });
                E::Local(l, Box::new(direct))
            }
            _ => direct,
        }
    }

    /// Index of the policy to mention: the one a local is bound to, half of the time.
    fn policy_pref(&mut self) -> usize {
        if let Some((_, p)) = self.pol_locals.first().cloned() {
            if self.rng.bool() {
                if let Some(i) = self.g.prog.policies.iter().position(|x| x.name == p) {
                    return i;
                }
            }
        }
        self.policy()
    }

    /// A mention of input `iname` as a value or as a datum: directly or through a local bound to the input name.
    fn in_ref(&mut self, iname: String, datum: bool) -> E {
        let direct = if datum { E::InputDatum(iname.clone()) } else { E::InputValue(iname.clone()) };
        match self.in_locals.iter().find(|(_, i)| *i == iname).cloned() {
            Some((l, _)) if self.rng.chance(3, 4) => {
                self.tag(if datum { "input-through-local:datum" } else { "input-through-local:value" });
                E::Local(l, Box::new(direct))
            }
            _ => direct,
        }
    }

    fn policy(&mut self) -> usize {
        if !self.g.prog.policies.is_empty() && (self.g.prog.policies.len() >= 3 || self.rng.chance(2, 3)) {
            return self.rng.usize(self.g.prog.policies.len());
        }
        let name = self.name("Pol");
        let hash = self.rng.bytes(28);
        let form = match self.rng.below(4) {
            0 | 1 => PolicyForm::Assign,
            2 => PolicyForm::Ctor { script: Some(self.rng.bytes(12)), rf: None },
            _ => PolicyForm::Ctor { script: None, rf: None },
        };
        self.g.prog.policies.push(Policy { name, hash, form });
        self.g.prog.policies.len() - 1
    }

    fn asset(&mut self) -> usize {
        if !self.g.prog.assets.is_empty() && (self.g.prog.assets.len() >= 3 || self.rng.chance(2, 3)) {
            return self.rng.usize(self.g.prog.assets.len());
        }
        let name = self.name("T");
        // share policies between assets now and then (same policy, other name)
        let policy = if !self.g.prog.assets.is_empty() && self.rng.chance(1, 3) {
            self.g.prog.assets[0].policy.clone()
        } else if !self.g.prog.policies.is_empty() && self.rng.chance(1, 3) {
            self.g.prog.policies[0].hash.clone()
        } else {
            self.rng.bytes(28)
        };
        let as_string = self.rng.bool();
        let asset_name = if as_string {
            let n = 1 + self.rng.usize(8);
            (0..n).map(|_| b'A' + self.rng.below(26) as u8).collect()
        } else {
            let n = 1 + self.rng.usize(12);
            self.rng.bytes(n)
        };
        self.g.prog.assets.push(Asset { name, policy, asset_name, name_as_string: as_string, raw_policy: None, raw_asset_name: None });
        self.g.prog.assets.len() - 1
    }

    fn field_ty(&mut self, depth: u32) -> Ty {
        let nrec = self.g.prog.types.iter().filter(|t| t.record).count();
        match self.rng.below(if depth == 0 { 10 } else { 7 }) {
            0 | 1 | 2 => Ty::Int,
            3 | 4 => Ty::Bytes,
            5 => Ty::Bool,
            6 => Ty::Address,
            7 => Ty::List(Box::new(if self.rng.bool() { Ty::Int } else { Ty::Bytes })),
            8 => Ty::Map(Box::new(Ty::Int), Box::new(Ty::Bytes)),
            _ => {
                if nrec > 0 {
                    let recs: Vec<String> = self.g.prog.types.iter().filter(|t| t.record).map(|t| t.name.clone()).collect();
                    Ty::Custom(self.rng.pick(&recs).clone())
                } else {
                    Ty::Int
                }
            }
        }
    }

    fn new_type(&mut self, record: bool) -> usize {
        let name = self.name("Ty");
        let ncases = if record { 1 } else { 2 + self.rng.usize(self.cfg.max_cases.saturating_sub(1).max(1)) };
        let mut cases = vec![];
        for _ in 0..ncases {
            // identifiers are case-sensitive: now and then a case (or a field, below) is spelled like an
            // earlier one except for the case of its letters
            let flip = |n: &str| -> String { n.chars().map(|c| if c.is_ascii_lowercase() { c.to_ascii_uppercase() } else { c.to_ascii_lowercase() }).collect() };
            let cname = if record {
                "Default".to_string()
            } else if !cases.is_empty() && !cases.iter().any(|c: &Case| c.name == "Default") && self.rng.chance(1, 6) {
                // the name the language gives the implicit case of a record, here as an ordinary later case
                self.tag("variant-case-named-Default-not-first");
                "Default".to_string()
            } else if !cases.is_empty() && self.rng.chance(1, 5) {
                let prev: &Case = &cases[self.rng.usize(cases.len())];
                let f = flip(&prev.name);
                if cases.iter().any(|c: &Case| c.name == f) {
                    self.name("C")
                } else {
                    self.tag("case-names-differ-in-letter-case-only");
                    f
                }
            } else {
                self.name("C")
            };
            let nf = if !record && self.rng.chance(1, 3) { 0 } else { 1 + self.rng.usize(4) };
            let mut fields = vec![];
            for _ in 0..nf {
                let mut f = self.name("f");
                if !fields.is_empty() && self.rng.chance(1, 8) {
                    let prev: &(String, Ty) = &fields[self.rng.usize(fields.len())];
                    let g = flip(&prev.0);
                    if !fields.iter().any(|x: &(String, Ty)| x.0 == g) {
                        self.tag("field-names-differ-in-letter-case-only");
                        f = g;
                    }
                }
                let t = self.field_ty(0);
                fields.push((f, t));
            }
            cases.push(Case { name: cname, fields });
        }
        self.g.prog.types.push(TypeDef { name, record, cases });
        self.g.prog.types.len() - 1
    }

    fn some_type(&mut self, want_record: Option<bool>) -> usize {
        let cands: Vec<usize> = self.g.prog.types.iter().enumerate().filter(|(_, t)| want_record.map(|r| t.record == r).unwrap_or(true)).map(|(i, _)| i).collect();
        if !cands.is_empty() && (self.g.prog.types.len() >= 4 || self.rng.chance(2, 3)) {
            return *self.rng.pick(&cands);
        }
        let rec = want_record.unwrap_or_else(|| self.rng.chance(3, 5));
        self.new_type(rec)
    }

    // -------------------------------------------------------------------------------------
    // expressions

    fn lit_int(&mut self) -> E {
        let n = match self.rng.below(8) {
            0 => 0,
            1 => 1,
            2 => self.rng.range(2, 24),
            3 => self.rng.range(25, 300),
            4 => self.rng.range(-20, -1),
            _ => self.rng.range(0, 5000),
        };
        E::Int(n as i128)
    }

    /// Int expression. `pos` decides which identifiers are meaningful at this position.
    pub fn int_expr(&mut self, pos: Pos, depth: u32) -> E {
        if depth >= 3 || self.rng.chance(2, 5) {
            return self.int_atom(pos);
        }
        match self.rng.below(10) {
            0 | 1 | 2 => E::Add(Box::new(self.int_expr(pos, depth + 1)), Box::new(self.int_expr(pos, depth + 1))),
            3 | 4 | 5 => {
                // left-assoc chains a - b - c
                let a = self.int_expr(pos, depth + 1);
                let b = self.int_atom(pos);
                if self.rng.chance(1, 2) {
                    self.tag("sub-chain>=3");
                    let c = self.int_atom(pos);
                    E::Sub(Box::new(E::Sub(Box::new(a), Box::new(b))), Box::new(c))
                } else {
                    E::Sub(Box::new(a), Box::new(b))
                }
            }
            6 => {
                self.tag("negate");
                E::Neg(Box::new(self.int_atom(pos)))
            }
            7 => {
                // parenthesised right operand: a - (b - c)
                self.tag("paren-regroup");
                let a = self.int_atom(pos);
                let b = self.int_atom(pos);
                let c = self.int_atom(pos);
                E::Sub(Box::new(a), Box::new(E::Paren(Box::new(E::Sub(Box::new(b), Box::new(c))))))
            }
            8 => E::Paren(Box::new(self.int_expr(pos, depth + 1))),
            _ => self.int_atom(pos),
        }
    }

    fn datum_input_with_field(&self, want: &Ty) -> Vec<(String, String, usize)> {
        // (input name, field name, field index) over single inputs whose datum is a record with such a field
        let mut out = vec![];
        for i in &self.cur_tx.inputs {
            if i.many {
                continue;
            }
            if let Some(Ty::Custom(tn)) = &i.datum_is {
                if let Some(td) = self.g.prog.types.iter().find(|t| t.name == *tn && t.record) {
                    for (k, (f, t)) in td.cases[0].fields.iter().enumerate() {
                        if t == want {
                            out.push((i.name.clone(), f.clone(), k));
                        }
                    }
                }
            }
        }
        out
    }

    fn int_atom(&mut self, pos: Pos) -> E {
        let risky = self.rng.below(100) < self.cfg.risky_pct;
        if self.cfg.datum_focus && pos == Pos::Datum && self.rng.chance(1, 2) {
            self.tag("datum-bigint-param");
            return self.param(Ty::Int, Role::BigInt);
        }
        match self.rng.below(12) {
            0 | 1 | 2 => self.lit_int(),
            3 | 4 | 5 => self.param(Ty::Int, Role::Int(1000, 2_000_000)),
            6 if !self.int_locals.is_empty() => {
                let (n, e) = self.rng.pick(&self.int_locals).clone();
                self.tag("local->int");
                E::Local(n, Box::new(e))
            }
            7 if pos == Pos::Datum => {
                let c = self.datum_input_with_field(&Ty::Int);
                if c.is_empty() {
                    return self.lit_int();
                }
                let (i, f, k) = self.rng.pick(&c).clone();
                self.tag("input-datum-field");
                E::Prop(Box::new(E::InputDatum(i)), f, k)
            }
            8 if pos == Pos::Datum => {
                let c = self.datum_input_with_field(&Ty::List(Box::new(Ty::Int)));
                if c.is_empty() {
                    return self.lit_int();
                }
                let (i, f, k) = self.rng.pick(&c).clone();
                let idx = if risky {
                    self.tag("risky:param-in-index");
                    let n = self.name("a");
                    self.cur.params.push(Decl { name: n.clone(), ty: Ty::Int, role: Role::Int(0, 2) });
                    self.cur_tx.params.push((n.clone(), Ty::Int));
                    E::Param(n)
                } else {
                    E::Int(self.rng.range(0, 2) as i128)
                };
                self.tag("list-index");
                E::Index(Box::new(E::Prop(Box::new(E::InputDatum(i)), f, k)), Box::new(idx))
            }
            9 => {
                self.tag("tip_slot");
                E::TipSlot
            }
            10 => {
                self.tag("slot_to_time");
                let mut arg = if risky {
                    self.tag("risky:compiler-op-over-param");
                    self.param(Ty::Int, Role::Slot)
                } else {
                    E::Int(crate::env::TIP_SLOT as i128 + self.rng.range(-1000, 100000) as i128)
                };
                if self.rng.chance(1, 3) {
                    // a compound operand: the built-in has to evaluate arithmetic over an applied argument
                    self.tag("compiler-op-over-arithmetic");
                    arg = E::Add(Box::new(arg), Box::new(E::Int(self.rng.range(0, 50) as i128)));
                }
                E::SlotToTime(Box::new(arg))
            }
            11 => {
                self.tag("time_to_slot");
                let arg = if risky {
                    self.tag("risky:compiler-op-over-param");
                    self.param(Ty::Int, Role::Time)
                } else {
                    // whole seconds after the cursor
                    E::Int(crate::env::TIP_TIME as i128 + 1000 * self.rng.range(0, 100000) as i128)
                };
                let arg = if self.rng.chance(1, 3) {
                    self.tag("compiler-op-over-arithmetic");
                    E::Add(Box::new(arg), Box::new(E::Int(1000 * self.rng.range(0, 50) as i128)))
                } else {
                    arg
                };
                E::TimeToSlot(Box::new(arg))
            }
            _ => self.lit_int(),
        }
    }

    /// small non-negative int for amounts: `lit` or `param` or sums/differences that stay positive
    /// for the comfortable argument ranges (params >= 1000, literals <= 300 here)
    fn amount_int(&mut self, pos: Pos) -> E {
        let small = |b: &mut Self| E::Int(b.rng.range(0, 300) as i128);
        match self.rng.below(8) {
            0 | 1 => E::Int(self.rng.range(1, 3_000_000) as i128),
            2 | 3 => self.param(Ty::Int, Role::Int(1000, 2_000_000)),
            4 => {
                let p = self.param(Ty::Int, Role::Int(1000, 2_000_000));
                let s = small(self);
                E::Sub(Box::new(p), Box::new(s))
            }
            5 => {
                self.tag("sub-chain>=3");
                let p = self.param(Ty::Int, Role::Int(1000, 2_000_000));
                let a = small(self);
                let b = small(self);
                E::Sub(Box::new(E::Sub(Box::new(p), Box::new(a))), Box::new(b))
            }
            6 => {
                let p = self.param(Ty::Int, Role::Int(1000, 2_000_000));
                let q = self.amount_int(pos);
                E::Add(Box::new(p), Box::new(q))
            }
            _ => {
                if pos == Pos::Datum || self.rng.chance(1, 3) {
                    // anything goes (may be negative => world is redrawn or the case moves to C02)
                    self.int_expr(pos, 1)
                } else {
                    E::Int(self.rng.range(1, 1000) as i128)
                }
            }
        }
    }

    /// Int expression whose static type the analyzer can see (withdrawal amount, donation): a literal,
    /// a tx parameter (not an env var, not a local) or a +/- chain starting with a tx parameter.
    fn typed_int(&mut self) -> E {
        let tx_param = |b: &mut Self| {
            let found: Vec<String> = b.cur.params.iter().filter(|d| d.ty == Ty::Int && d.role == Role::Int(1000, 2_000_000)).map(|d| d.name.clone()).collect();
            if !found.is_empty() && b.rng.bool() {
                return E::Param(b.rng.pick(&found).clone());
            }
            let n = b.name("a");
            b.cur.params.push(Decl { name: n.clone(), ty: Ty::Int, role: Role::Int(1000, 2_000_000) });
            b.cur_tx.params.push((n.clone(), Ty::Int));
            E::Param(n)
        };
        match self.rng.below(4) {
            0 => E::Int(self.rng.range(1, 3_000_000) as i128),
            1 => tx_param(self),
            2 => {
                let p = tx_param(self);
                E::Sub(Box::new(p), Box::new(E::Int(self.rng.range(0, 300) as i128)))
            }
            _ => {
                let p = tx_param(self);
                let q = tx_param(self);
                E::Add(Box::new(p), Box::new(q))
            }
        }
    }

    fn hex_lit(&mut self, len: Option<usize>) -> E {
        let n = len.unwrap_or_else(|| 1 + self.rng.usize(40));
        E::Hex(self.rng.bytes(n))
    }

    fn str_lit(&mut self) -> E {
        const POOL: &[&str] = &["", "a", "hello world", "Tx3!", "ünï©ødé", "0xff", "{not: a, map}", "// not a comment", "tab\there", "semi;colon"];
        E::Str(self.rng.pick(POOL).to_string())
    }

    /// bytes-valued expression; returns (expr, is_string_kind)
    pub fn bytes_expr(&mut self, pos: Pos, depth: u32) -> (E, bool) {
        match self.rng.below(if depth >= 2 { 5 } else { 8 }) {
            0 | 1 => (self.hex_lit(None), false),
            2 => (self.str_lit(), true),
            3 => (self.param(Ty::Bytes, Role::Bytes(None)), false),
            4 if pos == Pos::Datum => {
                let c = self.datum_input_with_field(&Ty::Bytes);
                if c.is_empty() {
                    return (self.hex_lit(None), false);
                }
                let (i, f, k) = self.rng.pick(&c).clone();
                self.tag("input-datum-field");
                (E::Prop(Box::new(E::InputDatum(i)), f, k), false)
            }
            5 | 6 => {
                self.tag("concat");
                let (a, sa) = self.bytes_expr(pos, depth + 1);
                // operands of one kind
                let (b, _) = if sa { (self.str_lit(), true) } else { let (mut b, mut sb) = self.bytes_expr(pos, depth + 1); while sb { let r = self.bytes_expr(pos, depth + 1); b = r.0; sb = r.1; } (b, false) };
                (E::Concat(Box::new(a), Box::new(b)), sa)
            }
            7 if (pos == Pos::Datum || pos == Pos::Plain) && depth == 0 && !self.g.prog.policies.is_empty() && self.rng.below(100) < self.cfg.risky_pct => {
                let p = self.policy_pref();
                self.tag("risky:policy-hash-as-data");
                let pn = self.g.prog.policies[p].name.clone();
                (self.pol_ref(pn, false), false)
            }
            _ => (self.hex_lit(None), false),
        }
    }

    pub fn data_expr(&mut self, ty: &Ty, pos: Pos, depth: u32) -> E {
        match ty {
            Ty::Int => {
                if depth >= 3 {
                    self.int_atom(pos)
                } else {
                    self.int_expr(pos, 1)
                }
            }
            Ty::Bytes => self.bytes_expr(pos, depth.min(2)).0,
            Ty::Bool => {
                if self.rng.chance(1, 4) {
                    self.param(Ty::Bool, Role::Bool)
                } else {
                    E::Bool(self.rng.bool())
                }
            }
            Ty::Unit => E::Unit,
            Ty::Address => {
                if self.rng.bool() {
                    E::Party(self.party())
                } else {
                    self.param(Ty::Address, Role::Addr)
                }
            }
            Ty::List(inner) => {
                let n = self.rng.usize(4);
                // `[]` has no element to infer from but is still a list
                E::List((0..n).map(|_| self.data_expr(inner, pos, depth + 1)).collect())
            }
            Ty::Map(k, v) => {
                let n = 1 + self.rng.usize(2);
                self.tag("map-literal");
                let mut entries: Vec<(E, E)> = (0..n).map(|_| (self.data_expr(k, pos, depth + 1), self.data_expr(v, pos, depth + 1))).collect();
                // a map is an association list: an entry written twice (same key and value), or a key repeated
                // with another value, stays twice
                if !entries.is_empty() && self.rng.chance(1, 5) {
                    let e = entries[self.rng.usize(entries.len())].clone();
                    if self.rng.bool() {
                        self.tag("map-entry-repeated-verbatim");
                        entries.push(e);
                    } else {
                        self.tag("map-key-repeated");
                        let v2 = self.data_expr(v, pos, depth + 1);
                        entries.push((e.0, v2));
                    }
                }
                E::Map(entries)
            }
            Ty::Custom(name) => {
                let td = self.g.prog.types.iter().find(|t| t.name == *name).cloned().expect("declared type");
                self.struct_expr(&td, pos, depth)
            }
            Ty::UtxoRef | Ty::AnyAsset => E::Int(0),
        }
    }

    fn struct_expr(&mut self, td: &TypeDef, pos: Pos, depth: u32) -> E {
        let ci = self.rng.usize(td.cases.len());
        let case = &td.cases[ci];
        let def_fields: Vec<String> = case.fields.iter().map(|(f, _)| f.clone()).collect();
        // spread source: a single input whose datum is this record type (data position only)
        let mut spread = None;
        // (for a variant type the source may hold any case of the type: a missing field is the source's field of
        // the same position, the constructor index is the written case)
        if pos == Pos::Datum && self.rng.chance(1, 2) {
            let c: Vec<String> = self.cur_tx.inputs.iter().filter(|i| !i.many && i.datum_is == Some(Ty::Custom(td.name.clone()))).map(|i| i.name.clone()).collect();
            if !c.is_empty() {
                let src = self.rng.pick(&c).clone();
                spread = Some(Box::new(self.in_ref(src, true)));
                if !td.record {
                    self.tag("spread-into-variant-case");
                }
            }
        }
        let spread_only = spread.is_some() && self.rng.chance(1, 4);
        if spread_only {
            self.tag("spread-only-constructor");
        }
        if spread.is_none() && td.record && depth < 2 && !case.fields.is_empty() && self.rng.chance(1, 6) {
            // spread from another complete constructor expression
            let inner = self.struct_full(td, ci, pos, depth + 1);
            spread = Some(Box::new(inner));
            self.tag("spread-from-constructor");
        }
        let mut fields = vec![];
        let mut order: Vec<usize> = (0..case.fields.len()).collect();
        if self.rng.chance(1, 2) {
            self.rng.shuffle(&mut order);
            if case.fields.len() > 1 {
                self.tag("constructor-fields-out-of-order");
            }
        }
        for k in order {
            let (f, t) = &case.fields[k];
            if spread.is_some() && (spread_only || self.rng.chance(1, 2)) {
                self.tag(if k + 1 < case.fields.len() { "spread-fills-middle-field" } else { "spread-fills-last-field" });
                continue;
            }
            fields.push((f.clone(), self.data_expr(t, pos, depth + 1)));
        }
        if spread.is_some() {
            self.tag("spread");
        }
        if !td.record {
            self.tag(if case.fields.is_empty() { "variant-unit-case" } else { "variant-struct-case" });
        }
        E::Struct { ty: td.name.clone(), case: if td.record { None } else { Some(case.name.clone()) }, case_index: ci, def_fields, fields, spread }
    }

    fn struct_full(&mut self, td: &TypeDef, ci: usize, pos: Pos, depth: u32) -> E {
        let case = &td.cases[ci];
        let def_fields: Vec<String> = case.fields.iter().map(|(f, _)| f.clone()).collect();
        let fields = case.fields.iter().map(|(f, t)| (f.clone(), self.data_expr(t, pos, depth + 1))).collect();
        E::Struct { ty: td.name.clone(), case: if td.record { None } else { Some(case.name.clone()) }, case_index: ci, def_fields, fields, spread: None }
    }

    /// any datum-like value: record / variant / plain
    pub fn any_datum(&mut self, pos: Pos) -> E {
        match self.rng.below(8) {
            0 | 1 | 2 | 3 => {
                let t = self.some_type(None);
                let td = self.g.prog.types[t].clone();
                self.struct_expr(&td, pos, 0)
            }
            4 => self.int_expr(pos, 1),
            5 => self.bytes_expr(pos, 0).0,
            6 => {
                let inner = if self.rng.bool() { Ty::Int } else { Ty::Bytes };
                self.data_expr(&Ty::List(Box::new(inner)), pos, 1)
            }
            _ => {
                if self.rng.bool() {
                    E::Unit
                } else {
                    self.data_expr(&Ty::Map(Box::new(Ty::Int), Box::new(Ty::Bytes)), pos, 1)
                }
            }
        }
    }

    fn token_atom(&mut self) -> E {
        let risky = self.rng.below(100) < self.cfg.risky_pct;
        match self.rng.below(4) {
            0 | 1 | 2 => {
                let a = self.asset();
                let n = self.amount_int(Pos::Plain);
                E::AssetCall(self.g.prog.assets[a].name.clone(), Box::new(n))
            }
            _ => {
                self.tag("any-asset");
                let pol = if risky && !self.g.prog.policies.is_empty() {
                    self.tag("risky:policy-name-in-any-asset");
                    let p = self.policy_pref();
                    let pn = self.g.prog.policies[p].name.clone();
                    self.pol_ref(pn, false)
                } else if self.rng.bool() {
                    self.hex_lit(Some(28))
                } else {
                    self.param(Ty::Bytes, Role::Bytes(Some(28)))
                };
                let name = match self.rng.below(3) {
                    0 => {
                        let n = 1 + self.rng.usize(16);
                        self.hex_lit(Some(n))
                    }
                    1 => E::Str(["GOLD", "s", "NFT 1"][self.rng.usize(3)].to_string()),
                    _ => self.param(Ty::Bytes, Role::Bytes(Some(8))),
                };
                // AnyAsset arguments are lowered in a data position
                let n = self.amount_int(Pos::Plain);
                E::AnyAsset(Box::new(pol), Box::new(name), Box::new(n))
            }
        }
    }

    /// value atoms that are never negative in comfortable worlds
    fn value_atom(&mut self, allow_fees: bool) -> E {
        if self.cfg.partial_const && self.rng.chance(2, 3) {
            self.tag("partial-const-atom");
            let which = self.rng.below(5);
            let pol = if which == 0 { self.param(Ty::Bytes, Role::Bytes(Some(28))) } else { self.hex_lit(Some(28)) };
            let name = if which == 1 {
                self.param(Ty::Bytes, Role::Bytes(Some(8)))
            } else if self.rng.bool() {
                E::Str(["GOLD", "s", "NFT 1"][self.rng.usize(3)].to_string())
            } else {
                let n = 1 + self.rng.usize(8);
                self.hex_lit(Some(n))
            };
            let amt = if which == 2 { self.param(Ty::Int, Role::Int(1, 2_000_000)) } else { E::Int(self.rng.range(1, 3_000_000) as i128) };
            return match which {
                3 => E::Ada(Box::new(E::Int(self.rng.range(1, 3_000_000) as i128))),
                _ => E::AnyAsset(Box::new(pol), Box::new(name), Box::new(amt)),
            };
        }
        match self.rng.below(10) {
            0 | 1 | 2 | 3 => {
                let n = self.amount_int(Pos::Asset);
                E::Ada(Box::new(n))
            }
            4 | 5 | 6 => self.token_atom(),
            7 if allow_fees => {
                self.tag("fees-in-value");
                E::Fees
            }
            8 if !self.val_locals.is_empty() => {
                let (n, e) = self.rng.pick(&self.val_locals).clone();
                self.tag("local->value");
                E::Local(n, Box::new(e))
            }
            _ => {
                let n = self.amount_int(Pos::Asset);
                E::Ada(Box::new(n))
            }
        }
    }

    fn value_sum(&mut self, allow_fees: bool) -> E {
        let mut e = self.value_atom(allow_fees);
        for _ in 0..self.rng.usize(3) {
            let a = self.value_atom(allow_fees);
            e = E::Add(Box::new(e), Box::new(a));
        }
        e
    }

    /// output amount: a sum of atoms, or `input - small - small ...` (change-like)
    fn output_value(&mut self) -> E {
        let inputs: Vec<String> = self.cur_tx.inputs.iter().map(|i| i.name.clone()).collect();
        if !inputs.is_empty() && self.rng.chance(1, if self.cfg.partial_const { 5 } else { 2 }) {
            let src = self.rng.pick(&inputs).clone();
            self.tag("input-as-assets");
            let mut e = self.in_ref(src, false);
            let k = 1 + self.rng.usize(3);
            if k >= 2 {
                self.tag("sub-chain>=3");
            }
            for _ in 0..k {
                let s = match self.rng.below(4) {
                    0 => {
                        self.tag("fees-in-value");
                        E::Fees
                    }
                    _ => E::Ada(Box::new(E::Int(self.rng.range(1, 2_000_000) as i128))),
                };
                e = E::Sub(Box::new(e), Box::new(s));
            }
            if self.rng.chance(1, 4) {
                let a = self.value_atom(false);
                e = E::Add(Box::new(e), Box::new(a));
            }
            if self.rng.chance(1, 5) {
                // a - (b + c)
                self.tag("paren-regroup");
                let b = E::Ada(Box::new(E::Int(self.rng.range(1, 1000) as i128)));
                let c = E::Ada(Box::new(E::Int(self.rng.range(1, 1000) as i128)));
                e = E::Sub(Box::new(e), Box::new(E::Paren(Box::new(E::Add(Box::new(b), Box::new(c))))));
            }
            e
        } else {
            self.value_sum(true)
        }
    }

    fn address_expr(&mut self) -> E {
        match self.rng.below(8) {
            0 | 1 | 2 | 3 => E::Party(self.party()),
            4 => self.param(Ty::Address, Role::Addr),
            5 => {
                let p = self.policy_pref();
                self.tag("policy-as-address");
                let pn = self.g.prog.policies[p].name.clone();
                self.pol_ref(pn, true)
            }
            6 => {
                self.tag("bech32-literal-address");
                let net = self.rng.below(2) as u8;
                let mut a = vec![0x60 | net];
                a.extend(self.rng.bytes(28));
                E::Str(bech32_encode(if net == 1 { "addr" } else { "addr_test" }, &a))
            }
            _ => E::Party(self.party()),
        }
    }

    fn ref_expr(&mut self) -> E {
        if self.rng.chance(1, 3) {
            self.param(Ty::UtxoRef, Role::Ref)
        } else {
            E::UtxoRef(self.rng.bytes(32), self.rng.below(5))
        }
    }

    // -------------------------------------------------------------------------------------
    // blocks

    fn gen_tx(&mut self) {
        self.cur = TxMeta::default();
        // now and then a tx is named like the previous one except for the case of its letters (tx names are
        // case-sensitive keys of the interface)
        let prev_name: Option<String> = self.g.prog.txs.last().map(|t| t.name.clone());
        let txname = match prev_name {
            Some(prev) if self.cfg.dup_tx_names && self.rng.chance(1, 5) => {
                self.tag("tx-names-identical");
                prev
            }
            Some(prev) if self.rng.chance(1, 4) => {
                self.tag("tx-names-differ-in-letter-case-only");
                prev.chars().map(|c| if c.is_ascii_lowercase() { c.to_ascii_uppercase() } else { c.to_ascii_lowercase() }).collect()
            }
            _ => self.name("tx"),
        };
        self.cur_tx = TxDef { name: txname, ..Default::default() };
        self.int_locals.clear();
        self.val_locals.clear();
        self.pol_locals.clear();
        self.in_locals.clear();
        if self.rng.chance(1, 3) {
            self.cur_tx.block_order_seed = self.rng.next_u64() | 1;
            self.tag("block-order-shuffled");
        }

        // locals (context-free: params / literals / other locals)
        for _ in 0..self.rng.usize(3) {
            let n = self.name("l");
            if self.rng.bool() {
                let e = self.amount_int(Pos::Plain);
                self.cur_tx.locals.push((n.clone(), e.clone()));
                self.int_locals.push((n, e));
            } else {
                let e = self.value_sum(false);
                self.cur_tx.locals.push((n.clone(), e.clone()));
                self.val_locals.push((n, e));
            }
            self.tag("locals");
        }
        // a local bound to a bare policy name: an address in `to:` / `from:`, the hash in data and asset positions
        if self.rng.chance(1, 4) {
            let p = self.policy();
            let n = self.name("lp");
            let pn = self.g.prog.policies[p].name.clone();
            self.cur_tx.locals.push((n.clone(), E::PolicyHash(pn.clone())));
            self.pol_locals.push((n, pn));
            self.tag("local-bound-to-policy");
        }

        // inputs
        let nin = 1 + self.rng.usize(3);
        for _ in 0..nin {
            let name = self.name("in");
            let many = self.rng.chance(1, 4) || (self.cfg.redeemer_focus && self.rng.chance(1, 3));
            let mut inp = Input { name: name.clone(), many, ..Default::default() };
            if many {
                self.tag("many-input");
            }
            match self.rng.below(5) {
                0 | 1 | 2 => inp.from = Some(E::Party(self.party())),
                3 => {
                    let p = self.policy_pref();
                    let pn = self.g.prog.policies[p].name.clone();
                    inp.from = Some(self.pol_ref(pn, true));
                    self.tag("policy-as-address");
                }
                _ => {}
            }
            if inp.from.is_none() || self.rng.chance(1, 4) {
                inp.rf = Some(self.ref_expr());
                self.tag("input-by-ref");
            }
            if self.rng.chance(2, 3) {
                inp.min_amount = Some(match self.rng.below(3) {
                    0 => {
                        self.tag("fees-in-min-amount");
                        E::Add(Box::new(E::Fees), Box::new(E::Ada(Box::new(E::Int(self.rng.range(0, 1000) as i128)))))
                    }
                    _ => self.value_sum(false),
                });
            }
            if !many && self.rng.below(100) < self.cfg.datum_pct {
                // one time in four the datum is of a variant type (any of its cases may sit in the UTxO)
                let variant = self.rng.chance(1, 4);
                let t = self.some_type(Some(!variant));
                inp.datum_is = Some(Ty::Custom(self.g.prog.types[t].name.clone()));
                self.tag("input-with-datum");
                if variant {
                    self.tag("input-with-variant-datum");
                }
            }
            // the redeemer may read the datums of the inputs declared *before* this one: the code under
            // test resolves an input name to a copy of the whole block, so reference cycles (an input
            // whose redeemer reads its own datum) are C13's subject, not C01's
            if self.cfg.unencodable_redeemer && self.rng.chance(1, 12) {
                inp.redeemer = Some(self.param(Ty::UtxoRef, Role::Ref));
                self.tag("unencodable-redeemer");
            } else if self.cfg.redeemers && (self.rng.chance(1, 3) || (self.cfg.redeemer_focus && self.rng.chance(3, 4))) {
                inp.redeemer = Some(self.any_datum(Pos::Datum));
                self.tag("spend-redeemer");
            }
            self.cur.inputs.push((name, inp.datum_is.clone(), many));
            self.cur_tx.inputs.push(inp);
        }

        if self.rng.chance(1, 4) {
            self.cur_tx.collateral = Some(Collateral {
                from: Some(E::Party(self.party())),
                min_amount: if self.rng.bool() { Some(E::Ada(Box::new(E::Int(self.rng.range(1, 5_000_000) as i128)))) } else { None },
                rf: if self.rng.chance(1, 4) { Some(E::UtxoRef(self.rng.bytes(32), self.rng.below(3))) } else { None },
            });
            self.cur.has_collateral = true;
            self.tag("collateral");
        }

        for _ in 0..(if self.rng.chance(1, 3) { 1 + self.rng.usize(2) } else { 0 }) {
            let n = self.name("r");
            let e = self.ref_expr();
            self.cur_tx.references.push((n, e));
            self.tag("reference-input");
        }

        // mint / burn
        if self.rng.below(100) < self.cfg.mint_pct {
            for _ in 0..1 + self.rng.usize(2) {
                let mut amount = self.token_atom();
                let mut single_policy = true;
                if self.rng.chance(1, 3) {
                    let b = self.token_atom();
                    amount = E::Add(Box::new(amount), Box::new(b));
                    self.tag("mint-sum");
                    single_policy = false;
                }
                // the ledger has one redeemer per policy: a redeemer is only written on blocks that
                // name a single asset
                let redeemer = if self.cfg.redeemers && single_policy && (self.rng.bool() || self.cfg.redeemer_focus) { Some(self.any_datum(Pos::Plain)) } else { None };
                if redeemer.is_some() {
                    self.tag("mint-redeemer");
                }
                self.cur_tx.mints.push(MintBlock { amount, redeemer });
                self.tag("mint");
            }
        }
        let nburn = if self.rng.below(100) < self.cfg.mint_pct / 2 { 1 + (self.rng.chance(1, 3) as usize) } else { 0 };
        for _ in 0..nburn {
            let amount = if !self.cur_tx.mints.is_empty() && self.rng.chance(1, 3) {
                // burn exactly what a mint block (or one atom of it) mints: the class nets to zero and
                // must vanish from the mint field, together with its policy when nothing else is left
                self.tag("mint+burn-exact-cancel");
                let mi = self.rng.usize(self.cur_tx.mints.len());
                if self.rng.bool() {
                    // the cancelled block guards nothing any more: no redeemer on it
                    self.cur_tx.mints[mi].redeemer = None;
                }
                let whole = self.cur_tx.mints[mi].amount.clone();
                match &whole {
                    E::Add(a, b) if self.rng.bool() => {
                        if self.rng.bool() {
                            (**a).clone()
                        } else {
                            (**b).clone()
                        }
                    }
                    _ => whole,
                }
            } else if !self.cur_tx.mints.is_empty() && self.rng.bool() {
                // burn on a class that is also minted (same policy, one ledger slot)
                self.tag("mint+burn-same-class");
                match &self.cur_tx.mints[0].amount {
                    E::AssetCall(a, _) => E::AssetCall(a.clone(), Box::new(E::Int(self.rng.range(1, 500) as i128))),
                    _ => self.token_atom(),
                }
            } else {
                self.token_atom()
            };
            // the ledger has one redeemer slot per policy: a burn carries its own redeemer only when
            // no mint block of this tx names the same policy
            let burn_policy = match &amount {
                E::AssetCall(a, _) => self.g.prog.assets.iter().find(|d| d.name == *a).map(|d| d.policy.clone()),
                _ => None,
            };
            let clash = match &burn_policy {
                None => true,
                Some(p) => self.cur_tx.mints.iter().chain(self.cur_tx.burns.iter()).any(|m| {
                    let mut names = vec![];
                    collect_asset_calls(&m.amount, &mut names);
                    names.iter().any(|n| self.g.prog.assets.iter().any(|d| d.name == *n && d.policy == *p)) || contains_any_asset(&m.amount)
                }),
            };
            let redeemer = if self.cfg.redeemers && (!clash || (self.cfg.redeemer_clash && burn_policy.is_some())) && self.rng.chance(2, 3) {
                self.tag("burn-redeemer");
                Some(self.any_datum(Pos::Plain))
            } else {
                None
            };
            self.cur_tx.burns.push(MintBlock { amount, redeemer });
            self.tag("burn");
        }

        // a local bound to a bare input name (declared after the inputs exist, so that no input block mentions
        // it): the input's value in asset positions, its datum in data positions
        if !self.cur_tx.inputs.is_empty() && self.rng.chance(1, 4) {
            let cands: Vec<String> = self.cur_tx.inputs.iter().filter(|i| !i.many && i.datum_is.is_some()).map(|i| i.name.clone()).collect();
            let all: Vec<String> = self.cur_tx.inputs.iter().map(|i| i.name.clone()).collect();
            let iname = if !cands.is_empty() { self.rng.pick(&cands).clone() } else { self.rng.pick(&all).clone() };
            let n = self.name("li");
            self.cur_tx.locals.push((n.clone(), E::InputValue(iname.clone())));
            self.in_locals.push((n, iname));
            self.tag("local-bound-to-input");
        }

        // outputs
        let nout = 1 + self.rng.usize(3);
        for k in 0..nout {
            let mut o = Output { to: Some(self.address_expr()), amount: Some(self.output_value()), ..Default::default() };
            if self.rng.chance(1, 2) {
                o.name = Some(self.name("out"));
            }
            if self.rng.chance(1, 8) {
                o.optional = true;
                self.tag("optional-output");
                if self.rng.chance(1, 2) {
                    // an optional output whose value may well be empty
                    o.amount = Some(E::Ada(Box::new(E::Int(0))));
                    self.tag("optional-output-empty");
                }
            } else if self.rng.below(100) < self.cfg.datum_pct {
                o.datum = Some(self.any_datum(Pos::Datum));
                self.tag("output-datum");
            }
            let _ = k;
            self.cur_tx.outputs.push(o);
        }

        if !self.cfg.balanced && !self.cfg.min_utxo && self.rng.chance(1, 8) {
            // the same output twice: outputs are a list in source order, not a set
            let k = self.rng.usize(self.cur_tx.outputs.len());
            let mut o = self.cur_tx.outputs[k].clone();
            o.name = None;
            self.cur_tx.outputs.push(o);
            self.tag("duplicate-output");
        }

        if self.cfg.balanced {
            // final output = everything consumed - everything else produced - fees
            let mut e: Option<E> = None;
            let add = |e: &mut Option<E>, t: E, plus: bool| {
                *e = Some(match e.take() {
                    None => {
                        if plus {
                            t
                        } else {
                            E::Neg(Box::new(E::Paren(Box::new(t))))
                        }
                    }
                    Some(acc) => {
                        if plus {
                            E::Add(Box::new(acc), Box::new(E::Paren(Box::new(t))))
                        } else {
                            E::Sub(Box::new(acc), Box::new(E::Paren(Box::new(t))))
                        }
                    }
                });
            };
            for i in &self.cur_tx.inputs {
                add(&mut e, E::InputValue(i.name.clone()), true);
            }
            for m in &self.cur_tx.mints {
                add(&mut e, m.amount.clone(), true);
            }
            for b in &self.cur_tx.burns {
                add(&mut e, b.amount.clone(), false);
            }
            for o in &self.cur_tx.outputs {
                if let Some(a) = &o.amount {
                    add(&mut e, a.clone(), false);
                }
            }
            add(&mut e, E::Fees, false);
            let to = E::Party(self.party());
            self.cur_tx.outputs.push(Output { to: Some(to), amount: e, ..Default::default() });
            self.tag("balanced-change-output");
        }

        if self.rng.chance(1, 3) {
            let since = if self.rng.bool() { Some(self.validity_expr()) } else { None };
            let until = if since.is_none() || self.rng.bool() { Some(self.validity_expr()) } else { None };
            self.cur_tx.validity = Some((since, until));
            self.tag("validity");
        }
        if self.rng.chance(1, 3) {
            let mut s = vec![];
            for _ in 0..1 + self.rng.usize(3) {
                s.push(match self.rng.below(3) {
                    0 => E::Party(self.party()),
                    1 => self.hex_lit(Some(28)),
                    _ => self.param(Ty::Bytes, Role::Bytes(Some(28))),
                });
            }
            self.cur_tx.signers = Some(s);
            self.tag("signers");
        }
        if self.rng.chance(1, 3) {
            let mut used = vec![];
            for _ in 0..1 + self.rng.usize(3) {
                let mut k = self.rng.range(0, 2000) as i128;
                while used.contains(&k) {
                    k += 1;
                }
                used.push(k);
                let v = match self.rng.below(4) {
                    0 => self.amount_int(Pos::Plain),
                    1 => self.str_lit(),
                    2 => {
                        let n = 1 + self.rng.usize(64);
                        self.hex_lit(Some(n))
                    }
                    _ => self.param(Ty::Bytes, Role::Bytes(None)),
                };
                self.cur_tx.metadata.push((E::Int(k), v));
            }
            self.tag("metadata");
        }

        let n_cardano = if self.rng.below(100) < self.cfg.cardano_pct { 1 + (self.rng.chance(1, 3) as usize) + (self.rng.chance(1, 6) as usize) } else { 0 };
        for _ in 0..n_cardano {
            // (several blocks per tx now and then: two withdrawals, witnesses of different Plutus versions ...)
            let kind = self.rng.below(5);
            if kind == 2 && self.cur_tx.cardano.iter().any(|c| matches!(c, Cardano::TreasuryDonation { .. })) {
                continue;
            }
            match kind {
                0 | 1 => {
                    let p = self.stake_party();
                    if self.cur_tx.cardano.iter().any(|c| matches!(c, Cardano::Withdrawal { from: E::Party(q), .. } if *q == p)) {
                        continue;
                    }
                    let from = E::Party(p);
                    let amount = self.typed_int();
                    let redeemer = if self.cfg.redeemers && self.rng.bool() { Some(self.any_datum(Pos::Plain)) } else { None };
                    if redeemer.is_some() {
                        self.tag("withdrawal-redeemer");
                    }
                    self.cur_tx.cardano.push(Cardano::Withdrawal { from, amount, redeemer });
                    self.tag("withdrawal");
                }
                2 => {
                    self.cur_tx.cardano.push(Cardano::TreasuryDonation { coin: E::Int(self.rng.range(1, 5_000_000) as i128) });
                    self.tag("treasury-donation");
                }
                3 => {
                    let v = self.rng.range(1, 3) as i128;
                    // one time in four the script is given as a policy name (in a value position: its hash)
                    let s = if !self.g.prog.policies.is_empty() && self.rng.chance(1, 4) {
                        let p = self.policy_pref();
                        let pn = self.g.prog.policies[p].name.clone();
                        self.tag("witness-script-is-policy-name");
                        self.pol_ref(pn, false)
                    } else {
                        self.hex_lit(Some(24))
                    };
                    self.cur_tx.cardano.push(Cardano::PlutusWitness { version: E::Int(v), script: s.clone() });
                    self.tag("plutus-witness");
                    if self.rng.chance(1, 6) {
                        // the same witness written twice: the witness set is a set
                        self.cur_tx.cardano.push(Cardano::PlutusWitness { version: E::Int(v), script: s });
                        self.tag("witness-written-twice");
                    }
                }
                _ => {
                    let mut script = vec![0x82, 0x00, 0x58, 0x1c];
                    script.extend(self.rng.bytes(28));
                    self.cur_tx.cardano.push(Cardano::NativeWitness { script: E::Hex(script.clone()) });
                    self.tag("native-witness");
                    if self.rng.chance(1, 6) {
                        self.cur_tx.cardano.push(Cardano::NativeWitness { script: E::Hex(script) });
                        self.tag("witness-written-twice");
                    }
                }
            }
        }

        if self.cfg.redeemer_focus {
            let mut used: Vec<String> = self.cur_tx.cardano.iter().filter_map(|c| if let Cardano::Withdrawal { from: E::Party(p), .. } = c { Some(p.clone()) } else { None }).collect();
            for _ in 0..self.rng.usize(3) {
                let p = self.stake_party();
                if used.contains(&p) {
                    continue;
                }
                used.push(p.clone());
                let amount = self.typed_int();
                let redeemer = if self.rng.chance(3, 4) { Some(self.any_datum(Pos::Plain)) } else { None };
                if redeemer.is_some() {
                    self.tag("withdrawal-redeemer");
                }
                self.cur_tx.cardano.push(Cardano::Withdrawal { from: E::Party(p), amount, redeemer });
                self.tag("withdrawal");
            }
        }

        let tx = std::mem::take(&mut self.cur_tx);
        self.g.prog.txs.push(tx);
        let meta = std::mem::take(&mut self.cur);
        self.g.txs.push(meta);
    }

    /// C09: one funded input (with a record datum so that spread / field access are available), a
    /// redeemer on it, and 1..4 outputs each carrying a datum.
    fn gen_datum_tx(&mut self) {
        self.cur = TxMeta::default();
        // now and then a tx is named like the previous one except for the case of its letters (tx names are
        // case-sensitive keys of the interface)
        let prev_name: Option<String> = self.g.prog.txs.last().map(|t| t.name.clone());
        let txname = match prev_name {
            Some(prev) if self.cfg.dup_tx_names && self.rng.chance(1, 5) => {
                self.tag("tx-names-identical");
                prev
            }
            Some(prev) if self.rng.chance(1, 4) => {
                self.tag("tx-names-differ-in-letter-case-only");
                prev.chars().map(|c| if c.is_ascii_lowercase() { c.to_ascii_uppercase() } else { c.to_ascii_lowercase() }).collect()
            }
            _ => self.name("tx"),
        };
        self.cur_tx = TxDef { name: txname, ..Default::default() };
        self.int_locals.clear();
        self.val_locals.clear();
        self.pol_locals.clear();
        self.in_locals.clear();
        let owner = self.party();
        let t = self.some_type(Some(true));
        let name = self.name("in");
        let inp = Input { name: name.clone(), from: Some(E::Party(owner.clone())), datum_is: Some(Ty::Custom(self.g.prog.types[t].name.clone())), ..Default::default() };
        self.cur.inputs.push((name.clone(), inp.datum_is.clone(), false));
        self.cur_tx.inputs.push(inp);
        if self.rng.bool() {
            // a second datum-carrying input, of a variant type (its UTxO holds any one of the cases)
            let tv = self.some_type(Some(false));
            let namev = self.name("in");
            let inpv = Input { name: namev.clone(), from: Some(E::Party(owner.clone())), datum_is: Some(Ty::Custom(self.g.prog.types[tv].name.clone())), ..Default::default() };
            self.cur.inputs.push((namev, inpv.datum_is.clone(), false));
            self.cur_tx.inputs.push(inpv);
            self.tag("input-with-variant-datum");
        }
        let name2 = self.name("in");
        let mut inp2 = Input { name: name2.clone(), from: Some(E::Party(owner.clone())), ..Default::default() };
        inp2.redeemer = Some(self.any_datum(Pos::Datum));
        self.tag("spend-redeemer");
        self.cur.inputs.push((name2, None, false));
        self.cur_tx.inputs.push(inp2);
        for _ in 0..1 + self.rng.usize(4) {
            let datum = if self.rng.chance(1, 5) {
                // a plain type at the top
                let ty = match self.rng.below(5) {
                    0 => Ty::Int,
                    1 => Ty::Bytes,
                    2 => Ty::Bool,
                    3 => Ty::List(Box::new(Ty::List(Box::new(Ty::Int)))),
                    _ => Ty::Map(Box::new(Ty::Bytes), Box::new(Ty::List(Box::new(Ty::Int)))),
                };
                self.data_expr(&ty, Pos::Datum, 0)
            } else {
                self.any_datum(Pos::Datum)
            };
            self.cur_tx.outputs.push(Output { to: Some(E::Party(owner.clone())), amount: Some(E::Ada(Box::new(E::Int(2_000_000)))), datum: Some(datum), ..Default::default() });
            self.tag("output-datum");
        }
        let tx = std::mem::take(&mut self.cur_tx);
        self.g.prog.txs.push(tx);
        let meta = std::mem::take(&mut self.cur);
        self.g.txs.push(meta);
    }

    pub fn datum_program(mut self) -> Generated {
        for _ in 0..1 + self.rng.usize(3) {
            let rec = self.rng.chance(1, 2);
            self.new_type(rec);
        }
        self.gen_datum_tx();
        self.g.prog.tags = std::mem::take(&mut self.tags);
        self.g
    }

    fn validity_expr(&mut self) -> E {
        match self.rng.below(5) {
            0 => E::Int(crate::env::TIP_SLOT as i128 + self.rng.range(0, 100000) as i128),
            1 => self.param(Ty::Int, Role::Slot),
            2 => {
                self.tag("tip_slot");
                E::Add(Box::new(E::TipSlot), Box::new(E::Int(self.rng.range(0, 5000) as i128)))
            }
            3 => {
                self.tag("time_to_slot");
                let risky = self.rng.below(100) < self.cfg.risky_pct;
                let arg = if risky {
                    self.tag("risky:compiler-op-over-param");
                    self.param(Ty::Int, Role::Time)
                } else {
                    E::Int(crate::env::TIP_TIME as i128 + 1000 * self.rng.range(0, 100000) as i128)
                };
                E::TimeToSlot(Box::new(arg))
            }
            _ => {
                let p = self.param(Ty::Int, Role::Slot);
                E::Sub(Box::new(p), Box::new(E::Int(self.rng.range(0, 100) as i128)))
            }
        }
    }

    pub fn program(mut self) -> Generated {
        // a few declarations up front so that early expressions have something to pick from
        for _ in 0..self.rng.usize(3) {
            let rec = self.rng.chance(3, 5);
            self.new_type(rec);
        }
        let ntx = 1 + self.rng.usize(self.cfg.max_txs.max(1));
        for _ in 0..ntx {
            self.gen_tx();
        }
        self.g.prog.tags = std::mem::take(&mut self.tags);
        self.g
    }
}

fn collect_asset_calls(e: &E, out: &mut Vec<String>) {
    match e {
        E::AssetCall(a, _) => out.push(a.clone()),
        E::Add(a, b) | E::Sub(a, b) => {
            collect_asset_calls(a, out);
            collect_asset_calls(b, out);
        }
        E::Paren(a) | E::Neg(a) | E::Local(_, a) => collect_asset_calls(a, out),
        _ => {}
    }
}

fn contains_any_asset(e: &E) -> bool {
    match e {
        E::AnyAsset(..) => true,
        E::Add(a, b) | E::Sub(a, b) => contains_any_asset(a) || contains_any_asset(b),
        E::Paren(a) | E::Neg(a) | E::Local(_, a) => contains_any_asset(a),
        _ => false,
    }
}

pub fn generate(rng: &mut Rng, cfg: &Cfg) -> Generated {
    Builder::new(rng, cfg.clone()).program()
}

// ---------------------------------------------------------------------------------------------
// worlds

pub fn rand_address(rng: &mut Rng, with_stake: bool, mainnet_bit: Option<u8>) -> Vec<u8> {
    let net = mainnet_bit.unwrap_or_else(|| rng.below(2) as u8);
    if with_stake {
        if rng.chance(1, 3) {
            let mut a = vec![(if rng.bool() { 0xe0 } else { 0xf0 }) | net];
            a.extend(rng.bytes(28));
            a
        } else {
            let ty = rng.below(4) as u8; // base address kinds 0..3
            let mut a = vec![(ty << 4) | net];
            a.extend(rng.bytes(56));
            a
        }
    } else {
        match rng.below(4) {
            0 => {
                let ty = rng.below(4) as u8;
                let mut a = vec![(ty << 4) | net];
                a.extend(rng.bytes(56));
                a
            }
            1 => {
                let mut a = vec![0x70 | net];
                a.extend(rng.bytes(28));
                a
            }
            _ => {
                let mut a = vec![0x60 | net];
                a.extend(rng.bytes(28));
                a
            }
        }
    }
}

pub fn rand_value(g: &Generated, ty: &Ty, rng: &mut Rng, boundary: bool) -> V {
    match ty {
        Ty::Int => V::Int(if boundary { BigInt::from(rng.boundary_int()) } else { BigInt::from(rng.range(-1000, 1_000_000)) }),
        Ty::Bytes => {
            let n = rng.usize(40);
            V::Bytes(rng.bytes(n))
        }
        Ty::Bool => V::Bool(rng.bool()),
        Ty::Unit => V::Unit,
        Ty::Address => V::Address(rand_address(rng, false, None)),
        Ty::List(inner) => {
            // long enough for literal indices 0..2
            let n = 3 + rng.usize(2);
            V::List((0..n).map(|_| rand_value(g, inner, rng, boundary)).collect())
        }
        Ty::Map(k, v) => {
            let n = rng.usize(3);
            V::Map((0..n).map(|_| (rand_value(g, k, rng, boundary), rand_value(g, v, rng, boundary))).collect())
        }
        Ty::Custom(name) => {
            let td = g.prog.types.iter().find(|t| t.name == *name).expect("type");
            let ci = rng.usize(td.cases.len());
            V::Constr(ci as u64, td.cases[ci].fields.iter().map(|(_, t)| rand_value(g, t, rng, boundary)).collect())
        }
        Ty::UtxoRef => V::Refs(vec![(rng.bytes(32), rng.below(4))]),
        Ty::AnyAsset => V::Unit,
    }
}

fn role_value(d: &Decl, g: &Generated, rng: &mut Rng, cfg: &Cfg) -> V {
    match &d.role {
        Role::Int(lo, hi) => {
            if cfg.boundary_ints && rng.chance(1, 2) {
                V::Int(BigInt::from(rng.boundary_int()))
            } else {
                V::Int(BigInt::from(rng.range(*lo, *hi)))
            }
        }
        Role::Slot => {
            if cfg.boundary_ints && rng.chance(1, 3) {
                V::Int(BigInt::from(rng.boundary_int()))
            } else {
                V::Int(BigInt::from(crate::env::TIP_SLOT as i64 + rng.range(0, 1_000_000)))
            }
        }
        Role::Time => {
            if cfg.boundary_ints && rng.chance(1, 3) {
                V::Int(BigInt::from(rng.boundary_int()))
            } else {
                V::Int(BigInt::from(crate::env::TIP_TIME) + BigInt::from(1000 * rng.range(0, 1_000_000)))
            }
        }
        Role::BigInt => V::Int(BigInt::from(rng.boundary_int())),
        Role::Bytes(Some(n)) => V::Bytes(rng.bytes(*n)),
        Role::Bytes(None) => {
            let n = if cfg.datum_focus { *rng.pick(&[0usize, 1, 31, 32, 63, 64, 65, 100]) } else { rng.usize(48) };
            V::Bytes(rng.bytes(n))
        }
        Role::Bool => V::Bool(rng.bool()),
        Role::Addr => V::Address(rand_address(rng, false, None)),
        Role::StakeAddr => V::Address(rand_address(rng, true, None)),
        Role::Ref => rand_value(g, &Ty::UtxoRef, rng, false),
    }
}

/// Draws a world for tx `ti` of the program: arguments by role, one UTxO per single input (1..3 per
/// many-input) at the block's `from` address when it has one, a pure-lovelace collateral UTxO.
pub fn world(g: &Generated, ti: usize, rng: &mut Rng, cfg: &Cfg) -> World {
    let mut w = World { fee: rng.range(150_000, 2_500_000) as u64, network: rng.below(2) as u8, tip_slot: crate::env::TIP_SLOT, tip_time: crate::env::TIP_TIME, ..Default::default() };
    for d in g.env.iter().chain(g.parties.iter()).chain(g.txs[ti].params.iter()) {
        w.args.insert(d.name.to_lowercase(), role_value(d, g, rng, cfg));
    }
    let tx = &g.prog.txs[ti];
    // hostile correlation: two *different* signer expressions that denote the same key hash (a party's
    // address and a Bytes parameter holding its payment hash, two parties with one payment key, ...)
    if let Some(signers) = &tx.signers {
        if signers.len() >= 2 && rng.chance(1, 2) {
            let i = rng.usize(signers.len());
            let j = (i + 1 + rng.usize(signers.len() - 1)) % signers.len();
            let src_hash: Option<Vec<u8>> = {
                let sem = super::sem::Sem::new(&g.prog, &w);
                match sem.eval(&signers[i]) {
                    Ok(V::Address(a)) => super::sem::payment_hash(&a),
                    Ok(V::Bytes(b)) if b.len() == 28 => Some(b),
                    _ => None,
                }
            };
            if let Some(h) = src_hash {
                match &signers[j] {
                    E::Party(name) => {
                        // same payment key, possibly another address kind / stake part
                        let mut a = rand_address(rng, false, None);
                        if a.len() >= 29 && (a[0] >> 4) <= 7 {
                            a[1..29].copy_from_slice(&h);
                            w.args.insert(name.to_lowercase(), V::Address(a));
                        }
                    }
                    E::Param(name) => {
                        if matches!(w.args.get(&name.to_lowercase()), Some(V::Bytes(b)) if b.len() == 28) {
                            w.args.insert(name.to_lowercase(), V::Bytes(h));
                        }
                    }
                    _ => {}
                }
            }
        }
    }
    // hostile correlation: two withdrawals whose reward accounts carry the same 28-byte hash, one as a key
    // credential and one as a script credential (only the header byte tells them apart)
    {
        let from_parties: Vec<String> = tx.cardano.iter().filter_map(|c| if let Cardano::Withdrawal { from: E::Party(p), .. } = c { Some(p.to_lowercase()) } else { None }).collect();
        if from_parties.len() >= 2 && from_parties[0] != from_parties[1] && rng.chance(1, 2) {
            let first = match w.args.get(&from_parties[0]) {
                Some(V::Address(a)) => super::sem::reward_account(a),
                _ => None,
            };
            if let Some(acct) = first {
                let mut twin = acct.clone();
                twin[0] ^= 0x10; // 0xe0 <-> 0xf0, same network
                w.args.insert(from_parties[1].clone(), V::Address(twin));
            }
        } else if from_parties.len() >= 2 && from_parties[0] != from_parties[1] && rng.chance(1, 3) {
            // ... or the very same account: the withdrawal map cannot hold both amounts (no denotation)
            if let Some(a) = w.args.get(&from_parties[0]).cloned() {
                w.args.insert(from_parties[1].clone(), a);
            }
        }
    }
    let sem = super::sem::Sem::new(&g.prog, &w);
    let mut inputs = BTreeMap::new();
    let mut counter = 0u8;
    // hostile correlation: UTxOs created by one transaction (same id, different output index), with
    // indices on both sides of the one-byte / two-byte boundaries
    let shared_txids = rng.chance(1, 3);
    let mut txids_seen: Vec<Vec<u8>> = vec![];
    let mut all_refs: Vec<(Vec<u8>, u64)> = vec![];
    let mut used_refs: Vec<(Vec<u8>, u64)> = vec![];
    for (name, datum_ty, many) in &g.txs[ti].inputs {
        let block = tx.inputs.iter().find(|i| i.name == *name).unwrap();
        let n = if *many { 1 + rng.usize(3) } else { 1 };
        let address = match &block.from {
            Some(e) => match sem.eval(e) {
                Ok(V::Address(a)) => a,
                _ => rand_address(rng, false, None),
            },
            None => rand_address(rng, false, None),
        };
        let mut us = vec![];
        for k in 0..n {
            counter += 1;
            let mut assets = Assets::new();
            let lovelace = if cfg.boundary_ints && rng.chance(1, 3) { rng.range(0, 3_000_000) } else { rng.range(20_000_000, 900_000_000) };
            if lovelace != 0 {
                assets.insert(None, BigInt::from(lovelace));
            }
            for a in &g.prog.assets {
                if rng.chance(1, 3) {
                    assets.insert(Some((a.policy.clone(), a.asset_name.clone())), BigInt::from(rng.range(1, 5_000_000)));
                }
            }
            // tokens the template never mentions (what a wallet UTxO really looks like): whatever reads the
            // input as a value must carry them along; also another name under a declared policy and the
            // empty asset name
            if rng.chance(1, 4) {
                for _ in 0..1 + rng.usize(2) {
                    let policy = if !g.prog.assets.is_empty() && rng.chance(1, 3) { g.prog.assets[0].policy.clone() } else { rng.bytes(28) };
                    let name = match rng.below(3) {
                        0 => vec![],
                        1 => rng.bytes(32),
                        _ => {
                            let n = 1 + rng.usize(6);
                            rng.bytes(n)
                        }
                    };
                    assets.insert(Some((policy, name)), BigInt::from(rng.range(1, 1_000_000_000)));
                }
            }
            // the referenced UTxO when the block names one by literal / param
            // (two blocks naming the same reference must not be given the same UTxO: one UTxO is
            // never spent through two blocks)
            let mut fresh = |rng: &mut Rng| -> (Vec<u8>, u64) {
                if shared_txids {
                    for _ in 0..8 {
                        let txid = if !txids_seen.is_empty() && rng.chance(2, 3) { rng.pick(&txids_seen).clone() } else { fresh_txid(rng, counter) };
                        let index = *rng.pick(&[0u64, 1, 2, 3, 9, 10, 23, 24, 255, 256, 257, 300, 511, 512, 65_535, 65_536, 70_000]);
                        if !all_refs.contains(&(txid.clone(), index)) {
                            return (txid, index);
                        }
                    }
                }
                (fresh_txid(rng, counter), rng.below(6))
            };
            let (txid, index) = match (&block.rf, k) {
                (Some(e), 0) => match sem.eval(e) {
                    Ok(V::Refs(r)) if r.len() == 1 && !used_refs.contains(&r[0]) => {
                        used_refs.push(r[0].clone());
                        (r[0].0.clone(), r[0].1)
                    }
                    _ => fresh(rng),
                },
                _ => fresh(rng),
            };
            if !txids_seen.contains(&txid) {
                txids_seen.push(txid.clone());
            }
            all_refs.push((txid.clone(), index));
            us.push(UtxoV {
                txid,
                index,
                address: address.clone(),
                assets,
                datum: datum_ty.as_ref().map(|t| rand_value(g, t, rng, cfg.boundary_ints)),
            });
        }
        inputs.insert(name.to_lowercase(), us);
    }
    let collateral = if g.txs[ti].has_collateral {
        let mut assets = Assets::new();
        assets.insert(None, BigInt::from(rng.range(5_000_000, 50_000_000)));
        // one UTxO usually; now and then several (a set: its members must come out in one canonical order)
        let n = if rng.chance(1, 4) { 2 + rng.usize(3) } else { 1 };
        let address = rand_address(rng, false, None);
        (0..n)
            .map(|k| {
                let mut a = assets.clone();
                if k > 0 {
                    a.insert(None, BigInt::from(rng.range(5_000_000, 50_000_000)));
                }
                UtxoV { txid: fresh_txid(rng, 250 - k as u8), index: rng.below(3), address: address.clone(), assets: a, datum: None }
            })
            .collect()
    } else {
        vec![]
    };
    drop(sem);
    if cfg.share_utxo_between_blocks && inputs.len() >= 2 && rng.chance(1, 12) {
        let keys: Vec<String> = inputs.keys().cloned().collect();
        let shared = inputs[&keys[0]][0].clone();
        inputs.get_mut(&keys[1]).unwrap()[0] = shared;
    }
    w.inputs = inputs;
    w.collateral = collateral;
    w
}

fn fresh_txid(rng: &mut Rng, counter: u8) -> Vec<u8> {
    let mut t = rng.bytes(32);
    // distinct within a world; the first byte is random so that every relative order occurs
    t[31] = counter;
    t
}

// ---------------------------------------------------------------------------------------------
// bech32 (BIP-173) encoder for address literals

const CHARSET: &[u8] = b"qpzry9x8gf2tvdw0s3jn54khce6mua7l";

fn polymod(values: &[u8]) -> u32 {
    const GEN: [u32; 5] = [0x3b6a57b2, 0x26508e6d, 0x1ea119fa, 0x3d4233dd, 0x2a1462b3];
    let mut chk: u32 = 1;
    for v in values {
        let b = chk >> 25;
        chk = ((chk & 0x1ffffff) << 5) ^ (*v as u32);
        for (i, g) in GEN.iter().enumerate() {
            if (b >> i) & 1 == 1 {
                chk ^= g;
            }
        }
    }
    chk
}

pub fn bech32_encode(hrp: &str, data: &[u8]) -> String {
    let mut five = vec![];
    let mut acc: u32 = 0;
    let mut bits = 0;
    for b in data {
        acc = (acc << 8) | *b as u32;
        bits += 8;
        while bits >= 5 {
            bits -= 5;
            five.push(((acc >> bits) & 31) as u8);
        }
    }
    if bits > 0 {
        five.push(((acc << (5 - bits)) & 31) as u8);
    }
    let mut values: Vec<u8> = hrp.bytes().map(|c| c >> 5).collect();
    values.push(0);
    values.extend(hrp.bytes().map(|c| c & 31));
    values.extend(&five);
    values.extend([0u8; 6]);
    let pm = polymod(&values) ^ 1;
    let mut out = format!("{hrp}1");
    for v in &five {
        out.push(CHARSET[*v as usize] as char);
    }
    for i in 0..6 {
        out.push(CHARSET[((pm >> (5 * (5 - i))) & 31) as usize] as char);
    }
    out
}
