pub mod ast;
pub mod build;
pub mod mutate;
pub mod sem;
