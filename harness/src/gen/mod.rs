pub mod ast;
pub mod build;
pub mod sem;
