//! The generator's own syntax tree `G` and its printer (layouts, trailing commas).
//! Nothing here depends on the repo's AST.

use crate::rng::Rng;

#[derive(Clone, Debug, PartialEq, Eq)]
pub enum Ty {
    Int,
    Bytes,
    Bool,
    Address,
    UtxoRef,
    Unit,
    AnyAsset,
    List(Box<Ty>),
    Map(Box<Ty>, Box<Ty>),
    Custom(String),
}

#[derive(Clone, Debug)]
pub enum PolicyForm {
    /// `policy N = 0x..;`
    Assign,
    /// `policy N { hash: 0x.., script: 0x.., ref: 0x..#i, }`
    Ctor { script: Option<Vec<u8>>, rf: Option<(Vec<u8>, u64)> },
    /// `policy N { <raw field list> }` for shapes the semantics does not model (mutators)
    RawCtor(String),
}

#[derive(Clone, Debug)]
pub struct Policy {
    pub name: String,
    pub hash: Vec<u8>,
    pub form: PolicyForm,
}

#[derive(Clone, Debug)]
pub struct Asset {
    pub name: String,
    pub policy: Vec<u8>,
    pub asset_name: Vec<u8>,
    /// print the name as a "string" literal (must be printable ascii without quotes) or as hex
    pub name_as_string: bool,
    /// mutants only: source text written in place of the policy literal / of the asset name
    pub raw_policy: Option<String>,
    pub raw_asset_name: Option<String>,
}

#[derive(Clone, Debug)]
pub struct Case {
    pub name: String,
    pub fields: Vec<(String, Ty)>,
}

#[derive(Clone, Debug)]
pub struct TypeDef {
    pub name: String,
    /// `type N { f: T, }` (single implicit case "Default") vs variant form
    pub record: bool,
    pub cases: Vec<Case>,
}

/// Expressions. Variants that print as a bare identifier carry what the identifier *means* at the
/// position the generator put it (the reference semantics needs no scope analysis of its own).
#[derive(Clone, Debug)]
pub enum E {
    Int(i128),
    Hex(Vec<u8>),
    Str(String),
    Bool(bool),
    Unit,
    /// tx parameter / env variable (value looked up by lower-cased name)
    Param(String),
    /// party name (Address argument)
    Party(String),
    /// reference to a local; carries the local's expression (evaluated at the use site)
    Local(String, Box<E>),
    /// input name in a value position: sum of the values of its UTxOs
    InputValue(String),
    /// input name in a data position: datum of its single UTxO
    InputDatum(String),
    /// policy name in an address position: enterprise script address
    PolicyAddr(String),
    /// policy name elsewhere: its hash
    PolicyHash(String),
    Fees,
    Add(Box<E>, Box<E>),
    Sub(Box<E>, Box<E>),
    Neg(Box<E>),
    Paren(Box<E>),
    /// record field access `e.f`; (operand, field name, index of the field in the definition)
    Prop(Box<E>, String, usize),
    /// list index `e[i]`
    Index(Box<E>, Box<E>),
    Concat(Box<E>, Box<E>),
    List(Vec<E>),
    Map(Vec<(E, E)>),
    Struct {
        ty: String,
        /// None => implicit (record) form
        case: Option<String>,
        /// index of the case among the type's cases, and the case's field names in definition order
        case_index: usize,
        def_fields: Vec<String>,
        fields: Vec<(String, E)>,
        spread: Option<Box<E>>,
    },
    Ada(Box<E>),
    /// `A(n)` for a declared asset A
    AssetCall(String, Box<E>),
    AnyAsset(Box<E>, Box<E>, Box<E>),
    TipSlot,
    SlotToTime(Box<E>),
    TimeToSlot(Box<E>),
    MinUtxo(String),
    UtxoRef(Vec<u8>, u64),
    /// raw source text for shapes the semantics does not model (mutators, C12/C13/C14)
    Raw(String),
}

#[derive(Clone, Debug, Default)]
pub struct Input {
    pub name: String,
    pub many: bool,
    pub from: Option<E>,
    pub min_amount: Option<E>,
    pub rf: Option<E>,
    pub datum_is: Option<Ty>,
    pub redeemer: Option<E>,
}

#[derive(Clone, Debug, Default)]
pub struct Collateral {
    pub from: Option<E>,
    pub min_amount: Option<E>,
    pub rf: Option<E>,
}

#[derive(Clone, Debug, Default)]
pub struct Output {
    pub name: Option<String>,
    pub optional: bool,
    pub to: Option<E>,
    pub amount: Option<E>,
    pub datum: Option<E>,
}

#[derive(Clone, Debug)]
pub struct MintBlock {
    pub amount: E,
    pub redeemer: Option<E>,
}

#[derive(Clone, Debug)]
pub enum Cardano {
    Withdrawal { from: E, amount: E, redeemer: Option<E> },
    TreasuryDonation { coin: E },
    VoteDelegation { drep: E, stake: E },
    PlutusWitness { version: E, script: E },
    NativeWitness { script: E },
    Publish { name: Option<String>, to: E, amount: E, datum: Option<E>, version: E, script: E },
}

#[derive(Clone, Debug, Default)]
pub struct TxDef {
    pub name: String,
    pub params: Vec<(String, Ty)>,
    pub locals: Vec<(String, E)>,
    pub references: Vec<(String, E)>,
    pub inputs: Vec<Input>,
    pub collateral: Option<Collateral>,
    pub mints: Vec<MintBlock>,
    pub burns: Vec<MintBlock>,
    pub outputs: Vec<Output>,
    pub validity: Option<(Option<E>, Option<E>)>,
    pub signers: Option<Vec<E>>,
    pub metadata: Vec<(E, E)>,
    pub cardano: Vec<Cardano>,
    /// order in which the body blocks are printed (indices into a canonical block list); empty => default
    pub block_order_seed: u64,
}

#[derive(Clone, Debug, Default)]
pub struct Program {
    pub env: Vec<(String, Ty)>,
    pub parties: Vec<String>,
    pub policies: Vec<Policy>,
    pub assets: Vec<Asset>,
    pub types: Vec<TypeDef>,
    pub txs: Vec<TxDef>,
    /// feature tags attached by the generator
    pub tags: Vec<String>,
}

// ---------------------------------------------------------------------------------------------
// printer

/// Layout = how implicit whitespace / comments / trailing commas are chosen.
pub struct Layout {
    rng: Option<Rng>,
    pub comments: bool,
}

impl Layout {
    /// one space / newline, no comments
    pub fn plain() -> Self {
        Layout { rng: None, comments: false }
    }
    pub fn random(seed: u64) -> Self {
        Layout { rng: Some(Rng::new(seed)), comments: true }
    }
    /// optional whitespace position
    fn ows(&mut self) -> String {
        match &mut self.rng {
            None => String::new(),
            Some(r) => match r.below(6) {
                0 | 1 | 2 => String::new(),
                _ => Self::blob(r, self.comments),
            },
        }
    }
    /// mandatory separator between two alphanumeric tokens
    fn sp(&mut self) -> String {
        match &mut self.rng {
            None => " ".into(),
            Some(r) => {
                let s = Self::blob(r, self.comments);
                if s.is_empty() {
                    " ".into()
                } else {
                    s
                }
            }
        }
    }
    fn nl(&mut self) -> String {
        match &mut self.rng {
            None => "\n".into(),
            Some(r) => match r.below(3) {
                0 => "\n".into(),
                1 => " ".into(),
                _ => Self::blob(r, self.comments),
            },
        }
    }
    fn blob(r: &mut Rng, comments: bool) -> String {
        let mut s = String::new();
        for _ in 0..1 + r.below(3) {
            match r.below(if comments { 9 } else { 6 }) {
                0 | 1 | 2 => s.push(' '),
                3 => s.push('\n'),
                4 => s.push('\t'),
                5 => s.push_str("\r\n"),
                6 => s.push_str("// c\u{e9}mment, { tx } \"\n"),
                7 => s.push_str("/* multi\n line ; } */"),
                _ => s.push_str("/**/ "),
            }
        }
        s
    }
    /// trailing comma where the grammar makes it optional
    fn opt_comma(&mut self) -> bool {
        match &mut self.rng {
            None => false,
            Some(r) => r.bool(),
        }
    }
}

pub fn hex(b: &[u8]) -> String {
    format!("0x{}", ::hex::encode(b))
}

pub fn print_ty(t: &Ty) -> String {
    match t {
        Ty::Int => "Int".into(),
        Ty::Bytes => "Bytes".into(),
        Ty::Bool => "Bool".into(),
        Ty::Address => "Address".into(),
        Ty::UtxoRef => "UtxoRef".into(),
        Ty::AnyAsset => "AnyAsset".into(),
        Ty::Unit => "Int".into(), // no surface syntax for the unit type; never used as a declared type
        Ty::List(t) => format!("List<{}>", print_ty(t)),
        Ty::Map(k, v) => format!("Map<{},{}>", print_ty(k), print_ty(v)),
        Ty::Custom(n) => n.clone(),
    }
}

pub struct Printer {
    pub l: Layout,
    pub out: String,
}

impl Printer {
    pub fn new(l: Layout) -> Self {
        Printer { l, out: String::new() }
    }

    fn tok(&mut self, s: &str) {
        let w = self.l.ows();
        self.out.push_str(&w);
        self.out.push_str(s);
    }
    /// keyword followed by a mandatory separator
    fn kw(&mut self, s: &str) {
        let w = self.l.ows();
        self.out.push_str(&w);
        self.out.push_str(s);
        let sp = self.l.sp();
        self.out.push_str(&sp);
    }
    fn raw(&mut self, s: &str) {
        self.out.push_str(s);
    }
    fn nl(&mut self) {
        let n = self.l.nl();
        self.out.push_str(&n);
    }

    pub fn expr(&mut self, e: &E) {
        match e {
            E::Int(n) => {
                let w = self.l.ows();
                self.out.push_str(&w);
                // a leading '-' directly after an infix operator is fine: `a - -1`
                self.out.push_str(&n.to_string());
            }
            E::Hex(b) => self.tok(&hex(b)),
            E::Str(s) => self.tok(&format!("\"{s}\"")),
            E::Bool(b) => self.tok(if *b { "true" } else { "false" }),
            E::Unit => self.tok("()"),
            E::Param(n) | E::Party(n) | E::InputValue(n) | E::InputDatum(n) | E::PolicyAddr(n) | E::PolicyHash(n) => self.tok(n),
            E::Local(n, _) => self.tok(n),
            E::Fees => self.tok("fees"),
            E::Add(a, b) => {
                self.expr(a);
                self.tok("+");
                self.expr(b);
            }
            E::Sub(a, b) => {
                self.expr(a);
                self.tok("-");
                // `a - -1` needs no separator, but `a -- 1`... keep one space so that a comment
                // start "//" or a double minus can never be formed by accident
                self.raw(" ");
                self.expr(b);
            }
            E::Neg(a) => {
                self.tok("!");
                self.expr(a);
            }
            E::Paren(a) => {
                self.tok("(");
                self.expr(a);
                self.tok(")");
            }
            E::Prop(a, f, _) => {
                self.expr(a);
                self.tok(".");
                self.tok(f);
            }
            E::Index(a, i) => {
                self.expr(a);
                self.tok("[");
                self.expr(i);
                self.tok("]");
            }
            E::Concat(a, b) => {
                self.tok("concat");
                self.tok("(");
                self.expr(a);
                self.tok(",");
                self.expr(b);
                self.tok(")");
            }
            E::List(xs) => {
                self.tok("[");
                for (i, x) in xs.iter().enumerate() {
                    self.expr(x);
                    if i + 1 < xs.len() || self.l.opt_comma() {
                        self.tok(",");
                    }
                }
                self.tok("]");
            }
            E::Map(kvs) => {
                self.tok("{");
                for (k, v) in kvs {
                    self.expr(k);
                    self.tok(":");
                    self.expr(v);
                    self.tok(",");
                }
                self.tok("}");
            }
            E::Struct { ty, case, fields, spread, .. } => {
                self.tok(ty);
                if let Some(c) = case {
                    self.tok("::");
                    self.tok(c);
                }
                self.tok("{");
                for (f, v) in fields {
                    self.tok(f);
                    self.tok(":");
                    self.expr(v);
                    self.tok(",");
                }
                if let Some(s) = spread {
                    self.tok("...");
                    self.expr(s);
                }
                self.tok("}");
            }
            E::Ada(n) => self.call("Ada", &[n]),
            E::AssetCall(a, n) => self.call(a, &[n]),
            E::AnyAsset(p, n, q) => {
                self.tok("AnyAsset");
                self.tok("(");
                self.expr(p);
                self.tok(",");
                self.expr(n);
                self.tok(",");
                self.expr(q);
                self.tok(")");
            }
            E::TipSlot => self.call("tip_slot", &[]),
            E::SlotToTime(x) => self.call("slot_to_time", &[x]),
            E::TimeToSlot(x) => self.call("time_to_slot", &[x]),
            E::MinUtxo(o) => {
                self.tok("min_utxo");
                self.tok("(");
                self.tok(o);
                self.tok(")");
            }
            E::UtxoRef(txid, ix) => self.tok(&format!("{}#{}", hex(txid), ix)),
            E::Raw(s) => self.tok(s),
        }
    }

    fn call(&mut self, name: &str, args: &[&Box<E>]) {
        self.tok(name);
        self.tok("(");
        for (i, a) in args.iter().enumerate() {
            self.expr(a);
            if i + 1 < args.len() || (!args.is_empty() && self.l.opt_comma()) {
                self.tok(",");
            }
        }
        self.tok(")");
    }

    fn field(&mut self, key: &str, e: &E) {
        self.tok(key);
        self.tok(":");
        self.expr(e);
        self.tok(",");
        self.nl();
    }

    fn params(&mut self, ps: &[(String, Ty)]) {
        self.tok("(");
        for (i, (n, t)) in ps.iter().enumerate() {
            self.tok(n);
            self.tok(":");
            self.tok(&print_ty(t));
            if i + 1 < ps.len() || self.l.opt_comma() {
                self.tok(",");
            }
        }
        self.tok(")");
    }

    fn record_fields(&mut self, fs: &[(String, Ty)]) {
        self.tok("{");
        for (n, t) in fs {
            self.tok(n);
            self.tok(":");
            self.tok(&print_ty(t));
            self.tok(",");
        }
        self.tok("}");
    }

    pub fn program(&mut self, p: &Program) {
        if !p.env.is_empty() {
            self.tok("env");
            self.tok("{");
            for (n, t) in &p.env {
                self.tok(n);
                self.tok(":");
                self.tok(&print_ty(t));
                self.tok(",");
            }
            self.tok("}");
            self.nl();
        }
        for n in &p.parties {
            self.kw("party");
            self.raw(n);
            self.tok(";");
            self.nl();
        }
        for pol in &p.policies {
            self.kw("policy");
            self.raw(&pol.name);
            match &pol.form {
                PolicyForm::Assign => {
                    self.tok("=");
                    self.tok(&hex(&pol.hash));
                    self.tok(";");
                }
                PolicyForm::RawCtor(fields) => {
                    self.tok("{");
                    self.tok(fields);
                    self.tok("}");
                }
                PolicyForm::Ctor { script, rf } => {
                    self.tok("{");
                    self.tok("hash");
                    self.tok(":");
                    self.tok(&hex(&pol.hash));
                    self.tok(",");
                    if let Some(s) = script {
                        self.tok("script");
                        self.tok(":");
                        self.tok(&hex(s));
                        self.tok(",");
                    }
                    if let Some((t, i)) = rf {
                        self.tok("ref");
                        self.tok(":");
                        self.tok(&format!("{}#{}", hex(t), i));
                        self.tok(",");
                    }
                    self.tok("}");
                }
            }
            self.nl();
        }
        for a in &p.assets {
            self.kw("asset");
            self.raw(&a.name);
            self.tok("=");
            match &a.raw_policy {
                Some(r) => self.raw(r),
                None => self.tok(&hex(&a.policy)),
            }
            self.tok(".");
            if let Some(r) = &a.raw_asset_name {
                self.raw(r);
            } else if a.name_as_string {
                self.tok(&format!("\"{}\"", String::from_utf8_lossy(&a.asset_name)));
            } else {
                self.tok(&hex(&a.asset_name));
            }
            self.tok(";");
            self.nl();
        }
        for t in &p.types {
            self.kw("type");
            self.raw(&t.name);
            if t.record {
                self.record_fields(&t.cases[0].fields);
            } else {
                self.tok("{");
                for c in &t.cases {
                    self.tok(&c.name);
                    if !c.fields.is_empty() {
                        self.record_fields(&c.fields);
                    }
                    self.tok(",");
                }
                self.tok("}");
            }
            self.nl();
        }
        for tx in &p.txs {
            self.tx(tx);
        }
    }

    fn tx(&mut self, tx: &TxDef) {
        self.kw("tx");
        self.raw(&tx.name);
        self.params(&tx.params);
        self.tok("{");
        self.nl();
        // block kinds: 0 locals 1 references 2 inputs 3 collateral 4 mints 5 burns 6 outputs
        // 7 validity 8 signers 9 metadata 10 cardano. Relative order *within* a kind is kept
        // (outputs are positional); the order of kinds is free.
        let mut kinds: Vec<usize> = (0..11).collect();
        if tx.block_order_seed != 0 {
            let mut r = Rng::new(tx.block_order_seed);
            r.shuffle(&mut kinds);
        }
        for k in kinds {
            match k {
                0 => {
                    if !tx.locals.is_empty() {
                        self.tok("locals");
                        self.tok("{");
                        for (n, e) in &tx.locals {
                            self.field(n, e);
                        }
                        self.tok("}");
                        self.nl();
                    }
                }
                1 => {
                    for (n, e) in &tx.references {
                        self.kw("reference");
                        self.raw(n);
                        self.tok("{");
                        self.field("ref", e);
                        self.tok("}");
                        self.nl();
                    }
                }
                2 => {
                    for i in &tx.inputs {
                        self.tok("input");
                        if i.many {
                            self.tok("*");
                            self.tok(&i.name);
                        } else {
                            let s = self.l.sp();
                            self.raw(&s);
                            self.raw(&i.name);
                        }
                        self.tok("{");
                        if let Some(e) = &i.from {
                            self.field("from", e);
                        }
                        if let Some(t) = &i.datum_is {
                            self.tok("datum_is");
                            self.tok(":");
                            self.tok(&print_ty(t));
                            self.tok(",");
                        }
                        if let Some(e) = &i.min_amount {
                            self.field("min_amount", e);
                        }
                        if let Some(e) = &i.rf {
                            self.field("ref", e);
                        }
                        if let Some(e) = &i.redeemer {
                            self.field("redeemer", e);
                        }
                        self.tok("}");
                        self.nl();
                    }
                }
                3 => {
                    if let Some(c) = &tx.collateral {
                        self.tok("collateral");
                        self.tok("{");
                        if let Some(e) = &c.from {
                            self.field("from", e);
                        }
                        if let Some(e) = &c.min_amount {
                            self.field("min_amount", e);
                        }
                        if let Some(e) = &c.rf {
                            self.field("ref", e);
                        }
                        self.tok("}");
                        self.nl();
                    }
                }
                4 | 5 => {
                    let (kw, blocks) = if k == 4 { ("mint", &tx.mints) } else { ("burn", &tx.burns) };
                    for m in blocks {
                        self.tok(kw);
                        self.tok("{");
                        self.field("amount", &m.amount);
                        if let Some(r) = &m.redeemer {
                            self.field("redeemer", r);
                        }
                        self.tok("}");
                        self.nl();
                    }
                }
                6 => {
                    for o in &tx.outputs {
                        self.tok("output");
                        if o.optional {
                            self.tok("?");
                        }
                        if let Some(n) = &o.name {
                            if o.optional {
                                self.tok(n);
                            } else {
                                let s = self.l.sp();
                                self.raw(&s);
                                self.raw(n);
                            }
                        }
                        self.tok("{");
                        if let Some(e) = &o.to {
                            self.field("to", e);
                        }
                        if let Some(e) = &o.amount {
                            self.field("amount", e);
                        }
                        if let Some(e) = &o.datum {
                            self.field("datum", e);
                        }
                        self.tok("}");
                        self.nl();
                    }
                }
                7 => {
                    if let Some((since, until)) = &tx.validity {
                        self.tok("validity");
                        self.tok("{");
                        if let Some(e) = since {
                            self.field("since_slot", e);
                        }
                        if let Some(e) = until {
                            self.field("until_slot", e);
                        }
                        self.tok("}");
                        self.nl();
                    }
                }
                8 => {
                    if let Some(s) = &tx.signers {
                        self.tok("signers");
                        self.tok("{");
                        for e in s {
                            self.expr(e);
                            self.tok(",");
                        }
                        self.tok("}");
                        self.nl();
                    }
                }
                9 => {
                    if !tx.metadata.is_empty() {
                        self.tok("metadata");
                        self.tok("{");
                        for (k, v) in &tx.metadata {
                            self.expr(k);
                            self.tok(":");
                            self.expr(v);
                            self.tok(",");
                        }
                        self.tok("}");
                        self.nl();
                    }
                }
                _ => {
                    for c in &tx.cardano {
                        self.tok("cardano");
                        self.tok("::");
                        match c {
                            Cardano::Withdrawal { from, amount, redeemer } => {
                                self.tok("withdrawal");
                                self.tok("{");
                                self.field("from", from);
                                self.field("amount", amount);
                                if let Some(r) = redeemer {
                                    self.field("redeemer", r);
                                }
                                self.tok("}");
                            }
                            Cardano::TreasuryDonation { coin } => {
                                self.tok("treasury_donation");
                                self.tok("{");
                                self.field("coin", coin);
                                self.tok("}");
                            }
                            Cardano::VoteDelegation { drep, stake } => {
                                self.tok("vote_delegation_certificate");
                                self.tok("{");
                                self.field("drep", drep);
                                self.field("stake", stake);
                                self.tok("}");
                            }
                            Cardano::PlutusWitness { version, script } => {
                                self.tok("plutus_witness");
                                self.tok("{");
                                self.field("version", version);
                                self.field("script", script);
                                self.tok("}");
                            }
                            Cardano::NativeWitness { script } => {
                                self.tok("native_witness");
                                self.tok("{");
                                self.field("script", script);
                                self.tok("}");
                            }
                            Cardano::Publish { name, to, amount, datum, version, script } => {
                                self.tok("publish");
                                if let Some(n) = name {
                                    let s = self.l.sp();
                                    self.raw(&s);
                                    self.raw(n);
                                }
                                self.tok("{");
                                self.field("to", to);
                                self.field("amount", amount);
                                if let Some(d) = datum {
                                    self.field("datum", d);
                                }
                                self.field("version", version);
                                self.field("script", script);
                                self.tok("}");
                            }
                        }
                        self.nl();
                    }
                }
            }
        }
        self.tok("}");
        self.nl();
    }
}

pub fn print_program(p: &Program, layout: Layout) -> String {
    let mut pr = Printer::new(layout);
    pr.program(p);
    pr.out
}

pub fn print_expr(e: &E) -> String {
    let mut pr = Printer::new(Layout::plain());
    pr.expr(e);
    pr.out
}
