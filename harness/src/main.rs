//! tx3-verif: runtime monitors for the tx3 properties C01..C20 (see /verif/DESIGN.md).

#![allow(clippy::too_many_arguments)]
#![allow(clippy::type_complexity)]
#![allow(unexpected_cfgs)]

mod canon;
mod decode;
mod env;
mod framework;
mod gen;
mod grammar;
mod panics;
mod pipeline;
mod props;
mod rng;
mod structural;
mod tirgen;

use framework::{Env, Tier};

fn arg_after(args: &[String], flag: &str) -> Option<String> {
    args.iter().position(|a| a == flag).and_then(|i| args.get(i + 1).cloned())
}

fn usage() -> ! {
    eprintln!(
        "usage:\n  tx3-verif check <ID> --tier quick|thorough [--seed N]\n  tx3-verif replay <ID> <file>\n  tx3-verif worker <ID> ... (internal)\n  tx3-verif list"
    );
    std::process::exit(2)
}

fn main() {
    let args: Vec<String> = std::env::args().collect();
    if args.len() < 2 {
        usage();
    }
    match args[1].as_str() {
        "list" => {
            for p in props::all() {
                println!("{}", p.id());
            }
        }
        "gen" => {
            // debug aid: print the program generated for (property, phase, idx, seed)
            let id = args.get(2).cloned().unwrap_or_else(|| usage());
            let phase = args.get(3).cloned().unwrap_or_else(|| usage());
            let idx: u64 = args.get(4).and_then(|s| s.parse().ok()).unwrap_or(0);
            let seed: u64 = args.get(5).and_then(|s| s.parse().ok()).unwrap_or(1);
            let mut rng = rng::Rng::for_case(seed, &id, &phase, idx);
            if id == "C19" && idx % 4 == 0 {
                if let Ok(g) = props::c12::grammar() {
                    println!("{}", g.program(&mut rng, 6 + (idx % 7) as u32));
                }
                return;
            }
            if id == "C12" && phase == "grammar" {
                match props::c12::grammar() {
                    Ok(g) => println!("{}", g.program(&mut rng, 6 + (idx % 7) as u32)),
                    Err(e) => eprintln!("{e}"),
                }
                return;
            }
            let cfg = gen::build::Cfg::default();
            eprintln!("generating...");
            let g = gen::build::generate(&mut rng, &cfg);
            eprintln!("printing...");
            println!("{}", gen::ast::print_program(&g.prog, gen::ast::Layout::plain()));
            eprintln!("tags: {:?}", g.prog.tags);
        }
        "lower-bytes" => {
            let path = args.get(2).cloned().unwrap_or_else(|| usage());
            props::c18::lower_bytes_cli(&path);
        }
        "compile-batch" => {
            // one line per template: "<network> <tir hex>"; prints the payload hex (or ERR ...) per line
            use tx3_tir::compile::Compiler as _;
            let path = args.get(2).cloned().unwrap_or_else(|| usage());
            let text = std::fs::read_to_string(&path).unwrap_or_default();
            panics::install_hook();
            for line in text.lines() {
                let mut it = line.splitn(2, ' ');
                let net = it.next().unwrap_or("0");
                let hexs = it.next().unwrap_or("");
                let out = panics::catch(|| {
                    let bytes = hex::decode(hexs).map_err(|e| e.to_string())?;
                    let t = tx3_tir::encoding::from_bytes(&bytes, tx3_tir::encoding::TirVersion::V1Beta0).map_err(|e| e.to_string())?;
                    let pp = env::PP { mainnet: net == "1", ..Default::default() };
                    let mut c = env::compiler(&pp);
                    c.compile(&t).map(|c| hex::encode(c.payload)).map_err(|e| e.to_string())
                });
                match out {
                    Ok(Ok(h)) => println!("{h}"),
                    Ok(Err(e)) => println!("ERR {}", e.replace('\n', " ")),
                    Err(p) => println!("PANIC {}", p.message.replace('\n', " ")),
                }
            }
        }
        "check" => {
            let id = args.get(2).cloned().unwrap_or_else(|| usage());
            let Some(prop) = props::lookup(&id) else {
                eprintln!("unknown property {id}");
                std::process::exit(2)
            };
            let tier = arg_after(&args, "--tier")
                .or_else(|| std::env::var("VERIF_TIER").ok())
                .and_then(|s| Tier::parse(&s))
                .unwrap_or(Tier::Quick);
            let seed = arg_after(&args, "--seed")
                .or_else(|| std::env::var("VERIF_SEED").ok())
                .and_then(|s| s.parse::<u64>().ok())
                .unwrap_or(1);
            let env = Env::from_env();
            let out = framework::run_check(prop.as_ref(), tier, seed, &env, None);
            std::process::exit(out.exit);
        }
        "replay" => {
            let id = args.get(2).cloned().unwrap_or_else(|| usage());
            let path = args.get(3).cloned().unwrap_or_else(|| usage());
            let Some(prop) = props::lookup(&id) else {
                eprintln!("unknown property {id}");
                std::process::exit(2)
            };
            let text = std::fs::read_to_string(&path).unwrap_or_else(|e| {
                eprintln!("cannot read {path}: {e}");
                std::process::exit(2)
            });
            let v: serde_json::Value = serde_json::from_str(&text).unwrap_or_else(|e| {
                eprintln!("cannot parse {path}: {e}");
                std::process::exit(2)
            });
            let tier = v["tier"].as_str().and_then(Tier::parse).unwrap_or(Tier::Quick);
            let seed = v["seed"].as_u64().unwrap_or(1);
            let phase = v["phase"].as_str().unwrap_or("").to_string();
            let idx = v["idx"].as_u64().unwrap_or(0);
            let env = Env::from_env();
            let out = framework::run_check(prop.as_ref(), tier, seed, &env, Some((phase, idx)));
            std::process::exit(out.exit);
        }
        "miri-shard" => {
            // tx3-verif miri-shard <ID> <phase> <from> <to> <step> <seed> <tier>   (runs inside Miri)
            let id = args.get(2).cloned().unwrap_or_else(|| usage());
            let Some(prop) = props::lookup(&id) else { std::process::exit(2) };
            let phase = args.get(3).cloned().unwrap_or_else(|| usage());
            let num = |i: usize| args.get(i).and_then(|s| s.parse::<u64>().ok()).unwrap_or(0);
            let tier = args.get(8).and_then(|s| Tier::parse(s)).unwrap_or(Tier::Quick);
            let code = framework::run_inproc_shard(prop.as_ref(), tier, num(7), &phase, num(4), num(5), num(6).max(1));
            std::process::exit(code);
        }
        "worker" => {
            let id = args.get(2).cloned().unwrap_or_else(|| usage());
            let Some(prop) = props::lookup(&id) else {
                std::process::exit(2)
            };
            let tier = arg_after(&args, "--tier").and_then(|s| Tier::parse(&s)).unwrap();
            let seed: u64 = arg_after(&args, "--seed").unwrap().parse().unwrap();
            let phase_name = arg_after(&args, "--phase").unwrap();
            let from: u64 = arg_after(&args, "--from").unwrap().parse().unwrap();
            let to: u64 = arg_after(&args, "--to").unwrap().parse().unwrap();
            let step: u64 = arg_after(&args, "--step").unwrap().parse().unwrap();
            let budget: u64 = arg_after(&args, "--budget-ms").unwrap().parse().unwrap();
            let out = std::path::PathBuf::from(arg_after(&args, "--out").unwrap());
            let skip: Vec<u64> = arg_after(&args, "--skip")
                .unwrap_or_default()
                .split(',')
                .filter_map(|s| s.parse().ok())
                .collect();
            let phases = prop.phases(tier);
            let Some(phase) = phases.iter().find(|p| p.name == phase_name) else {
                eprintln!("unknown phase {phase_name}");
                std::process::exit(2)
            };
            let code = framework::run_worker(prop.as_ref(), tier, seed, phase, from, to, step.max(1), &out, budget, &skip);
            std::process::exit(code);
        }
        _ => usage(),
    }
}
