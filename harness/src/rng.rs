//! Deterministic PRNG (SplitMix64 seeding a xoshiro256**), no external crate.

#[derive(Clone, Debug)]
pub struct Rng {
    s: [u64; 4],
}

pub fn splitmix(x: &mut u64) -> u64 {
    *x = x.wrapping_add(0x9E3779B97F4A7C15);
    let mut z = *x;
    z = (z ^ (z >> 30)).wrapping_mul(0xBF58476D1CE4E5B9);
    z = (z ^ (z >> 27)).wrapping_mul(0x94D049BB133111EB);
    z ^ (z >> 31)
}

/// FNV-1a over bytes, used for stable hashing of strings (case hashes, ids).
pub fn fnv64(bytes: &[u8]) -> u64 {
    let mut h: u64 = 0xcbf29ce484222325;
    for b in bytes {
        h ^= *b as u64;
        h = h.wrapping_mul(0x100000001b3);
    }
    h
}

pub fn mix(a: u64, b: u64) -> u64 {
    let mut x = a ^ b.rotate_left(32) ^ 0xD6E8FEB86659FD93;
    splitmix(&mut x)
}

impl Rng {
    pub fn new(seed: u64) -> Self {
        let mut x = seed;
        let s = [
            splitmix(&mut x),
            splitmix(&mut x),
            splitmix(&mut x),
            splitmix(&mut x),
        ];
        Rng { s }
    }

    /// Case rng: hash(global seed, property id, phase, index).
    pub fn for_case(seed: u64, prop: &str, phase: &str, idx: u64) -> Self {
        let h = mix(mix(mix(seed, fnv64(prop.as_bytes())), fnv64(phase.as_bytes())), idx);
        Rng::new(h)
    }

    pub fn next_u64(&mut self) -> u64 {
        let result = self.s[1].wrapping_mul(5).rotate_left(7).wrapping_mul(9);
        let t = self.s[1] << 17;
        self.s[2] ^= self.s[0];
        self.s[3] ^= self.s[1];
        self.s[1] ^= self.s[2];
        self.s[0] ^= self.s[3];
        self.s[2] ^= t;
        self.s[3] = self.s[3].rotate_left(45);
        result
    }

    pub fn below(&mut self, n: u64) -> u64 {
        if n == 0 {
            return 0;
        }
        // bias is irrelevant here
        self.next_u64() % n
    }

    pub fn range(&mut self, lo: i64, hi_incl: i64) -> i64 {
        debug_assert!(hi_incl >= lo);
        let span = (hi_incl - lo) as u64 + 1;
        lo + self.below(span) as i64
    }

    pub fn usize(&mut self, n: usize) -> usize {
        self.below(n as u64) as usize
    }

    pub fn chance(&mut self, num: u64, den: u64) -> bool {
        self.below(den) < num
    }

    pub fn bool(&mut self) -> bool {
        self.next_u64() & 1 == 1
    }

    pub fn pick<'a, T>(&mut self, xs: &'a [T]) -> &'a T {
        &xs[self.usize(xs.len())]
    }

    pub fn bytes(&mut self, n: usize) -> Vec<u8> {
        let mut v = Vec::with_capacity(n);
        while v.len() < n {
            let x = self.next_u64().to_le_bytes();
            for b in x {
                if v.len() < n {
                    v.push(b);
                }
            }
        }
        v
    }

    pub fn shuffle<T>(&mut self, xs: &mut [T]) {
        for i in (1..xs.len()).rev() {
            let j = self.usize(i + 1);
            xs.swap(i, j);
        }
    }

    pub fn i128_any(&mut self) -> i128 {
        ((self.next_u64() as u128) << 64 | self.next_u64() as u128) as i128
    }

    /// Boundary-heavy integer distribution (see DESIGN C02).
    pub fn boundary_int(&mut self) -> i128 {
        const B: &[i128] = &[
            0,
            1,
            -1,
            23,
            24,
            255,
            256,
            65535,
            65536,
            1 << 31,
            -(1 << 31),
            (1 << 32) - 1,
            1 << 32,
            (1 << 63) - 1,
            1 << 63,
            -(1 << 63),
            -(1 << 63) - 1,
            (1 << 64) - 1,
            1 << 64,
            -(1 << 64),
            (1 << 64) + 1,
            -(1 << 64) - 1,
            i128::MAX,
            i128::MIN,
            i128::MAX - 1,
            i128::MIN + 1,
        ];
        match self.below(10) {
            0..=5 => {
                let b = *self.pick(B);
                let d = self.range(-2, 2) as i128;
                b.checked_add(d).unwrap_or(b)
            }
            6 | 7 => self.range(-1000, 1000) as i128,
            8 => self.next_u64() as i64 as i128,
            _ => self.i128_any(),
        }
    }
}
