//! Random well-formed TIR trees: every `Expression`, `Param`, `BuiltInOp`, `CompilerOp`, `Coerce`
//! and block variant (C11 round-trip, C14 totality, C06 walker coverage).

use crate::rng::Rng;
use std::collections::{HashMap, HashSet};
use tx3_tir::model::assets::CanonicalAssets;
use tx3_tir::model::core::{Type, Utxo, UtxoRef};
use tx3_tir::model::v1beta0::*;

pub struct TirGen {
    pub max_depth: u32,
    /// wide ints / constructor indexes etc.
    pub extreme: bool,
    /// names available for ExpectValue params (so that args can be supplied)
    pub param_names: Vec<(String, Type)>,
    pub utxo_counter: u32,
    /// inside the fields of an input query no further query is generated (a query nested in a
    /// query's own field is not reported by find_queries and not reachable from sensible programs)
    in_query: bool,
}

impl TirGen {
    pub fn new(max_depth: u32, extreme: bool) -> Self {
        TirGen {
            max_depth,
            extreme,
            param_names: vec![
                ("p_int".into(), Type::Int),
                ("p_bytes".into(), Type::Bytes),
                ("p_addr".into(), Type::Address),
                ("p_bool".into(), Type::Bool),
                ("p_ref".into(), Type::UtxoRef),
                ("p_any".into(), Type::Undefined),
                ("p_list".into(), Type::List),
                ("p_custom".into(), Type::Custom("Thing".into())),
            ],
            utxo_counter: 0,
            in_query: false,
        }
    }

    pub fn int(&self, rng: &mut Rng) -> i128 {
        if self.extreme {
            rng.boundary_int()
        } else {
            rng.range(-5, 2_000_000) as i128
        }
    }

    pub fn bytes(&self, rng: &mut Rng) -> Vec<u8> {
        let n = match rng.below(8) {
            0 => 0,
            1 => 28,
            2 => 32,
            3 => 29,
            4 => rng.usize(70),
            5 => {
                if self.extreme {
                    // incl. both sides of 4096 (ciborium's scratch buffer) and of 64 KiB
                    *rng.pick(&[100usize, 3000, 4095, 4096, 4097, 5000, 65_535, 65_536, 70_000])
                } else {
                    57
                }
            }
            _ => rng.usize(12),
        };
        rng.bytes(n)
    }

    pub fn string(&self, rng: &mut Rng) -> String {
        const POOL: &[&str] = &["", "a", "hello", "ünï©ødé ✓", "0x00", "txid#0", "addr_test1vq", "\u{0}", "\"quoted\"", "line\nbreak"];
        if rng.chance(1, 12) {
            // long text whose multi-byte characters fall on every byte alignment (what a fixed-width cut of a
            // message or of a Debug rendering lands in)
            let prefix = rng.usize(4);
            let unit = *rng.pick(&["日", "é", "€", "𝄞", "本語"]);
            let n = 60 + rng.usize(300);
            let mut t: String = "x".repeat(prefix);
            for _ in 0..n {
                t.push_str(unit);
            }
            t
        } else if rng.chance(1, 6) {
            let n = rng.usize(100);
            (0..n).map(|_| (b'a' + rng.below(26) as u8) as char).collect()
        } else {
            rng.pick(POOL).to_string()
        }
    }

    pub fn ty(&self, rng: &mut Rng) -> Type {
        match rng.below(12) {
            0 => Type::Undefined,
            1 => Type::Unit,
            2 => Type::Int,
            3 => Type::Bool,
            4 => Type::Bytes,
            5 => Type::Address,
            6 => Type::Utxo,
            7 => Type::UtxoRef,
            8 => Type::AnyAsset,
            9 => Type::List,
            10 => Type::Map,
            _ => Type::Custom(self.string(rng)),
        }
    }

    pub fn utxo_ref(&mut self, rng: &mut Rng) -> UtxoRef {
        self.utxo_counter += 1;
        let tlen = if rng.chance(1, 10) { rng.usize(40) } else { 32 };
        let mut txid = rng.bytes(tlen);
        // uniqueness of references inside one generated tree (UTxO identity = its reference)
        if txid.len() >= 4 {
            txid[..4].copy_from_slice(&self.utxo_counter.to_be_bytes());
        }
        UtxoRef {
            txid,
            index: if rng.chance(1, 8) { u32::MAX - rng.below(3) as u32 } else { self.utxo_counter + rng.below(4) as u32 },
        }
    }

    pub fn canonical_assets(&self, rng: &mut Rng) -> CanonicalAssets {
        let mut acc = CanonicalAssets::empty();
        for _ in 0..rng.usize(4) {
            let amount = if self.extreme { rng.boundary_int() >> 4 } else { rng.range(0, 5_000_000) as i128 };
            let v = match rng.below(4) {
                0 => CanonicalAssets::from_naked_amount(amount),
                1 => {
                    let nl = 1 + rng.usize(8);
                    CanonicalAssets::from_named_asset(&rng.bytes(nl), amount)
                }
                _ => {
                    let plen = if rng.chance(1, 8) { 1 + rng.usize(40) } else { 28 };
                    let nlen = rng.usize(33);
                    CanonicalAssets::from_defined_asset(&rng.bytes(plen), &rng.bytes(nlen), amount)
                }
            };
            acc = if acc.iter().count() == 0 && rng.chance(1, 5) { v } else { acc + v };
        }
        acc
    }

    pub fn utxo(&mut self, rng: &mut Rng, depth: u32) -> Utxo {
        Utxo {
            r#ref: self.utxo_ref(rng),
            address: self.bytes(rng),
            assets: self.canonical_assets(rng),
            datum: if rng.bool() { Some(self.data_expr(rng, depth + 2)) } else { None },
            script: if rng.chance(1, 5) { Some(Expression::Bytes(self.bytes(rng))) } else { None },
        }
    }

    pub fn utxo_set(&mut self, rng: &mut Rng, depth: u32) -> HashSet<Utxo> {
        let n = rng.usize(5);
        let mut v: Vec<Utxo> = (0..n).map(|_| self.utxo(rng, depth)).collect();
        // sibling outputs: several UTxOs created by one transaction (same id, different output index)
        if n >= 2 && rng.bool() {
            let txid = v[0].r#ref.txid.clone();
            let base = v[0].r#ref.index;
            for (k, u) in v.iter_mut().enumerate().skip(1) {
                if rng.chance(3, 4) {
                    u.r#ref.txid = txid.clone();
                    u.r#ref.index = base.wrapping_add(k as u32 * *rng.pick(&[1u32, 1, 255, 256, 65_536]));
                }
            }
        }
        v.into_iter().collect()
    }

    /// constant data expression (datum-like)
    pub fn data_expr(&mut self, rng: &mut Rng, depth: u32) -> Expression {
        let leaf = depth >= self.max_depth;
        match rng.below(if leaf { 6 } else { 10 }) {
            0 => Expression::Number(self.int(rng)),
            1 => Expression::Bytes(self.bytes(rng)),
            2 => Expression::Bool(rng.bool()),
            3 => Expression::String(self.string(rng)),
            4 => Expression::None,
            5 => Expression::Address(self.bytes(rng)),
            6 => Expression::List((0..rng.usize(4)).map(|_| self.data_expr(rng, depth + 1)).collect()),
            7 => Expression::Map(
                (0..rng.usize(3))
                    .map(|_| (self.data_expr(rng, depth + 1), self.data_expr(rng, depth + 1)))
                    .collect(),
            ),
            8 => Expression::Struct(self.struct_expr(rng, depth + 1, true)),
            _ => Expression::Tuple(Box::new((self.data_expr(rng, depth + 1), self.data_expr(rng, depth + 1)))),
        }
    }

    pub fn struct_expr(&mut self, rng: &mut Rng, depth: u32, constant: bool) -> StructExpr {
        let constructor = if self.extreme && rng.chance(1, 6) {
            *rng.pick(&[6usize, 7, 127, 128, 1000, usize::MAX, usize::MAX - 121, u32::MAX as usize])
        } else {
            rng.usize(4)
        };
        StructExpr {
            constructor,
            fields: (0..rng.usize(4))
                .map(|_| if constant { self.data_expr(rng, depth + 1) } else { self.expr(rng, depth + 1) })
                .collect(),
        }
    }

    pub fn asset_expr(&mut self, rng: &mut Rng, depth: u32) -> AssetExpr {
        let simple = rng.chance(3, 4);
        AssetExpr {
            policy: if simple {
                if rng.chance(1, 3) { Expression::None } else { Expression::Bytes(rng.bytes(28)) }
            } else {
                self.expr(rng, depth + 1)
            },
            asset_name: if simple {
                match rng.below(3) {
                    0 => Expression::None,
                    1 => Expression::Bytes(self.bytes(rng)),
                    _ => Expression::String(self.string(rng)),
                }
            } else {
                self.expr(rng, depth + 1)
            },
            amount: if simple { Expression::Number(self.int(rng)) } else { self.expr(rng, depth + 1) },
        }
    }

    pub fn input_query(&mut self, rng: &mut Rng, depth: u32) -> InputQuery {
        let was = self.in_query;
        self.in_query = true;
        let q = self.input_query_inner(rng, depth);
        self.in_query = was;
        q
    }

    fn input_query_inner(&mut self, rng: &mut Rng, depth: u32) -> InputQuery {
        InputQuery {
            address: match rng.below(4) {
                0 => Expression::None,
                1 => Expression::Address(self.bytes(rng)),
                _ => self.expr(rng, depth + 1),
            },
            min_amount: match rng.below(4) {
                0 => Expression::None,
                1 => Expression::Assets(vec![self.asset_expr(rng, depth + 1)]),
                _ => self.expr(rng, depth + 1),
            },
            r#ref: match rng.below(4) {
                0 | 1 => Expression::None,
                2 => Expression::UtxoRefs(vec![self.utxo_ref(rng)]),
                _ => self.expr(rng, depth + 1),
            },
            many: rng.bool(),
            collateral: rng.chance(1, 5),
        }
    }

    pub fn param(&mut self, rng: &mut Rng, depth: u32) -> Param {
        match rng.below(6) {
            0 => Param::Set(self.expr(rng, depth + 1)),
            1 | 2 => {
                let (n, t) = rng.pick(&self.param_names).clone();
                Param::ExpectValue(n, t)
            }
            3 => {
                // one name, one type: which of two conflicting declarations find_params reports would depend on
                // the iteration order of hash containers on the way (directive fields), before and after a
                // round trip alike
                let n = self.string(rng);
                let t = match crate::rng::fnv64(n.as_bytes()) % 12 {
                    0 => Type::Undefined,
                    1 => Type::Unit,
                    2 => Type::Int,
                    3 => Type::Bool,
                    4 => Type::Bytes,
                    5 => Type::Address,
                    6 => Type::Utxo,
                    7 => Type::UtxoRef,
                    8 => Type::AnyAsset,
                    9 => Type::List,
                    10 => Type::Map,
                    _ => Type::Custom("Thing".into()),
                };
                Param::ExpectValue(n, t)
            }
            4 if !self.in_query => {
                // one query per name: `find_queries` keeps one entry per name and which one survives
                // would depend on hash order
                self.utxo_counter += 1;
                Param::ExpectInput(format!("q{}", self.utxo_counter), self.input_query(rng, depth + 1))
            }
            _ => Param::ExpectFees,
        }
    }

    pub fn expr(&mut self, rng: &mut Rng, depth: u32) -> Expression {
        if depth >= self.max_depth {
            return match rng.below(8) {
                0 => Expression::None,
                1 => Expression::Number(self.int(rng)),
                2 => Expression::Bytes(self.bytes(rng)),
                3 => Expression::Hash(self.bytes(rng)),
                4 => Expression::UtxoRefs((0..rng.usize(3)).map(|_| self.utxo_ref(rng)).collect()),
                5 => Expression::EvalParam(Box::new(Param::ExpectFees)),
                6 => {
                    let (n, t) = rng.pick(&self.param_names).clone();
                    Expression::EvalParam(Box::new(Param::ExpectValue(n, t)))
                }
                _ => Expression::String(self.string(rng)),
            };
        }
        let d = depth + 1;
        match rng.below(24) {
            0 => Expression::None,
            1 => Expression::List((0..rng.usize(4)).map(|_| self.expr(rng, d)).collect()),
            2 => Expression::Map((0..rng.usize(3)).map(|_| (self.expr(rng, d), self.expr(rng, d))).collect()),
            3 => Expression::Tuple(Box::new((self.expr(rng, d), self.expr(rng, d)))),
            4 => Expression::Struct(self.struct_expr(rng, d, false)),
            5 => Expression::Bytes(self.bytes(rng)),
            6 => Expression::Number(self.int(rng)),
            7 => Expression::Bool(rng.bool()),
            8 => Expression::String(self.string(rng)),
            9 => Expression::Address(self.bytes(rng)),
            10 => Expression::Hash(self.bytes(rng)),
            11 => Expression::UtxoRefs((0..rng.usize(3)).map(|_| self.utxo_ref(rng)).collect()),
            12 => Expression::UtxoSet(self.utxo_set(rng, d)),
            13 => Expression::Assets((0..rng.usize(3)).map(|_| self.asset_expr(rng, d)).collect()),
            14 | 15 => Expression::EvalParam(Box::new(self.param(rng, d))),
            // built-ins over *constant* operands of every near-miss shape, so that the reducer really
            // evaluates them (a random subtree is rarely constant and well-typed enough to get that far)
            16 if rng.bool() => Expression::EvalBuiltIn(Box::new(match rng.below(5) {
                0 => BuiltInOp::Add(self.const_operand(rng), self.const_operand(rng)),
                1 => BuiltInOp::Sub(self.const_operand(rng), self.const_operand(rng)),
                2 => BuiltInOp::Concat(self.const_operand(rng), self.const_operand(rng)),
                3 => BuiltInOp::Negate(self.const_operand(rng)),
                _ => BuiltInOp::Property(self.const_operand(rng), self.const_operand(rng)),
            })),
            16 | 17 | 18 => Expression::EvalBuiltIn(Box::new(match rng.below(6) {
                0 => BuiltInOp::NoOp(self.expr(rng, d)),
                1 => BuiltInOp::Add(self.expr(rng, d), self.expr(rng, d)),
                2 => BuiltInOp::Sub(self.expr(rng, d), self.expr(rng, d)),
                3 => BuiltInOp::Concat(self.expr(rng, d), self.expr(rng, d)),
                4 => BuiltInOp::Negate(self.expr(rng, d)),
                _ => BuiltInOp::Property(self.expr(rng, d), self.expr(rng, d)),
            })),
            19 | 20 => Expression::EvalCompiler(Box::new(match rng.below(5) {
                0 => CompilerOp::BuildScriptAddress(self.expr(rng, d)),
                1 => CompilerOp::ComputeMinUtxo(self.expr(rng, d)),
                2 => CompilerOp::ComputeTipSlot,
                3 => CompilerOp::ComputeSlotToTime(self.expr(rng, d)),
                _ => CompilerOp::ComputeTimeToSlot(self.expr(rng, d)),
            })),
            21 | 22 => Expression::EvalCoerce(Box::new(match rng.below(4) {
                0 => Coerce::NoOp(self.expr(rng, d)),
                1 => Coerce::IntoAssets(self.expr(rng, d)),
                2 => Coerce::IntoDatum(self.expr(rng, d)),
                _ => Coerce::IntoScript(self.expr(rng, d)),
            })),
            _ => Expression::AdHocDirective(Box::new(self.adhoc(rng, d))),
        }
    }

    /// A constant operand for a built-in: well-typed values, and the near misses of each (asset lists
    /// whose amount / policy / name is a constant of the wrong kind, several entries of one class that
    /// overflow when merged, extreme integers, empty containers).
    pub fn const_operand(&mut self, rng: &mut Rng) -> Expression {
        let big = [i128::MAX, i128::MIN, i128::MAX - 1, i128::MIN + 1, (1i128 << 64), -(1i128 << 64), 1, 0, -1];
        match rng.below(10) {
            0 => Expression::None,
            1 => Expression::Number(if rng.bool() { *rng.pick(&big) } else { self.int(rng) }),
            2 => Expression::Bytes(self.bytes(rng)),
            3 => Expression::String(self.string(rng)),
            4 => Expression::List((0..rng.usize(3)).map(|_| Expression::Number(self.int(rng))).collect()),
            5 => Expression::Bool(rng.bool()),
            6 | 7 if rng.chance(1, 2) => {
                // one canonical class written in two different spellings, with amounts whose sum leaves i128:
                // whatever guards the merge has to judge classes as the conversion does, not as they are spelled
                let p = rng.bytes(28);
                let nm = rng.bytes(3);
                // incl. ill-typed parts, which the conversion reads as absent (a policy given as String / Address /
                // Number, a name given as Hash / Address / Number)
                let text = String::from_utf8_lossy(&nm).to_string();
                let spellings: Vec<(Expression, Expression)> = match rng.below(3) {
                    0 => vec![
                        (Expression::None, Expression::None),
                        (Expression::Bytes(vec![]), Expression::Bytes(vec![])),
                        (Expression::None, Expression::Bytes(vec![])),
                        (Expression::Hash(vec![]), Expression::None),
                        (Expression::String(String::new()), Expression::String(String::new())),
                        (Expression::String("policy".into()), Expression::None),
                        (Expression::Address(p.clone()), Expression::Hash(nm.clone())),
                        (Expression::None, Expression::Hash(nm.clone())),
                        (Expression::Number(1), Expression::Number(2)),
                        (Expression::Bool(true), Expression::Address(nm.clone())),
                    ],
                    1 => vec![
                        (Expression::None, Expression::Bytes(nm.clone())),
                        (Expression::Bytes(vec![]), Expression::String(text.clone())),
                        (Expression::String("policy".into()), Expression::Bytes(nm.clone())),
                        (Expression::Address(p.clone()), Expression::Bytes(nm.clone())),
                        (Expression::Hash(vec![]), Expression::Bytes(nm.clone())),
                    ],
                    _ => vec![
                        (Expression::Bytes(p.clone()), Expression::Bytes(nm.clone())),
                        (Expression::Hash(p.clone()), Expression::Bytes(nm.clone())),
                        (Expression::Bytes(p.clone()), Expression::String(text.clone())),
                    ],
                };
                let (x, y) = *rng.pick(&[(i128::MAX, 1i128), (i128::MAX, i128::MAX), (i128::MIN, -1), (i128::MIN, i128::MIN), (i128::MAX - 1, 2), (1 << 126, 1 << 126), (5, 7)]);
                let a = rng.pick(&spellings).clone();
                let b = rng.pick(&spellings).clone();
                Expression::Assets(vec![AssetExpr { policy: a.0, asset_name: a.1, amount: Expression::Number(x) }, AssetExpr { policy: b.0, asset_name: b.1, amount: Expression::Number(y) }])
            }
            _ => {
                let n = rng.usize(4);
                let shared_policy = rng.bytes(28);
                let shared_name = rng.bytes(4);
                Expression::Assets(
                    (0..n)
                        .map(|_| {
                            let same_class = rng.bool();
                            AssetExpr {
                                policy: match rng.below(7) {
                                    0 => Expression::None,
                                    1 => Expression::Hash(shared_policy.clone()),
                                    2 => Expression::String("policy".into()),
                                    // other spellings of "no policy"
                                    6 => rng.pick(&[Expression::Bytes(vec![]), Expression::Hash(vec![]), Expression::String(String::new())]).clone(),
                                    _ => Expression::Bytes(if same_class { shared_policy.clone() } else { rng.bytes(28) }),
                                },
                                asset_name: match rng.below(7) {
                                    0 => Expression::None,
                                    1 => Expression::String("NAME".into()),
                                    2 => Expression::Number(7),
                                    6 => rng.pick(&[Expression::Bytes(vec![]), Expression::String(String::new())]).clone(),
                                    _ => Expression::Bytes(if same_class { shared_name.clone() } else { rng.bytes(5) }),
                                },
                                amount: match rng.below(8) {
                                    0 => Expression::Bytes(rng.bytes(3)),
                                    1 => Expression::None,
                                    2 => Expression::Bool(true),
                                    3 => Expression::String("1".into()),
                                    4 | 5 => Expression::Number(*rng.pick(&big)),
                                    _ => Expression::Number(self.int(rng)),
                                },
                            }
                        })
                        .collect(),
                )
            }
        }
    }

    pub fn adhoc(&mut self, rng: &mut Rng, depth: u32) -> AdHocDirective {
        const NAMES: &[&str] = &[
            "withdrawal",
            "withdraw",
            "vote_delegation_certificate",
            "plutus_witness",
            "native_witness",
            "treasury_donation",
            "cardano_publish",
            "unknown_directive",
        ];
        const KEYS: &[&str] = &["credential", "amount", "redeemer", "drep", "stake", "version", "script", "coin", "to", "datum", "zzz"];
        let mut data = HashMap::new();
        for _ in 0..rng.usize(5) {
            data.insert(rng.pick(KEYS).to_string(), self.expr(rng, depth + 1));
        }
        AdHocDirective {
            name: rng.pick(NAMES).to_string(),
            data,
        }
    }

    pub fn tx(&mut self, rng: &mut Rng) -> Tx {
        let d = 1;
        Tx {
            fees: if rng.chance(2, 3) { Expression::EvalParam(Box::new(Param::ExpectFees)) } else { self.expr(rng, d) },
            references: (0..rng.usize(3)).map(|_| self.expr(rng, d)).collect(),
            inputs: (0..rng.usize(3))
                .map(|i| Input {
                    name: format!("in{i}"),
                    utxos: if rng.chance(2, 3) {
                        Expression::EvalParam(Box::new(Param::ExpectInput(format!("in{i}"), self.input_query(rng, d))))
                    } else {
                        self.expr(rng, d)
                    },
                    redeemer: if rng.bool() { Expression::None } else { self.expr(rng, d) },
                })
                .collect(),
            outputs: (0..rng.usize(4))
                .map(|_| Output {
                    address: self.expr(rng, d),
                    datum: if rng.bool() { Expression::None } else { self.expr(rng, d) },
                    amount: self.expr(rng, d),
                    optional: rng.chance(1, 4),
                })
                .collect(),
            validity: if rng.bool() {
                Some(Validity {
                    since: self.expr(rng, d),
                    until: self.expr(rng, d),
                })
            } else {
                None
            },
            mints: (0..rng.usize(3))
                .map(|_| Mint {
                    amount: self.expr(rng, d),
                    redeemer: self.expr(rng, d),
                })
                .collect(),
            burns: (0..rng.usize(2))
                .map(|_| Mint {
                    amount: self.expr(rng, d),
                    redeemer: self.expr(rng, d),
                })
                .collect(),
            adhoc: (0..rng.usize(3)).map(|_| self.adhoc(rng, d)).collect(),
            collateral: (0..rng.usize(2))
                .map(|_| Collateral {
                    utxos: if rng.bool() {
                        Expression::EvalParam(Box::new(Param::ExpectInput(
                            "collateral".into(),
                            InputQuery {
                                collateral: true,
                                ..self.input_query(rng, d)
                            },
                        )))
                    } else {
                        self.expr(rng, d)
                    },
                })
                .collect(),
            signers: if rng.bool() {
                Some(Signers {
                    signers: (0..rng.usize(3)).map(|_| self.expr(rng, d)).collect(),
                })
            } else {
                None
            },
            metadata: (0..rng.usize(3))
                .map(|_| Metadata {
                    key: self.expr(rng, d),
                    value: self.expr(rng, d),
                })
                .collect(),
        }
    }
}
