//! Grammar-derived input generation: reads tx3.pest with pest_meta at run time and expands it
//! randomly, so every rule the grammar accepts is exercised (and a rule added later is picked up).

use crate::rng::Rng;
use pest_meta::ast::{Expr, Rule, RuleType};
use std::collections::HashMap;

pub struct Grammar {
    pub rules: HashMap<String, Rule>,
    cost: HashMap<String, u32>,
}

const WS_POOL: &[&str] = &[" ", "\n", "\t", "  ", " // c\n", "/* c */", "\r\n", " /* \u{e9}\u{2713} */ "];
const ANY_POOL: &[&str] = &["a", "Z", "0", "9", " ", "_", "x", "-", "+", ".", ":", "{", "}", "\u{e9}", "\u{2713}", "\u{1F600}", "#", ",", "(", ")"];

impl Grammar {
    pub fn load(path: &std::path::Path) -> Result<Self, String> {
        let src = std::fs::read_to_string(path).map_err(|e| format!("cannot read grammar {}: {e}", path.display()))?;
        let pairs = pest_meta::parser::parse(pest_meta::parser::Rule::grammar_rules, &src).map_err(|e| format!("grammar does not parse: {e}"))?;
        let ast = pest_meta::parser::consume_rules(pairs).map_err(|e| format!("grammar not consumable: {e:?}"))?;
        let rules: HashMap<String, Rule> = ast.into_iter().map(|r| (r.name.clone(), r)).collect();
        let mut g = Grammar { rules, cost: HashMap::new() };
        g.compute_costs();
        Ok(g)
    }

    fn compute_costs(&mut self) {
        // least nesting needed to finish an expansion of each rule (fix-point)
        let names: Vec<String> = self.rules.keys().cloned().collect();
        for n in &names {
            self.cost.insert(n.clone(), 1000);
        }
        for _ in 0..40 {
            let mut changed = false;
            for n in &names {
                let c = self.expr_cost(&self.rules[n].expr).saturating_add(1);
                if c < self.cost[n] {
                    self.cost.insert(n.clone(), c);
                    changed = true;
                }
            }
            if !changed {
                break;
            }
        }
    }

    fn expr_cost(&self, e: &Expr) -> u32 {
        match e {
            Expr::Str(_) | Expr::Insens(_) | Expr::Range(..) | Expr::PeekSlice(..) => 0,
            Expr::Ident(n) => self.cost.get(n).copied().unwrap_or(0),
            Expr::PosPred(_) | Expr::NegPred(_) => 0,
            Expr::Seq(a, b) => self.expr_cost(a).max(self.expr_cost(b)),
            Expr::Choice(a, b) => self.expr_cost(a).min(self.expr_cost(b)),
            Expr::Opt(_) | Expr::Rep(_) | Expr::RepMax(..) => 0,
            Expr::RepOnce(x) | Expr::RepExact(x, _) | Expr::RepMin(x, _) | Expr::RepMinMax(x, _, _) => self.expr_cost(x),
            Expr::Skip(_) => 0,
            Expr::Push(x) => self.expr_cost(x),
            #[allow(unreachable_patterns)]
            _ => 0,
        }
    }

    fn ws(&self, rng: &mut Rng, atomic: bool, out: &mut String) {
        if atomic {
            return;
        }
        match rng.below(5) {
            0 => {}
            1 | 2 => out.push(' '),
            _ => out.push_str(*rng.pick(WS_POOL)),
        }
    }

    fn choices<'a>(e: &'a Expr, out: &mut Vec<&'a Expr>) {
        match e {
            Expr::Choice(a, b) => {
                Self::choices(a, out);
                Self::choices(b, out);
            }
            x => out.push(x),
        }
    }

    fn builtin(&self, name: &str, rng: &mut Rng, out: &mut String) -> bool {
        match name {
            "ANY" => out.push_str(*rng.pick(ANY_POOL)),
            "SOI" | "EOI" => {}
            "ASCII_ALPHA" => out.push(*rng.pick(&['a', 'b', 'q', 'x', 'Z', 'T']) ),
            "ASCII_ALPHANUMERIC" => out.push(*rng.pick(&['a', 'k', 'Z', '0', '7', '9'])),
            "ASCII_DIGIT" => out.push(*rng.pick(&['0', '1', '5', '9'])),
            "ASCII_HEX_DIGIT" => out.push(*rng.pick(&['0', '9', 'a', 'f', 'A', 'F', '3'])),
            "ASCII_ALPHA_LOWER" => out.push('c'),
            "ASCII_ALPHA_UPPER" => out.push('C'),
            "NEWLINE" => out.push('\n'),
            "WHITESPACE" | "COMMENT" => out.push(' '),
            _ => return false,
        }
        true
    }

    pub fn expand_rule(&self, name: &str, rng: &mut Rng, depth: u32, max_depth: u32, atomic: bool, out: &mut String) {
        if out.len() > 20_000 {
            return;
        }
        let Some(rule) = self.rules.get(name) else {
            self.builtin(name, rng, out);
            return;
        };
        let atomic = match rule.ty {
            RuleType::Atomic | RuleType::CompoundAtomic => true,
            RuleType::NonAtomic => false,
            _ => atomic,
        };
        self.expand(&rule.expr, rng, depth + 1, max_depth, atomic, out);
    }

    fn expand(&self, e: &Expr, rng: &mut Rng, depth: u32, max_depth: u32, atomic: bool, out: &mut String) {
        let budget_left = max_depth.saturating_sub(depth);
        match e {
            Expr::Str(s) | Expr::Insens(s) => out.push_str(s),
            Expr::Range(a, b) => {
                let (a, b) = (a.chars().next().unwrap_or('a') as u32, b.chars().next().unwrap_or('z') as u32);
                out.push(char::from_u32(a + rng.below((b - a + 1) as u64) as u32).unwrap_or('a'));
            }
            Expr::Ident(n) => self.expand_rule(n, rng, depth, max_depth, atomic, out),
            Expr::PosPred(_) | Expr::NegPred(_) | Expr::PeekSlice(..) | Expr::Skip(_) => {}
            Expr::Seq(a, b) => {
                self.expand(a, rng, depth, max_depth, atomic, out);
                // a negative predicate is followed directly by what it guards
                if !matches!(**a, Expr::NegPred(_) | Expr::PosPred(_)) {
                    self.ws(rng, atomic, out);
                }
                self.expand(b, rng, depth, max_depth, atomic, out);
            }
            Expr::Choice(..) => {
                let mut alts = vec![];
                Self::choices(e, &mut alts);
                let viable: Vec<&&Expr> = alts.iter().filter(|a| self.expr_cost(a) <= budget_left).collect();
                let pick: &Expr = if viable.is_empty() { alts.iter().min_by_key(|a| self.expr_cost(a)).unwrap() } else { **rng.pick(&viable[..]) };
                self.expand(pick, rng, depth, max_depth, atomic, out);
            }
            Expr::Opt(x) => {
                if self.expr_cost(x) <= budget_left && rng.bool() {
                    self.expand(x, rng, depth, max_depth, atomic, out);
                }
            }
            Expr::Rep(x) | Expr::RepOnce(x) | Expr::RepMin(x, _) | Expr::RepMax(x, _) | Expr::RepMinMax(x, _, _) | Expr::RepExact(x, _) => {
                let min = match e {
                    Expr::RepOnce(_) => 1,
                    Expr::RepMin(_, n) | Expr::RepExact(_, n) | Expr::RepMinMax(_, n, _) => *n as u64,
                    _ => 0,
                };
                let extra = if self.expr_cost(x) <= budget_left {
                    match rng.below(8) {
                        0 => 0,
                        1..=4 => 1,
                        5 | 6 => 2,
                        _ => 1 + rng.below(if atomic { 30 } else { 4 }),
                    }
                } else {
                    0
                };
                for i in 0..(min + extra).max(min) {
                    if i > 0 {
                        self.ws(rng, atomic, out);
                    }
                    self.expand(x, rng, depth, max_depth, atomic, out);
                }
            }
            Expr::Push(x) => self.expand(x, rng, depth, max_depth, atomic, out),
            #[allow(unreachable_patterns)]
            _ => {}
        }
    }

    pub fn program(&self, rng: &mut Rng, max_depth: u32) -> String {
        let mut out = String::new();
        self.expand_rule("program", rng, 0, max_depth, false, &mut out);
        out
    }
}

// ---------------------------------------------------------------------------------------------
// token-level mutation

pub fn tokenize(src: &str) -> Vec<String> {
    let mut toks = vec![];
    let chars: Vec<char> = src.chars().collect();
    let mut i = 0;
    while i < chars.len() {
        let c = chars[i];
        if c.is_whitespace() {
            let mut j = i;
            while j < chars.len() && chars[j].is_whitespace() {
                j += 1;
            }
            toks.push(chars[i..j].iter().collect());
            i = j;
        } else if c.is_alphanumeric() || c == '_' {
            let mut j = i;
            while j < chars.len() && (chars[j].is_alphanumeric() || chars[j] == '_') {
                j += 1;
            }
            toks.push(chars[i..j].iter().collect());
            i = j;
        } else if c == '"' {
            let mut j = i + 1;
            while j < chars.len() && chars[j] != '"' {
                j += 1;
            }
            j = (j + 1).min(chars.len());
            toks.push(chars[i..j].iter().collect());
            i = j;
        } else if c == '/' && i + 1 < chars.len() && chars[i + 1] == '/' {
            let mut j = i;
            while j < chars.len() && chars[j] != '\n' {
                j += 1;
            }
            toks.push(chars[i..j].iter().collect());
            i = j;
        } else {
            toks.push(c.to_string());
            i += 1;
        }
    }
    toks
}

pub fn mutate(src: &str, other: &str, rng: &mut Rng) -> (String, &'static str) {
    let mut toks = tokenize(src);
    if toks.is_empty() {
        return (src.to_string(), "none");
    }
    let n = toks.len();
    let kind = match rng.below(12) {
        0 => {
            toks.remove(rng.usize(n));
            "delete"
        }
        1 => {
            let i = rng.usize(n);
            let t = toks[i].clone();
            toks.insert(i, t);
            "duplicate"
        }
        2 => {
            let (i, j) = (rng.usize(n), rng.usize(n));
            toks.swap(i, j);
            "swap"
        }
        3 => {
            let o = tokenize(other);
            if !o.is_empty() {
                let a = rng.usize(o.len());
                let b = (a + 1 + rng.usize(12)).min(o.len());
                let i = rng.usize(n);
                for (k, t) in o[a..b].iter().enumerate() {
                    toks.insert(i + k, t.clone());
                }
            }
            "splice"
        }
        4 => {
            // stretch a numeric literal
            if let Some(i) = (0..n).map(|k| (k + rng.usize(n)) % n).find(|k| toks[*k].chars().all(|c| c.is_ascii_digit())) {
                toks[i] = match rng.below(4) {
                    0 => "9".repeat(19),
                    1 => "9223372036854775808".into(),
                    2 => "1".repeat(30 + rng.usize(40)),
                    _ => "0".repeat(1 + rng.usize(50)),
                };
            }
            "stretch-number"
        }
        5 => {
            // hex literal games
            if let Some(i) = (0..n).map(|k| (k + rng.usize(n)) % n).find(|k| toks[*k].starts_with("0x")) {
                toks[i] = match rng.below(4) {
                    0 => format!("{}a", toks[i]),
                    1 => "0x".to_string(),
                    2 => format!("0x{}{}", "ab".repeat(*rng.pick(&[64usize, 65, 66, 200, 1000])), if rng.bool() { "c" } else { "" }),
                    _ => format!("{}#{}", toks[i], "9".repeat(1 + rng.usize(25))),
                };
            }
            "hex-literal"
        }
        6 => {
            let i = rng.usize(n);
            toks.insert(i, ["\u{e9}", "\u{2713}", "\u{1F600}", "\u{0}", "\u{200b}", "\u{feff}"][rng.usize(6)].to_string());
            "multibyte"
        }
        7 => {
            const KW: &[&str] = &["tx", "input", "output", "party", "policy", "asset", "type", "env", "locals", "mint", "burn", "validity", "signers", "metadata", "cardano", "bitcoin", "collateral", "reference", "from", "to", "amount", "datum", "redeemer", "ref", "min_amount", "datum_is", "Int", "Bytes", "List<", "Map<", "AnyAsset", "concat", "true", "false", "::", "...", "()", "fees", "Ada", "min_utxo", "tip_slot", "stake_delegation_certificate", "vote_delegation_certificate", "withdrawal", "publish", "treasury_donation"];
            let i = rng.usize(n);
            toks[i] = rng.pick(KW).to_string();
            "keyword"
        }
        8 => {
            let i = rng.usize(n);
            toks[i] = [",", ";", ":", "{", "}", "(", ")", "[", "]", ".", "+", "-", "!", "*", "?", "#", "\"", "//", "/*"][rng.usize(19)].to_string();
            "punct"
        }
        9 => {
            // cut the tail
            toks.truncate(rng.usize(n));
            "truncate"
        }
        10 => {
            // duplicate a whole block (brace to brace)
            if let Some(a) = toks.iter().position(|t| t == "{") {
                if let Some(b) = toks[a..].iter().position(|t| t == "}") {
                    let block: Vec<String> = toks[a..=a + b].to_vec();
                    let i = rng.usize(n);
                    for (k, t) in block.into_iter().enumerate() {
                        toks.insert((i + k).min(toks.len()), t);
                    }
                }
            }
            "dup-block"
        }
        _ => {
            // rename an identifier to something else in the file
            let ids: Vec<usize> = (0..n).filter(|k| toks[*k].chars().next().map(|c| c.is_alphabetic()).unwrap_or(false)).collect();
            if ids.len() >= 2 {
                let a = *rng.pick(&ids);
                let b = *rng.pick(&ids);
                toks[a] = toks[b].clone();
            }
            "rename"
        }
    };
    (toks.concat(), kind)
}

/// source text without `//` and `/* */` comments (string literals are respected)
pub fn strip_comments(src: &str) -> String {
    let b: Vec<char> = src.chars().collect();
    let mut out = String::new();
    let mut i = 0;
    while i < b.len() {
        if b[i] == '"' {
            out.push('"');
            i += 1;
            while i < b.len() && b[i] != '"' {
                out.push(b[i]);
                i += 1;
            }
            if i < b.len() {
                out.push('"');
                i += 1;
            }
        } else if b[i] == '/' && i + 1 < b.len() && b[i + 1] == '/' {
            while i < b.len() && b[i] != '\n' {
                i += 1;
            }
        } else if b[i] == '/' && i + 1 < b.len() && b[i + 1] == '*' {
            i += 2;
            while i + 1 < b.len() && !(b[i] == '*' && b[i + 1] == '/') {
                i += 1;
            }
            i = (i + 2).min(b.len());
            out.push(' ');
        } else {
            out.push(b[i]);
            i += 1;
        }
    }
    out
}
