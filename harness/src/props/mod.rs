use crate::framework::Property;

pub mod c15;

pub fn all() -> Vec<Box<dyn Property>> {
    vec![Box::new(c15::C15)]
}

pub fn lookup(id: &str) -> Option<Box<dyn Property>> {
    all().into_iter().find(|p| p.id() == id)
}
