use crate::framework::Property;

pub mod c01;
pub mod c02;
pub mod c03;
pub mod c04;
pub mod c05;
pub mod c06;
pub mod c07;
pub mod c08;
pub mod c09;
pub mod c10;
pub mod c11;
pub mod c12;
pub mod c13;
pub mod c14;
pub mod c15;
pub mod c16;
pub mod c17;
pub mod c18;
pub mod c19;
pub mod c20;
pub mod selftest;

pub fn all() -> Vec<Box<dyn Property>> {
    vec![Box::new(c01::C01), Box::new(c02::C02), Box::new(c03::C03), Box::new(c04::C04), Box::new(c05::C05), Box::new(c06::C06), Box::new(c07::C07), Box::new(c08::C08), Box::new(c09::C09), Box::new(c10::C10), Box::new(c11::C11), Box::new(c12::C12), Box::new(c13::C13), Box::new(c14::C14), Box::new(c15::C15), Box::new(c16::C16), Box::new(c17::C17), Box::new(c18::C18), Box::new(c19::C19), Box::new(c20::C20)]
}

pub fn lookup(id: &str) -> Option<Box<dyn Property>> {
    all().into_iter().find(|p| p.id() == id)
}

/// C11 "lowered" phase: IRs lowered from generated programs must round-trip, and after identical
/// application both sides must compile to the same decoded transaction.
pub fn lowered_roundtrip(ctx: &mut crate::framework::Ctx, _idx: u64, rng: &mut crate::rng::Rng) {
    use crate::gen::{ast, build};
    let cfg = build::Cfg { cardano_pct: 40, ..Default::default() };
    let g = build::generate(rng, &cfg);
    let src = ast::print_program(&g.prog, ast::Layout::plain());
    for (ti, txd) in g.prog.txs.iter().enumerate() {
        let Ok(t) = crate::pipeline::front(&src, &txd.name) else {
            ctx.count("lowered/front-rejected");
            continue;
        };
        ctx.count("lowered/tx");
        c11::check_roundtrip(ctx, &t, "generated-program");
        // same application on both sides => same decoded transaction
        let (bytes, v) = tx3_tir::encoding::to_bytes(&t);
        let Ok(Ok(tx3_tir::encoding::AnyTir::V1Beta0(back))) = crate::panics::catch(|| tx3_tir::encoding::from_bytes(&bytes, v)) else { continue };
        let w = build::world(&g, ti, rng, &cfg);
        let pp = crate::env::PP::default();
        let a = crate::pipeline::back_assigned(&t, &w, &pp);
        let b = crate::pipeline::back_assigned(&back, &w, &pp);
        ctx.eval();
        match (a, b) {
            (Ok(x), Ok(y)) => {
                ctx.count("lowered/compiled-both");
                let (vx, vy) = (crate::decode::tx::view(&x.payload), crate::decode::tx::view(&y.payload));
                match (vx, vy) {
                    (Ok(vx), Ok(vy)) => {
                        // redeemer attachment of multi-UTxO inputs follows hash-set order in the code
                        // under test (C08's subject): compare the order-insensitive body fields only
                        let d = crate::decode::tx::diff(&vx.tx, &vy.tx);
                        if !d.is_empty() {
                            ctx.violation("roundtrip:compiled-tx-differs", serde_json::json!({"source": src, "tx": txd.name, "fields": d}));
                        }
                    }
                    _ => ctx.count("lowered/undecodable"),
                }
            }
            (Err(x), Err(y)) => {
                if x.class() != y.class() {
                    ctx.violation("roundtrip:outcome-differs", serde_json::json!({"source": src, "tx": txd.name, "original": x.text(), "decoded": y.text()}));
                }
                ctx.count("lowered/error-both");
            }
            (x, y) => ctx.violation(
                "roundtrip:outcome-differs",
                serde_json::json!({"source": src, "tx": txd.name, "original_ok": x.is_ok(), "decoded_ok": y.is_ok()}),
            ),
        }
    }
}
