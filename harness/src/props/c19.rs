//! C19 — diagnostics point inside the text they are attached to.

use crate::framework::*;
use crate::gen::ast::{print_program, Layout};
use crate::gen::build::{self, Cfg};
use crate::gen::mutate::mutate_semantic;
use crate::grammar::mutate;
use crate::props::c12::{examples, grammar, run_front, FrontOutcome};
use crate::rng::{fnv64, Rng};
use miette::{GraphicalReportHandler, GraphicalTheme};
use serde_json::json;

pub struct C19;

fn span_parts(span: &tx3_lang::ast::Span) -> (bool, usize, usize) {
    // `dummy` is private: read it through Serialize
    let v = serde_json::to_value(span).unwrap_or(json!({}));
    (v["dummy"].as_bool().unwrap_or(false), span.start, span.end)
}

fn error_kind(e: &tx3_lang::analyzing::Error) -> &'static str {
    use tx3_lang::analyzing::Error::*;
    match e {
        DuplicateDefinition(_) => "DuplicateDefinition",
        NotInScope(_) => "NotInScope",
        NeedsParentScope => "NeedsParentScope",
        InvalidSymbol(_) => "InvalidSymbol",
        InvalidTargetType(_) => "InvalidTargetType",
        MetadataSizeLimitExceeded(_) => "MetadataSizeLimitExceeded",
        MetadataInvalidKeyType(_) => "MetadataInvalidKeyType",
        InvalidOptionalOutput(_) => "InvalidOptionalOutput",
        #[allow(unreachable_patterns)]
        _ => "Other",
    }
}

impl C19 {
    fn judge(&self, ctx: &mut Ctx, src: &str, origin: &str) {
        let (outcome, _, parse_err, report) = run_front(src);
        let line_of = |off: usize| src[..off.min(src.len())].matches('\n').count();
        let multibyte_before = |off: usize| src.get(..off.min(src.len())).map(|s| !s.is_ascii()).unwrap_or(false);
        match outcome {
            FrontOutcome::BudgetExceeded | FrontOutcome::Panic(..) | FrontOutcome::SkippedKnownBlowup => ctx.count("skipped/not-a-diagnostic"),
            FrontOutcome::ParseError(_) => {
                let Some(e) = parse_err else { return };
                ctx.eval();
                ctx.count("diagnostics/parse");
                let (_, start, end) = span_parts(&e.span);
                let detail = |what: serde_json::Value| json!({"origin": origin, "input": src.chars().take(3000).collect::<String>(), "input_len": src.len(), "diagnostic": {"message": e.message.chars().take(200).collect::<String>(), "src_len": e.src.len(), "src_prefix": e.src.chars().take(200).collect::<String>(), "span": [start, end]}, "observed": what});
                if start > end {
                    ctx.violation("span-reversed:parse", detail(json!({})));
                } else if end > e.src.len() {
                    ctx.violation("span-out-of-text:parse", detail(json!({"span_end": end, "text_len": e.src.len()})));
                } else if !e.src.is_char_boundary(start) || !e.src.is_char_boundary(end) {
                    ctx.violation("span-splits-char:parse", detail(json!({})));
                } else {
                    // the located text must be where the parser says it is: the same bytes in the input
                    if e.src.len() == src.len() && e.src != src {
                        ctx.violation("text-differs-from-input:parse", detail(json!({})));
                    }
                }
                // rendering against the carried text must work and show a snippet
                let mut out = String::new();
                let handler = GraphicalReportHandler::new_themed(GraphicalTheme::unicode_nocolor());
                let rendered = crate::panics::catch(|| handler.render_report(&mut out, &e));
                match rendered {
                    Ok(Ok(())) => {
                        ctx.count("rendered/parse");
                        // a snippet shows the line of the error; miette prints "[...]" + source lines with a gutter
                        if start <= e.src.len() && end <= e.src.len() && !out.contains('│') && !out.contains('|') {
                            ctx.violation("render-without-snippet:parse", detail(json!({"rendered": out.chars().take(600).collect::<String>()})));
                        }
                    }
                    Ok(Err(_)) => ctx.violation("render-failed:parse", detail(json!({}))),
                    Err(p) => ctx.violation(format!("render-{}", p.signature()), detail(json!({"panic": p.message}))),
                }
                if line_of(start.min(src.len())) >= 1 {
                    ctx.count("feature/error-beyond-first-line");
                }
                if multibyte_before(start) {
                    ctx.count("feature/multibyte-before-error");
                }
                if src.contains('\n') {
                    ctx.nontrivial(fnv64(src.as_bytes()));
                }
            }
            FrontOutcome::Parsed { .. } => {
                let Some(report) = report else { return };
                for e in &report.errors {
                    let (dummy, start, end) = span_parts(e.span());
                    if dummy {
                        ctx.count("diagnostics/analysis-dummy-span");
                        continue;
                    }
                    ctx.eval();
                    ctx.count("diagnostics/analysis");
                    let kind = error_kind(e);
                    ctx.count(&format!("analysis-kind/{kind}"));
                    let detail = |what: serde_json::Value| json!({"origin": origin, "input": src.chars().take(3000).collect::<String>(), "input_len": src.len(), "diagnostic": {"kind": kind, "text": e.to_string().chars().take(200).collect::<String>(), "span": [start, end]}, "observed": what});
                    if start > end {
                        ctx.violation(format!("span-reversed:{kind}"), detail(json!({})));
                        continue;
                    }
                    if end > src.len() {
                        ctx.violation(format!("span-out-of-text:{kind}"), detail(json!({})));
                        continue;
                    }
                    if !src.is_char_boundary(start) || !src.is_char_boundary(end) {
                        ctx.violation(format!("span-splits-char:{kind}"), detail(json!({})));
                        continue;
                    }
                    if let tx3_lang::analyzing::Error::NotInScope(n) = e {
                        ctx.count("not-in-scope/checked");
                        if &src[start..end] != n.name.as_str() {
                            ctx.violation("span-not-name:NotInScope", detail(json!({"located_text": src[start..end].chars().take(100).collect::<String>(), "name": n.name})));
                        }
                    }
                    if multibyte_before(start) {
                        ctx.count("feature/multibyte-before-error");
                    }
                    if line_of(start) >= 1 {
                        ctx.count("feature/error-beyond-first-line");
                    }
                    ctx.nontrivial(fnv64(format!("{src}{start}").as_bytes()));
                }
            }
        }
    }
}

impl Property for C19 {
    fn id(&self) -> &'static str {
        "C19"
    }
    fn rule(&self) -> String {
        "erroneous sources from the C12 / C13 generators (grammar expansions, token-level mutants of the examples and of generated programs printed in random multi-line layouts with multi-byte comments, semantic mutants), with the error on any line / column; every parsing::Error: start <= end <= len(carried text), both on char boundaries, and miette's graphical handler renders it against the carried text with a snippet; every analysis error with a non-dummy span: within the input, on char boundaries and, for not-in-scope errors, input[span] == reported name. Non-trivial: multi-line input; distinct = distinct (input, span).".into()
    }
    fn assumptions(&self) -> Vec<String> {
        vec!["the 'call limit reached' error produced by the harness' parser step budget is not a diagnostic of the code under test and is skipped; dummy spans are skipped (Span.dummy is read through Serialize)".into()]
    }
    fn phases(&self, tier: Tier) -> Vec<Phase> {
        match tier {
            Tier::Quick => vec![Phase::new("diagnostics", 30_000, Profile::Release)],
            Tier::Thorough => vec![Phase::new("diagnostics", 1_500_000, Profile::Release)],
        }
    }
    fn required_features(&self, _tier: Tier) -> Vec<String> {
        ["diagnostics/parse", "diagnostics/analysis", "rendered/parse", "not-in-scope/checked", "feature/error-beyond-first-line", "feature/multibyte-before-error", "analysis-kind/InvalidSymbol", "analysis-kind/NotInScope", "feature/invisible-prefix"].iter().map(|s| s.to_string()).collect()
    }
    fn supervisor_phase(&self, ctx: &mut Ctx, env: &Env) {
        if ctx.tier == Tier::Thorough {
            // diagnostics slice the source text by byte offsets (pest positions, miette rendering): the same
            // multi-byte inputs under Miri
            miri_cross_run(ctx, env, "C19", &[MiriPlan { phase: "diagnostics", cases: 320 }], 540);
        }
    }
    fn run_case(&self, ctx: &mut Ctx, _phase: &str, idx: u64, rng: &mut Rng) {
        let ex = examples();
        let (src, origin) = match idx % 4 {
            0 => {
                let Ok(g) = grammar() else { return };
                (g.program(rng, 6 + (idx % 7) as u32), "grammar-expansion")
            }
            1 => {
                let base = if ex.is_empty() { String::new() } else { ex[rng.usize(ex.len())].1.clone() };
                let (s, _) = mutate(&base, &base.clone(), rng);
                (s, "example-mutant")
            }
            2 => {
                let g = build::generate(rng, &Cfg { cardano_pct: 40, ..Default::default() });
                let s = print_program(&g.prog, Layout::random(rng.next_u64()));
                let (s, _) = mutate(&s, &s.clone(), rng);
                (s, "generated-token-mutant")
            }
            _ => {
                let mut g = build::generate(rng, &Cfg { cardano_pct: 40, ..Default::default() });
                let _ = mutate_semantic(&mut g.prog, rng);
                (print_program(&g.prog, Layout::random(rng.next_u64())), "generated-semantic-mutant")
            }
        };
        // what an editor or a shell may put in front of the text: a byte-order mark, zero-width characters,
        // blank lines - a tool that skips such a prefix has to keep its offsets relative to the text it reports
        let src = if rng.chance(1, 8) {
            ctx.count("feature/invisible-prefix");
            format!("{}{}", *rng.pick(&["\u{feff}", "\u{feff}\n", "\u{200b}", "\r\n\r\n", "\u{2028}", "\u{a0}"]), src)
        } else {
            src
        };
        self.judge(ctx, &src, origin);
        if idx % 4999 == 0 {
            ctx.sample(|| json!({"origin": origin, "source": src.chars().take(500).collect::<String>()}));
        }
    }
}
