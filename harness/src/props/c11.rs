//! C11 — the TIR wire format round-trips and rejects garbage gracefully.

use crate::canon;
use crate::framework::*;
use crate::rng::Rng;
use crate::tirgen::TirGen;
use serde_json::json;
use tx3_tir::encoding::{from_bytes, to_bytes, AnyTir, TirVersion};
use tx3_tir::model::v1beta0 as tir;
use tx3_tir::reduce::{find_params, find_queries};

pub struct C11;

pub fn example_files(env: &Env) -> Vec<std::path::PathBuf> {
    let mut v: Vec<_> = std::fs::read_dir(env.repo_dir.join("examples"))
        .map(|rd| {
            rd.filter_map(|e| e.ok())
                .map(|e| e.path())
                .filter(|p| p.extension().map(|x| x == "tx3").unwrap_or(false))
                .collect()
        })
        .unwrap_or_default();
    v.sort();
    v
}

/// parse + analyse + lower every tx of a source; None when the front end rejects it (or panics)
pub fn lower_all(src: &str) -> Option<Vec<(String, tir::Tx)>> {
    crate::panics::catch(|| {
        let mut prog = tx3_lang::parsing::parse_string(src).ok()?;
        let report = tx3_lang::analyzing::analyze(&mut prog);
        if !report.errors.is_empty() {
            return None;
        }
        let mut out = vec![];
        for tx in prog.txs.iter() {
            let t = tx3_lang::lowering::lower(&prog, &tx.name.value).ok()?;
            out.push((tx.name.value.clone(), t));
        }
        Some(out)
    })
    .ok()
    .flatten()
}

pub fn check_roundtrip(ctx: &mut Ctx, t: &tir::Tx, origin: &str) {
    let (bytes, version) = to_bytes(t);
    ctx.eval();
    let decoded = crate::panics::catch(|| from_bytes(&bytes, version.clone()));
    let shapes = canon::variant_names(&canon::to_value(t));
    for s in &shapes {
        ctx.count(&format!("shape/{s}"));
    }
    let detail = |what: &str| json!({"origin": origin, "what": what, "encoding_hex_prefix": hex::encode(&bytes[..bytes.len().min(96)]), "len": bytes.len()});
    match decoded {
        Err(p) => ctx.violation(format!("decode-{}", p.signature()), detail(&p.message)),
        Ok(Err(e)) => ctx.violation("roundtrip:decode-error", detail(&e.to_string())),
        Ok(Ok(AnyTir::V1Beta0(back))) => {
            if version != TirVersion::V1Beta0 {
                ctx.violation("roundtrip:version", detail("to_bytes reported another version"));
            }
            let a = canon::canon_bytes(t);
            let b = canon::canon_bytes(&back);
            if a != b {
                // localise: first differing top-level field
                let va = canon::canonicalise(&canon::to_value(t));
                let vb = canon::canonicalise(&canon::to_value(&back));
                let mut field = "?".to_string();
                if let (ciborium::Value::Map(ma), ciborium::Value::Map(mb)) = (&va, &vb) {
                    for (k, x) in ma {
                        let other = mb.iter().find(|(k2, _)| k2 == k).map(|(_, y)| y);
                        if other != Some(x) {
                            field = k.as_text().unwrap_or("?").to_string();
                            break;
                        }
                    }
                }
                ctx.violation(format!("roundtrip:structure:{field}"), detail("canonical forms differ"));
            }
            // the same comparison on a view that reads the model's public fields directly: a lossy or
            // order-dependent Serialize impl cannot hide behind itself there
            let (sa, sb) = (crate::structural::tx(t), crate::structural::tx(&back));
            if sa != sb {
                ctx.violation(format!("roundtrip:fields:{}", crate::structural::first_difference(&sa, &sb)), detail("the decoded IR differs from the original when both are read field by field"));
            }
            let (pa, pb) = (canon::canon_bytes(&find_params(t)), canon::canon_bytes(&find_params(&back)));
            if pa != pb {
                ctx.violation("roundtrip:params", detail("find_params differs"));
            }
            let (qa, qb) = (canon::canon_bytes(&find_queries(t)), canon::canon_bytes(&find_queries(&back)));
            if qa != qb {
                ctx.violation("roundtrip:queries", detail("find_queries differs"));
            }
            // encoding the decoded value again must be decodable too (idempotence of the wire form)
            let (bytes2, _) = to_bytes(&back);
            if canon::canon_bytes(&ciborium::from_reader::<ciborium::Value, _>(bytes2.as_slice()).ok())
                != canon::canon_bytes(&ciborium::from_reader::<ciborium::Value, _>(bytes.as_slice()).ok())
            {
                ctx.violation("roundtrip:re-encode", detail("second encoding differs beyond hash order"));
            }
            if shapes.len() >= 6 {
                ctx.nontrivial(crate::rng::fnv64(&a));
            }
        }
    }
}

fn nest_list(depth: usize) -> tir::Expression {
    let mut e = tir::Expression::List(vec![tir::Expression::Number(1)]);
    for _ in 0..depth {
        e = tir::Expression::List(vec![e]);
    }
    e
}

fn empty_tx() -> tir::Tx {
    tir::Tx {
        fees: tir::Expression::None,
        references: vec![],
        inputs: vec![],
        outputs: vec![],
        validity: None,
        mints: vec![],
        burns: vec![],
        adhoc: vec![],
        collateral: vec![],
        signers: None,
        metadata: vec![],
    }
}

pub const DEEP_WRAPPERS: usize = 11;
pub const DEEP_DEPTHS: [usize; 17] = [50, 100, 200, 255, 256, 257, 300, 400, 500, 700, 1000, 1023, 1024, 1025, 3000, 20_000, 100_000];

/// wrapper^depth around a leaf, spliced into the `fees` field of a valid transaction (raw bytes)
pub fn deep_payload(wi: usize, depth: usize) -> (&'static str, Vec<u8>) {
    let marker = tir::Expression::String("@@MARK@@".into());
    let enc = |e: &tir::Expression| canon::value_bytes(&canon::to_value(e));
    let m = enc(&marker);
    let split = |whole: Vec<u8>| -> Option<(Vec<u8>, Vec<u8>)> {
        let pos = whole.windows(m.len()).position(|w| w == m.as_slice())?;
        Some((whole[..pos].to_vec(), whole[pos + m.len()..].to_vec()))
    };
    let wrappers: Vec<(&'static str, tir::Expression)> = vec![
        ("List", tir::Expression::List(vec![marker.clone()])),
        ("Tuple", tir::Expression::Tuple(Box::new((marker.clone(), tir::Expression::None)))),
        ("Map-key", tir::Expression::Map(vec![(marker.clone(), tir::Expression::None)])),
        ("Map-value", tir::Expression::Map(vec![(tir::Expression::None, marker.clone())])),
        ("Struct", tir::Expression::Struct(tir::StructExpr { constructor: 0, fields: vec![marker.clone()] })),
        ("Coerce", tir::Expression::EvalCoerce(Box::new(tir::Coerce::NoOp(marker.clone())))),
        ("Negate", tir::Expression::EvalBuiltIn(Box::new(tir::BuiltInOp::Negate(marker.clone())))),
        ("Add-left", tir::Expression::EvalBuiltIn(Box::new(tir::BuiltInOp::Add(marker.clone(), tir::Expression::None)))),
        ("Param-Set", tir::Expression::EvalParam(Box::new(tir::Param::Set(marker.clone())))),
        ("Asset-amount", tir::Expression::Assets(vec![tir::AssetExpr { policy: tir::Expression::None, asset_name: tir::Expression::None, amount: marker.clone() }])),
        ("MinUtxo", tir::Expression::EvalCompiler(Box::new(tir::CompilerOp::ComputeMinUtxo(marker.clone())))),
    ];
    let (wname, w) = &wrappers[wi % wrappers.len()];
    let mut t = empty_tx();
    t.fees = marker.clone();
    match (split(enc(w)), split(to_bytes(&t).0)) {
        (Some((wp, ws)), Some((tp, ts))) => {
            let mut b = tp;
            for _ in 0..depth {
                b.extend_from_slice(&wp);
            }
            b.extend_from_slice(&enc(&tir::Expression::None));
            for _ in 0..depth {
                b.extend_from_slice(&ws);
            }
            b.extend_from_slice(&ts);
            (wname, b)
        }
        _ => (wname, to_bytes(&t).0),
    }
}

const VERSION_STRINGS: &[&str] = &[
    "v1beta0", "v1alpha8", "v1alpha9", "v1alpha7", "v1alpha0", "v1beta1", "v1beta", "V1BETA0", "V1Beta0", "v1Beta0", " v1beta0", "v1beta0 ", "v1beta0\n", "v1beta00",
    "v2beta0", "v0beta0", "", "latest", "1", "v1", "beta0", "v1-beta0", "v1_beta0", "v1beta0\u{0}", "ｖ1beta0", "v1alpha8 ", "v1gamma0", "v1beta-0",
];

/// Offsets and major types of the heads of every byte string, text string, array and map of a well-formed
/// encoding (empty when it is not well formed).
fn heads(bytes: &[u8]) -> Vec<(usize, u8)> {
    use crate::decode::cbor::{decode_all, Node, C};
    fn walk(n: &Node, out: &mut Vec<(usize, u8)>) {
        match &n.v {
            C::Bytes(..) => out.push((n.start, 2)),
            C::Text(..) => out.push((n.start, 3)),
            C::Array(items, _) => {
                out.push((n.start, 4));
                for i in items {
                    walk(i, out);
                }
            }
            C::Map(entries, _) => {
                out.push((n.start, 5));
                for (k, v) in entries {
                    walk(k, out);
                    walk(v, out);
                }
            }
            C::Tag(_, inner) => walk(inner, out),
            _ => {}
        }
    }
    let mut out = vec![];
    if let Ok(root) = decode_all(bytes) {
        walk(&root, &mut out);
    }
    out
}

/// Every definite-length map of a well-formed encoding with 1..22 entries: (offset of its head, entries as
/// (start, end, value is an integer or bignum)).
fn map_entries(bytes: &[u8]) -> Vec<(usize, Vec<(usize, usize, bool)>)> {
    use crate::decode::cbor::{decode_all, Node, C};
    fn walk(n: &Node, bytes: &[u8], out: &mut Vec<(usize, Vec<(usize, usize, bool)>)>) {
        match &n.v {
            C::Array(items, _) => items.iter().for_each(|i| walk(i, bytes, out)),
            C::Map(entries, indefinite) => {
                if !*indefinite && !entries.is_empty() && entries.len() < 23 && bytes[n.start] & 0x1f < 23 {
                    out.push((n.start, entries.iter().map(|(k, v)| (k.start, v.end, matches!(&v.v, C::UInt(_) | C::NInt(_)) || matches!(&v.v, C::Tag(t, _) if *t == 2 || *t == 3))).collect()));
                }
                for (k, v) in entries {
                    walk(k, bytes, out);
                    walk(v, bytes, out);
                }
            }
            C::Tag(_, inner) => walk(inner, bytes, out),
            _ => {}
        }
    }
    let mut out = vec![];
    if let Ok(root) = decode_all(bytes) {
        walk(&root, bytes, &mut out);
    }
    out
}

impl C11 {
    fn hostile(&self, ctx: &mut Ctx, idx: u64, rng: &mut Rng) {
        // base encodings
        let mut gen = TirGen::new(3, true);
        let base = to_bytes(&gen.tx(rng)).0;
        let kind = idx % 13;
        let bytes: Vec<u8> = match kind {
            12 => {
                // deep nesting in a *typed* position, written as raw bytes (no recursion on our side)
                let wi = rng.usize(DEEP_WRAPPERS);
                let depth = *rng.pick(&DEEP_DEPTHS);
                let (wname, b) = deep_payload(wi, depth);
                ctx.count(&format!("deep-typed/{wname}"));
                ctx.count(if depth <= 200 { "deep-typed/depth<=200" } else if depth <= 1100 { "deep-typed/depth-201..1100" } else { "deep-typed/depth>1100" });
                b
            }
            0 => {
                let n = rng.usize(200);
                rng.bytes(n)
            }
            1 => {
                let mut b = base.clone();
                for _ in 0..1 + rng.usize(8) {
                    if !b.is_empty() {
                        let i = rng.usize(b.len());
                        b[i] ^= 1 << rng.below(8);
                    }
                }
                b
            }
            2 => base[..rng.usize(base.len() + 1)].to_vec(),
            3 => {
                let other = to_bytes(&gen.tx(rng)).0;
                let mut b = base[..rng.usize(base.len() + 1)].to_vec();
                b.extend_from_slice(&other[rng.usize(other.len() + 1)..]);
                b
            }
            4 if idx % 3 != 0 => {
                // length-prefix lies at the heads of the encoding's own strings, arrays and maps (located with
                // the independent CBOR reader): the item keeps its major type and announces a huge length
                let mut b = base.clone();
                let hs = heads(&b);
                if !hs.is_empty() {
                    let (at, major) = *rng.pick(&hs);
                    let head_len = 1 + match b[at] & 0x1f {
                        24 => 1,
                        25 => 2,
                        26 => 4,
                        27 => 8,
                        _ => 0,
                    };
                    let lie: Vec<u8> = match rng.below(5) {
                        0 => vec![(major << 5) | 25, 0xff, 0xff],
                        1 => [vec![(major << 5) | 26], 0xffff_ffffu32.to_be_bytes().to_vec()].concat(),
                        2 => [vec![(major << 5) | 26], (0x0100_0000u32 << rng.below(7)).to_be_bytes().to_vec()].concat(),
                        _ => [vec![(major << 5) | 27], (u64::MAX >> rng.below(40)).to_be_bytes().to_vec()].concat(),
                    };
                    ctx.count(&format!("length-lie/major-{major}"));
                    b.splice(at..at + head_len, lie);
                }
                b
            }
            4 => {
                // length-prefix lies: replace a byte by a head announcing a huge length
                let mut b = base.clone();
                if !b.is_empty() {
                    let i = rng.usize(b.len());
                    let major = *rng.pick(&[0x40u8, 0x60, 0x80, 0xa0, 0xc0]);
                    let mut head = vec![major | 27];
                    head.extend_from_slice(&(u64::MAX >> rng.below(40)).to_be_bytes());
                    b.splice(i..i + 1, head);
                }
                b
            }
            5 => {
                // nesting bombs
                let n = *rng.pick(&[100usize, 255, 256, 257, 1000, 10_000, 100_000]);
                match rng.below(4) {
                    0 => vec![0x81; n],
                    1 => {
                        let mut b = Vec::with_capacity(2 * n);
                        for _ in 0..n {
                            b.extend_from_slice(&[0xa1, 0x00]);
                        }
                        b
                    }
                    2 => vec![0xc1; n],
                    _ => vec![0x9f; n],
                }
            }
            6 => {
                // a *valid* IR with deep list nesting
                let d = *rng.pick(&[10usize, 60, 100, 120, 126, 127, 128, 200, 255, 256, 300, 1000]);
                ctx.count("feature/valid-deep-list");
                let mut t = empty_tx();
                t.outputs.push(tir::Output {
                    address: tir::Expression::None,
                    datum: nest_list(d),
                    amount: tir::Expression::None,
                    optional: false,
                });
                to_bytes(&t).0
            }
            7 => {
                // overwrite a random window with random bytes
                let mut b = base.clone();
                if b.len() > 4 {
                    let i = rng.usize(b.len() - 4);
                    let w = 1 + rng.usize(4);
                    let r = rng.bytes(w);
                    b[i..i + w].copy_from_slice(&r);
                }
                b
            }
            8 if idx % 2 == 0 => {
                // a well-formed map with one of its entries repeated (count adjusted): a key the encoder never
                // writes twice. The base holds a UTxO set whose amounts sit at the ends of the i128 range, so that
                // a reader that merges repeated classes instead of keeping one has to add them up
                let mut t = gen.tx(rng);
                let big = [i128::MAX, i128::MAX - 1, i128::MIN, i128::MIN + 1, 1 << 126, -(1 << 126), 1, 7];
                let mut set = std::collections::HashSet::new();
                for k in 0..1 + rng.usize(2) {
                    let mut assets = tx3_tir::model::assets::CanonicalAssets::from_naked_amount(*rng.pick(&big));
                    if rng.bool() {
                        assets = assets + tx3_tir::model::assets::CanonicalAssets::from_defined_asset(&rng.bytes(28), b"T", *rng.pick(&big));
                    }
                    if rng.chance(1, 3) {
                        assets = assets + tx3_tir::model::assets::CanonicalAssets::from_named_asset(b"named", *rng.pick(&big));
                    }
                    set.insert(tx3_tir::model::core::Utxo { r#ref: tx3_tir::model::core::UtxoRef { txid: rng.bytes(32), index: k as u32 }, address: rng.bytes(29), assets, datum: None, script: None });
                }
                t.inputs.push(tir::Input { name: "dup".into(), utxos: tir::Expression::UtxoSet(set), redeemer: tir::Expression::None });
                let mut b = to_bytes(&t).0;
                let maps = map_entries(&b);
                // maps with an integer-valued entry (asset amounts) three times in four
                let numeric: Vec<&(usize, Vec<(usize, usize, bool)>)> = maps.iter().filter(|(_, es)| es.iter().any(|e| e.2)).collect();
                let pick = if !numeric.is_empty() && rng.chance(3, 4) { Some(*rng.pick(&numeric)) } else if !maps.is_empty() { Some(rng.pick(&maps)) } else { None };
                if let Some((head, entries)) = pick {
                    let cands: Vec<&(usize, usize, bool)> = if entries.iter().any(|e| e.2) && rng.chance(3, 4) { entries.iter().filter(|e| e.2).collect() } else { entries.iter().collect() };
                    let (from, to, numeric_value) = **rng.pick(&cands);
                    let copy = b[from..to].to_vec();
                    b.splice(to..to, copy);
                    b[*head] += 1;
                    ctx.count(if numeric_value { "repeated-map-entry/integer-valued" } else { "repeated-map-entry/other" });
                }
                b
            }
            8 => {
                // duplicate a slice in place (repeats map keys / elements)
                let mut b = base.clone();
                if b.len() > 8 {
                    let i = rng.usize(b.len() - 8);
                    let w = 1 + rng.usize(8);
                    let s = b[i..i + w].to_vec();
                    b.splice(i..i, s);
                }
                b
            }
            9 => {
                // text with invalid utf-8 / indefinite strings
                let mut b = base.clone();
                if let Some(i) = b.iter().position(|x| (0x61..0x78).contains(x)) {
                    if i + 1 < b.len() {
                        b[i + 1] = 0xff;
                    }
                }
                b
            }
            10 => {
                // CBOR simple values / floats / negative ints where other things are expected
                let mut b = base.clone();
                if !b.is_empty() {
                    let i = rng.usize(b.len());
                    b[i] = *rng.pick(&[0xf4u8, 0xf5, 0xf6, 0xf7, 0xf9, 0xfa, 0xfb, 0x3b, 0x1b, 0xff, 0x5f, 0x7f, 0xbf]);
                }
                b
            }
            _ => {
                // the wire form of some other serialisable thing
                let v = match rng.below(3) {
                    0 => canon::value_bytes(&canon::to_value(&gen.expr(rng, 0))),
                    1 => canon::value_bytes(&canon::to_value(&gen.utxo(rng, 0))),
                    _ => canon::value_bytes(&ciborium::Value::Array(vec![ciborium::Value::Integer(1.into()); 11])),
                };
                v
            }
        };
        ctx.eval();
        ctx.count(&format!("hostile-kind/{kind}"));
        // nested inputs are decoded on a thread with Rust's default stack for spawned threads (2 MiB: what
        // a server's worker thread has), the rest on the main thread
        let r = if matches!(kind, 5 | 6 | 12) {
            ctx.count("hostile/decoded-on-2MiB-thread");
            let b = bytes.clone();
            crate::panics::catch(move || {
                std::thread::Builder::new()
                    .stack_size(2 << 20)
                    .spawn(move || {
                        // a panic inside the thread is reported through the join handle
                        std::panic::catch_unwind(|| from_bytes(&b, TirVersion::V1Beta0).map(|_| ()).map_err(|e| e.to_string()))
                    })
                    .expect("spawn")
                    .join()
            })
            .map(|j| match j {
                Ok(Ok(r)) => r,
                _ => Err("panic-in-decoder-thread".to_string()),
            })
        } else {
            crate::panics::catch(|| from_bytes(&bytes, TirVersion::V1Beta0).map(|_| ()).map_err(|e| e.to_string()))
        };
        match r {
            Ok(Err(e)) if e == "panic-in-decoder-thread" => ctx.violation("decode-panic:on-2MiB-thread", json!({"kind": kind, "bytes_hex_prefix": hex::encode(&bytes[..bytes.len().min(200)]), "len": bytes.len()})),
            Ok(Ok(_)) => ctx.count("hostile/ok"),
            Ok(Err(_)) => ctx.count("hostile/err"),
            Err(p) => ctx.violation(
                format!("decode-{}", p.signature()),
                json!({"kind": kind, "message": p.message, "location": p.location, "bytes_hex_prefix": hex::encode(&bytes[..bytes.len().min(200)]), "len": bytes.len()}),
            ),
        }
        ctx.nontrivial(crate::rng::fnv64(&bytes));
        if idx % 7919 == 0 {
            ctx.sample(|| json!({"phase": "hostile", "kind": kind, "len": bytes.len(), "hex_prefix": hex::encode(&bytes[..bytes.len().min(48)])}));
        }
    }

    fn versions(&self, ctx: &mut Ctx, idx: u64, rng: &mut Rng) {
        let s: String = if (idx as usize) < VERSION_STRINGS.len() {
            VERSION_STRINGS[idx as usize].to_string()
        } else if idx % 2 == 0 {
            // long names of mixed character widths: total byte length on and around powers of two, so that
            // any byte offset a length bound might cut at falls inside a multi-byte character for some of them
            ctx.count("versions/long-mixed-width");
            let target = *rng.pick(&[31usize, 32, 63, 64, 65, 127, 128, 129, 200, 255, 256, 257, 511, 512, 513, 1023, 1024, 1025, 4095, 4096, 4097, 70_000]) + rng.usize(4);
            let alphabet: &[&str] = match rng.below(5) {
                0 => &["€"],
                1 => &["日", "a"],
                2 => &["é", "a"],
                3 => &["𝄞", "a", "é"],
                _ => &["a", "é", "€", "𝄞", "v", "1", "0"],
            };
            let mut out = String::from(*rng.pick(&["", "", "v1beta0", "v1alpha8", "v", "a"]));
            while out.len() < target {
                let piece: &str = *rng.pick(alphabet);
                out.push_str(piece);
            }
            out
        } else {
            // random near-misses of the accepted string
            let mut b = "v1beta0".as_bytes().to_vec();
            match rng.below(3) {
                0 => {
                    let i = rng.usize(b.len());
                    b[i] = b'a' + rng.below(26) as u8;
                }
                1 => {
                    b.remove(rng.usize(b.len()));
                }
                _ => b.insert(rng.usize(b.len() + 1), b'0' + rng.below(10) as u8),
            }
            String::from_utf8(b).unwrap()
        };
        let mut gen = TirGen::new(2, false);
        let payload = to_bytes(&gen.tx(rng)).0;
        ctx.eval();
        ctx.nontrivial_str(&s);
        let r = crate::panics::catch(|| {
            let v = TirVersion::try_from(s.as_str()).map_err(|e| e.to_string())?;
            from_bytes(&payload, v).map_err(|e| e.to_string())
        });
        // and through the resolver's envelope
        let env = tx3_resolver::trp::TirEnvelope {
            content: hex::encode(&payload),
            encoding: tx3_resolver::interop::BytesEncoding::Hex,
            version: s.clone(),
        };
        let r2 = crate::panics::catch(|| AnyTir::try_from(env).map_err(|e| e.to_string()));
        for (via, r) in [("direct", r), ("envelope", r2)] {
            match r {
                Ok(Ok(_)) if s == "v1beta0" => ctx.count("versions/accepted-current"),
                Ok(Ok(_)) => ctx.violation(format!("version-gate:{via}"), json!({"version": s, "what": "decoding succeeded for a version other than v1beta0"})),
                Ok(Err(_)) if s == "v1beta0" => ctx.violation(format!("version-gate:{via}:current-rejected"), json!({"version": s})),
                Ok(Err(_)) => ctx.count("versions/rejected"),
                Err(p) => ctx.violation(format!("version-{}", p.signature()), json!({"version_prefix": s.chars().take(200).collect::<String>(), "version_bytes": s.len(), "message": p.message})),
            }
        }
        if idx < 3 {
            ctx.sample(|| json!({"phase": "versions", "version": s}));
        }
    }
}

impl Property for C11 {
    fn id(&self) -> &'static str {
        "C11"
    }

    fn rule(&self) -> String {
        "trees: random tir::Tx values (every Expression / Param / BuiltInOp / CompilerOp / Coerce / ScriptSource-free block variant, depth <= 6, ints over the i128 boundary set, usize::MAX constructors, byte strings 0..3000, UTxO sets with datums); lowered: every tx of every example program and of generated programs; long-chains: programs whose amount / datum is a flat chain of 10..400 terms (+, -), lowered and sent through the wire format; hostile: 12 mutation kinds of valid encodings (random, bit flips, truncation, splice, length lies (at random offsets and at the head of every string / array / map of the encoding, located with the independent CBOR reader), nesting bombs to 1e5, valid deep lists to 1000, 11 kinds of expression wrapper nested 50..100000 deep in a typed position (raw bytes) - all nested inputs decoded on a 2 MiB thread, and once more by an unoptimised (dev-profile) probe binary on a 2 MiB thread, overwrites, duplications, repeated entries in the encoding's own maps (incl. asset maps whose amounts sit at the ends of the i128 range), bad utf-8, wrong major types, foreign values); versions: fixed list + random near-misses of 'v1beta0' + names of 31..70000 bytes mixing 1/2/3/4-byte characters with byte lengths on and around powers of two, direct and through TirEnvelope. Non-trivial: a tree whose serialisation uses >= 6 distinct IR variants / a distinct hostile byte string / a distinct version string.".into()
    }

    fn assumptions(&self) -> Vec<String> {
        vec![
            "meaning-equality is equality of the canonicalised Serialize output (map entries, UtxoSet and Assets lists sorted); a field hidden from Serialize would be invisible".into(),
            "two UTxOs with the same reference are never put in one generated set (UTxO identity is its reference)".into(),
        ]
    }

    fn hang_is_violation(&self) -> bool {
        true
    }

    fn phases(&self, tier: Tier) -> Vec<Phase> {
        let (trees, hostile, lowered) = match tier {
            Tier::Quick => (6_000, 60_000, 300),
            Tier::Thorough => (400_000, 2_000_000, 20_000),
        };
        let mut v = vec![
            Phase::new("trees", trees, Profile::Release),
            Phase::new("examples", 80, Profile::Release),
            Phase::new("long-chains", 48, Profile::Release).exhaustive(),
            Phase::new("lowered", lowered, Profile::Release),
            Phase::new("hostile", hostile, Profile::Checked),
            Phase::new("versions", VERSION_STRINGS.len() as u64 + 800, Profile::Release).exhaustive(),
        ];
        if tier == Tier::Thorough {
            v.push(Phase::new("hostile-release", hostile / 4, Profile::Release));
        }
        v
    }

    fn required_features(&self, _tier: Tier) -> Vec<String> {
        let mut v: Vec<String> = [
            "List", "Map", "Tuple", "Struct", "Bytes", "Number", "Bool", "String", "Address", "Hash", "UtxoRefs", "UtxoSet", "Assets", "EvalParam", "EvalBuiltIn",
            "EvalCompiler", "EvalCoerce", "AdHocDirective", "Set", "ExpectValue", "ExpectInput", "ExpectFees", "Add", "Sub", "Concat", "Negate", "Property", "NoOp",
            "BuildScriptAddress", "ComputeMinUtxo", "ComputeTipSlot", "ComputeSlotToTime", "ComputeTimeToSlot", "IntoAssets", "IntoDatum", "IntoScript",
        ]
        .iter()
        .map(|s| format!("shape/{s}"))
        .collect();
        v.push("feature/valid-deep-list".into());
        v.push("deep-typed/depth-201..1100".into());
        v.push("deep-typed/depth>1100".into());
        v.push("hostile/decoded-on-2MiB-thread".into());
        v.push("stack-probe/err".into());
        v.push("examples/lowered-tx".into());
        v.push("hostile/err".into());
        v.push("versions/rejected".into());
        v.push("versions/long-mixed-width".into());
        v.push("length-lie/major-5".into());
        v.push("repeated-map-entry/integer-valued".into());
        v.push("length-lie/major-4".into());
        v.push("versions/accepted-current".into());
        v
    }

    fn supervisor_phase(&self, ctx: &mut Ctx, env: &Env) {
        // the same nested payloads through a small *unoptimised* binary (what `cargo run` / `cargo test`
        // users execute) that decodes each on a 2 MiB thread: an overflow there aborts the process
        let mut inputs: Vec<(String, Vec<u8>)> = vec![];
        for wi in 0..DEEP_WRAPPERS {
            for d in DEEP_DEPTHS {
                let (w, b) = deep_payload(wi, d);
                inputs.push((format!("{w}@{d}"), b));
            }
        }
        for n in [100usize, 255, 256, 257, 1000, 10_000, 100_000] {
            inputs.push((format!("raw-array@{n}"), vec![0x81; n]));
            inputs.push((format!("raw-tag@{n}"), vec![0xc1; n]));
            inputs.push((format!("raw-indefinite-array@{n}"), vec![0x9f; n]));
            inputs.push((format!("raw-map@{n}"), [0xa1u8, 0x00].repeat(n)));
        }
        match stack_probe(env, "C11", false, &inputs) {
            None => ctx.inconclusive("stack-probe:unusable"),
            Some(results) => {
                for (name, o) in results {
                    ctx.eval();
                    ctx.nontrivial_str(&format!("stack-probe:{name}"));
                    let depth: usize = name.split('@').nth(1).and_then(|d| d.parse().ok()).unwrap_or(0);
                    let len = inputs.iter().find(|(n, _)| *n == name).map(|(_, b)| b.len()).unwrap_or(0);
                    match o {
                        ProbeOutcome::Ok => ctx.count("stack-probe/ok"),
                        ProbeOutcome::Err => ctx.count("stack-probe/err"),
                        ProbeOutcome::Panic => {
                            ctx.count("stack-probe/panic");
                            ctx.violation("decode-panic:dev-profile:2MiB-thread", json!({"payload": name}));
                        }
                        ProbeOutcome::Killed(sig) => {
                            ctx.count("stack-probe/abort");
                            ctx.violation(
                                format!("abort:signal:{sig}:decode:dev-profile:2MiB-thread:depth{}", if depth <= 256 { "<=256" } else { ">256" }),
                                json!({"payload": name, "depth": depth, "len": len, "what": "tx3_tir::encoding::from_bytes on a 2 MiB thread in an unoptimised build was killed by a signal (stack overflow)"}),
                            );
                        }
                    }
                }
            }
        }
        if ctx.tier == Tier::Thorough {
            // the same generators and oracles once more under the Miri interpreter (ciborium-ll, serde and
            // hex `unsafe` code reached with truncated / lying / multi-byte inputs; overflow checks on)
            miri_cross_run(ctx, env, "C11", &[MiriPlan { phase: "hostile", cases: 208 }, MiriPlan { phase: "trees", cases: 64 }, MiriPlan { phase: "versions", cases: 32 }], 540);
        }
    }

    fn run_case(&self, ctx: &mut Ctx, phase: &str, idx: u64, rng: &mut Rng) {
        match phase {
            "trees" => {
                let mut gen = TirGen::new(2 + (idx % 5) as u32, idx % 2 == 0);
                let t = gen.tx(rng);
                check_roundtrip(ctx, &t, "random-tree");
                if idx % 1999 == 0 {
                    ctx.sample(|| {
                        let s = format!("{t:?}");
                        json!({"phase": "trees", "tx_debug_prefix": s.chars().take(600).collect::<String>(), "encoded_len": to_bytes(&t).0.len()})
                    });
                }
            }
            "long-chains" => {
                // source programs whose expressions are long flat chains: what lowering produces has to survive
                // the wire format whatever its depth
                let lens = [10usize, 40, 70, 80, 84, 85, 86, 90, 100, 128, 200, 400];
                let n = lens[(idx as usize) % lens.len()];
                let shape = (idx as usize / lens.len()) % 4;
                let chain = |head: &str, op: &str, term: &str| format!("{head}{}", format!(" {op} {term}").repeat(n - 1));
                let (amount, datum) = match shape {
                    0 => (chain("Ada(q)", "+", "Ada(q)"), "q".to_string()),
                    1 => (chain("s", "-", "Ada(1)"), "q".to_string()),
                    2 => ("Ada(q)".to_string(), chain("q", "+", "1")),
                    _ => ("Ada(q)".to_string(), chain("q", "-", "q")),
                };
                let src = format!("party A;\ntx t(q: Int) {{\n  input s {{ from: A, min_amount: Ada(q), }}\n  output {{ to: A, amount: {amount}, datum: {datum}, }}\n}}\n");
                ctx.count(&format!("long-chains/terms-{n}"));
                match crate::pipeline::front(&src, "t") {
                    Ok(t) => {
                        // a decoder that refuses what the encoder wrote, for depth alone, has its own signature
                        let (bytes, version) = to_bytes(&t);
                        match crate::panics::catch(|| from_bytes(&bytes, version)) {
                            Ok(Err(e)) if e.to_string().contains("RecursionLimitExceeded") => {
                                ctx.eval();
                                ctx.violation("roundtrip:lowered-ir-deeper-than-the-decoder-accepts", json!({"terms": n, "shape": shape, "encoded_len": bytes.len(), "error": e.to_string(), "source_prefix": src.chars().take(200).collect::<String>()}));
                            }
                            _ => check_roundtrip(ctx, &t, "long-chain"),
                        }
                        ctx.nontrivial(crate::rng::fnv64(src.as_bytes()));
                    }
                    Err(_) => ctx.count("long-chains/front-rejected"),
                }
            }
            "examples" => {
                let env = Env::from_env();
                let files = example_files(&env);
                let Some(f) = files.get(idx as usize) else { return };
                let Ok(src) = std::fs::read_to_string(f) else { return };
                match lower_all(&src) {
                    Some(txs) => {
                        for (name, t) in txs {
                            ctx.count("examples/lowered-tx");
                            check_roundtrip(ctx, &t, &format!("{}:{}", f.file_name().unwrap().to_string_lossy(), name));
                        }
                    }
                    None => ctx.count("examples/not-lowerable"),
                }
            }
            "lowered" => crate::props::lowered_roundtrip(ctx, idx, rng),
            "hostile" | "hostile-release" => self.hostile(ctx, idx, rng),
            "versions" => self.versions(ctx, idx, rng),
            _ => {}
        }
    }
}
