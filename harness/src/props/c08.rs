//! C08 — redeemers are attached to the item they were written for.

use crate::decode::tx as txview;
use crate::env::PP;
use crate::framework::*;
use crate::gen::ast::{print_program, Layout};
use crate::gen::build::{self, Cfg};
use crate::gen::sem::{out_of_range, Sem};
use crate::pipeline::{back_assigned, front};
use crate::props::c01::{err_sig, exp_json, world_json};
use crate::rng::{fnv64, Rng};
use serde_json::json;

pub struct C08;

fn tag_name(t: u8) -> &'static str {
    match t {
        0 => "spend",
        1 => "mint",
        2 => "cert",
        3 => "reward",
        _ => "other",
    }
}

impl Property for C08 {
    fn id(&self) -> &'static str {
        "C08"
    }
    fn rule(&self) -> String {
        "generated programs with 1..4 script inputs (single and multi-UTxO, redeemers on most), 0..3 mint/burn blocks with redeemers on single-policy blocks (distinct and shared policies, burns of minted classes), 0..3 withdrawals with redeemers on distinct reward accounts; transaction ids, output indices, policy ids and credentials are random so that every relative order occurs. Oracle: the map (purpose tag, index) -> data decoded from the witness set equals the map built from the source by ranking each guarded item in the ledger's sorted order of body inputs / mint policies / withdrawal accounts (one entry per UTxO of a multi-UTxO input); a tx whose blocks write two different redeemers for one policy (two mint blocks, or - one case in four - a mint and a burn of one policy) has no denotation and must be refused (`lost-redeemer:mint:two-redeemers-for-one-policy` when a transaction comes out). Non-trivial: >= 2 expected redeemers; distinct = distinct (source, world).".into()
    }
    fn assumptions(&self) -> Vec<String> {
        vec![
            "a mint block naming several policies, or whose policy cancels out against a burn, leaves the attachment open: such cases are counted, not judged".into(),
            "reward accounts follow the ledger format (header 0xe0/0xf0 | network, then the stake credential)".into(),
        ]
    }
    fn phases(&self, tier: Tier) -> Vec<Phase> {
        match tier {
            Tier::Quick => vec![Phase::new("redeemers", 6_000, Profile::Release)],
            Tier::Thorough => vec![Phase::new("redeemers", 300_000, Profile::Release)],
        }
    }
    fn required_features(&self, _tier: Tier) -> Vec<String> {
        ["expected/spend", "expected/mint", "expected/reward", "feature/many-input", "feature/burn-redeemer", "multi-utxo-redeemer", "orders/spend-not-source-order", "unencodable-redeemer/checked", "redeemer-conflict/refused"].iter().map(|s| s.to_string()).collect()
    }
    fn run_case(&self, ctx: &mut Ctx, phase: &str, idx: u64, rng: &mut Rng) {
        let cfg = Cfg { redeemer_focus: true, cardano_pct: 30, mint_pct: 70, datum_pct: 40, unencodable_redeemer: true, redeemer_clash: idx % 4 == 3, ..Default::default() };
        let g = build::generate(rng, &cfg);
        for t in &g.prog.tags {
            ctx.count(&format!("feature/{t}"));
        }
        let src = print_program(&g.prog, Layout::plain());
        for (ti, txd) in g.prog.txs.iter().enumerate() {
            let Ok(tir) = front(&src, &txd.name) else {
                ctx.count("front/rejected");
                continue;
            };
            for _ in 0..2 {
                let w = build::world(&g, ti, rng, &cfg);
                let semr = Sem::new(&g.prog, &w).tx(txd);
                let why = match &semr {
                    Err(crate::gen::sem::Undef::Undefined(m)) => m.clone(),
                    Ok(_) => String::new(),
                };
                let Ok(exp) = semr else {
                    ctx.count("world/undefined-denotation");
                    // two blocks of one policy (two mints, a mint and a burn) with different redeemers: the ledger
                    // has one slot per policy, so a transaction that comes out has lost a written redeemer
                    if why == "two redeemers for one policy" {
                        ctx.eval();
                        ctx.count("redeemer-conflict/world");
                        match back_assigned(&tir, &w, &PP::default()) {
                            Ok(c) => ctx.violation(
                                "lost-redeemer:mint:two-redeemers-for-one-policy",
                                json!({"source": src, "tx": txd.name, "world": world_json(&w), "payload": hex::encode(&c.payload),
                                       "note": "two mint / burn blocks of one policy carry different redeemers; the witness set has one slot per policy, so one of them is lost without an error"}),
                            ),
                            Err(e) if e.is_panic() => ctx.violation(format!("panic:{}", e.class()), json!({"source": src, "tx": txd.name, "world": world_json(&w), "panic": e.text()})),
                            Err(_) => ctx.count("redeemer-conflict/refused"),
                        }
                    }
                    // a redeemer that has no Plutus-Data form: whatever else happens, no transaction may come
                    // out that spends the input without it
                    if g.prog.tags.iter().any(|t| t == "unencodable-redeemer") && txd.inputs.iter().any(|i| matches!(&i.redeemer, Some(crate::gen::ast::E::Param(_)))) {
                        ctx.eval();
                        ctx.count("unencodable-redeemer/checked");
                        if let Ok(c) = back_assigned(&tir, &w, &PP::default()) {
                            let n_red = txview::view(&c.payload).map(|v| v.tx.redeemers.iter().filter(|(k, _)| k.0 == 0).count()).unwrap_or(0);
                            let n_exp: usize = txd.inputs.iter().filter(|i| i.redeemer.is_some()).map(|i| w.inputs[&i.name.to_lowercase()].len()).sum();
                            if n_red < n_exp {
                                ctx.violation("lost-redeemer:spend:unencodable-redeemer-dropped", json!({"source": src, "tx": txd.name, "world": world_json(&w), "spend_redeemers_in_witness_set": n_red, "expected_one_per_guarded_utxo": n_exp}));
                            }
                        }
                    }
                    continue;
                };
                if exp.ambiguous.is_some() {
                    ctx.count("world/ambiguous-denotation");
                    continue;
                }
                if !out_of_range(&exp).is_empty() {
                    ctx.count("world/out-of-range");
                    continue;
                }
                if exp.redeemers.is_empty() {
                    ctx.count("world/no-redeemers");
                    continue;
                }
                ctx.eval();
                for (t, _) in exp.redeemers.keys() {
                    ctx.count(&format!("expected/{}", tag_name(*t)));
                }
                if w.inputs.values().any(|us| us.len() > 1) && txd.inputs.iter().any(|i| i.many && i.redeemer.is_some()) {
                    ctx.count("multi-utxo-redeemer");
                }
                // did the ledger order differ from the source order of the input blocks?
                let src_order: Vec<(Vec<u8>, u64)> = txd.inputs.iter().flat_map(|i| w.inputs[&i.name.to_lowercase()].iter().map(|u| (u.txid.clone(), u.index))).collect();
                let mut sorted = src_order.clone();
                sorted.sort();
                if sorted != src_order {
                    ctx.count("orders/spend-not-source-order");
                }
                let detail = |what: serde_json::Value| json!({"source": src, "tx": txd.name, "world": world_json(&w), "expected": exp_json(&exp), "observed": what, "phase": phase});
                match back_assigned(&tir, &w, &PP::default()) {
                    Err(e) => {
                        ctx.count(&format!("back/{}", e.class()));
                        ctx.violation(format!("error-instead-of-tx:{}:{}", e.class(), err_sig(&e.text())), detail(json!({"error": e.text()})));
                    }
                    Ok(c) => match txview::view(&c.payload) {
                        Err(e) => ctx.violation(format!("undecodable-payload:{}", err_sig(&e)), detail(json!({"decode_error": e}))),
                        Ok(v) => {
                            ctx.count("decoded");
                            let got = &v.tx.redeemers;
                            if v.facts.duplicates.iter().any(|d| d == "redeemers") {
                                ctx.violation("duplicate-redeemer", detail(json!({"decoded": exp_json(&v.tx)})));
                            }
                            // the body fields the indices refer to must be the expected ones, otherwise
                            // the comparison of indices is meaningless (and C01 reports it)
                            if v.tx.inputs != exp.inputs || v.tx.mint.keys().map(|k| &k.0).collect::<std::collections::BTreeSet<_>>() != exp.mint.keys().map(|k| &k.0).collect() {
                                ctx.count("body-differs-skipped");
                                continue;
                            }
                            for (key, data) in &exp.redeemers {
                                match got.get(key) {
                                    Some(d) if d == data => {}
                                    Some(_) => {
                                        // right slot, other data: is our data somewhere else?
                                        let elsewhere = got.iter().any(|(k, d)| k.0 == key.0 && d == data);
                                        let sig = if elsewhere { "misindexed" } else { "wrong-data" };
                                        ctx.violation(format!("{sig}:{}", tag_name(key.0)), detail(json!({"key": format!("{key:?}"), "decoded": exp_json(&v.tx)})));
                                    }
                                    None => {
                                        let elsewhere = got.iter().any(|(k, d)| k.0 == key.0 && d == data && !exp.redeemers.contains_key(k));
                                        let sig = if elsewhere { "misindexed" } else { "lost-redeemer" };
                                        let multi = key.0 == 0 && txd.inputs.iter().any(|i| i.many && i.redeemer.is_some() && w.inputs[&i.name.to_lowercase()].len() > 1);
                                        ctx.violation(
                                            format!("{sig}:{}{}", tag_name(key.0), if multi && sig == "lost-redeemer" { ":multi-utxo-input" } else { "" }),
                                            detail(json!({"key": format!("{key:?}"), "decoded": exp_json(&v.tx)})),
                                        );
                                    }
                                }
                            }
                            for key in got.keys() {
                                if !exp.redeemers.contains_key(key) {
                                    ctx.violation(format!("spurious-redeemer:{}", tag_name(key.0)), detail(json!({"key": format!("{key:?}"), "decoded": exp_json(&v.tx)})));
                                }
                            }
                            // withdrawals: the accounts the reward redeemers point at
                            if exp.withdrawals != v.tx.withdrawals {
                                ctx.violation("withdrawal-accounts-differ", detail(json!({"decoded_withdrawals": v.tx.withdrawals.iter().map(|(k, q)| (hex::encode(k), q.to_string())).collect::<Vec<_>>(), "expected_withdrawals": exp.withdrawals.iter().map(|(k, q)| (hex::encode(k), q.to_string())).collect::<Vec<_>>()})));
                            }
                            if exp.redeemers.len() >= 2 {
                                ctx.nontrivial(fnv64(format!("{}{:?}{:?}", src, w.args, exp.inputs).as_bytes()));
                            }
                            ctx.sample(|| json!({"source": src, "tx": txd.name, "expected_redeemers": exp.redeemers.iter().map(|(k, d)| (format!("{k:?}"), format!("{d:?}").chars().take(120).collect::<String>())).collect::<Vec<_>>()}));
                        }
                    },
                }
            }
        }
    }
}
