//! C20 — resolution does not depend on what the compiler instance compiled before.

use crate::env::{self, LoggedStore, PP};
use crate::framework::*;
use crate::gen::ast::{print_program, Layout};
use crate::pipeline::front;
use crate::props::c05::{args, program, single_utxo_store, Shape};
use crate::rng::{fnv64, Rng};
use serde_json::json;
use tx3_cardano::Compiler;
use tx3_resolver::resolve_tx;
use tx3_tir::encoding::AnyTir;
use tx3_tir::model::v1beta0 as tir;

pub struct C20;

#[derive(Clone, Debug, PartialEq)]
enum Outcome {
    Ok { payload: Vec<u8>, hash: Vec<u8>, fee: u64 },
    Err(String),
    Panic(String),
}

impl Outcome {
    fn kind(&self) -> String {
        match self {
            Outcome::Ok { .. } => "ok".into(),
            Outcome::Err(k) => format!("err({k})"),
            Outcome::Panic(k) => format!("panic({k})"),
        }
    }
}

fn random_shape(rng: &mut Rng, force_min_utxo: bool) -> Shape {
    let extra = rng.usize(5);
    let mut min_utxo_on: Vec<usize> = (0..extra).filter(|_| rng.chance(1, 3)).collect();
    if force_min_utxo && extra > 0 && min_utxo_on.is_empty() {
        min_utxo_on.push(rng.usize(extra));
    }
    Shape { fees_in_min: rng.bool(), change: rng.chance(3, 4), extra_outputs: extra, min_utxo_on, datum_on_change: rng.chance(1, 4), token_in_change: false, metadata: rng.chance(1, 6), gift: match rng.below(6) { 0 | 1 => Some(0), 2 => Some(1_200_000), _ => None }, native_witness: false }
}

fn resolve_once(compiler: &mut Compiler, lowered: &tir::Tx, q: i128, lovelace: i128, tag: u8) -> Outcome {
    resolve_with(compiler, lowered, &args(q), lovelace, tag)
}

fn resolve_with(compiler: &mut Compiler, lowered: &tir::Tx, argmap: &tx3_tir::reduce::ArgMap, lovelace: i128, tag: u8) -> Outcome {
    let store = LoggedStore::new(single_utxo_store(lovelace, 0, tag));
    let r = crate::panics::catch(|| pollster::block_on(resolve_tx(AnyTir::V1Beta0(lowered.clone()), argmap, compiler, &store, 6)));
    match r {
        Ok(Ok(c)) => Outcome::Ok { payload: c.payload, hash: c.hash, fee: c.fee },
        Ok(Err(e)) => Outcome::Err(crate::props::c01::err_sig(&e.to_string())),
        Err(p) => Outcome::Panic(p.signature()),
    }
}

impl Property for C20 {
    fn id(&self) -> &'static str {
        "C20"
    }
    fn rule(&self) -> String {
        "histories of 0..4 earlier uses of one tx3_cardano::Compiler instance - resolutions through resolve_tx (templates 'pay' with 0..4 extra outputs, with and without min_utxo, with stores that make them succeed, fail at once, or fail in a later pass just below the minimum), direct compile() calls, direct evaluations of compiler operators and, in a fifth of the cases, a resolution of the target's twin (same body, another witness set) - followed by a target template (min_utxo on random output indices, an optional output that is dropped from the body in a third of the cases, incl. indices beyond the outputs of the previous transaction; in a third of the cases handed to resolve_tx with its arguments already applied, so that no parameter is left, and an empty or the same argument map; in a sixth with the input UTxO and a fee applied as well - a settled template); the same target is resolved on a fresh, identically configured instance against the same single-UTxO store. Oracle: outcome (payload bytes + hash + fee, or error kind, or panic site) on the used instance = outcome on the fresh one; latest_tx_body before the target is logged as the candidate leak. Non-trivial: history length >= 1 and the target uses min_utxo; distinct = distinct (history, target, pparams).".into()
    }
    fn assumptions(&self) -> Vec<String> {
        vec!["single-UTxO input blocks and the same store contents for both runs, so that hash order cannot differ between them".into()]
    }
    fn phases(&self, tier: Tier) -> Vec<Phase> {
        match tier {
            Tier::Quick => vec![Phase::new("histories", 4_000, Profile::Release)],
            Tier::Thorough => vec![Phase::new("histories", 200_000, Profile::Release)],
        }
    }
    fn required_features(&self, _tier: Tier) -> Vec<String> {
        ["history/len-0", "history/len-4", "history/with-failure", "history/direct-compile", "history/direct-compiler-ops", "history/failure-just-below-the-minimum", "history/twin-with-another-witness-set", "target/min_utxo", "target/index-beyond-previous-outputs", "target/min_utxo+dropped-optional-output", "target/tight-balance", "target/no-parameter-left", "target/arguments+inputs+fee-pre-applied", "outcome/ok", "state/latest_tx_body-set"].iter().map(|s| s.to_string()).collect()
    }
    fn run_case(&self, ctx: &mut Ctx, phase: &str, idx: u64, rng: &mut Rng) {
        let pp = PP { mainnet: rng.bool(), a: *rng.pick(&[44u64, 1, 100, 0]), b: *rng.pick(&[155_381u64, 0]), coins_per_utxo_byte: if rng.chance(1, 3) { rng.range(1, 40_000) as u64 } else { *rng.pick(&[4310u64, 1, 34482, 289, 290, 291]) }, extra_fees: *rng.pick(&[None, Some(0), Some(123_456)]), cost_models: vec![0, 1, 2], cost_salt: 0 };
        let hlen = rng.usize(5);
        ctx.count(&format!("history/len-{hlen}"));
        let mut used = env::compiler(&pp);
        let mut history = vec![];
        let mut last_outputs = None;
        for h in 0..hlen {
            let shape = random_shape(rng, false);
            let src = print_program(&program(&shape), Layout::plain());
            let Ok(lowered) = front(&src, "pay") else { continue };
            let q = rng.range(1_000_000, 3_000_000) as i128;
            // the instance is not only used through resolve_tx: one step in four compiles a transaction (or only
            // evaluates its compiler operators) directly on it
            if rng.chance(1, 4) {
                use tx3_tir::compile::Compiler as _;
                use tx3_tir::reduce::{apply_args, apply_fees, apply_inputs, reduce};
                use tx3_tir::Node as _;
                let only_ops = rng.chance(1, 3);
                let utxos: std::collections::HashSet<tx3_tir::model::core::Utxo> = single_utxo_store(80_000_000, 0, 0x50 + h as u8).into_iter().collect();
                let r = crate::panics::catch(|| -> Result<usize, String> {
                    let t = apply_args(AnyTir::V1Beta0(lowered.clone()), &args(q)).map_err(|e| e.to_string())?;
                    let t = apply_inputs(t, &std::collections::BTreeMap::from([("source".to_string(), utxos.clone())])).map_err(|e| e.to_string())?;
                    let t = apply_fees(t, 300_000).map_err(|e| e.to_string())?;
                    let t = t.apply(&mut used).map_err(|e| e.to_string())?;
                    if only_ops {
                        return Ok(0);
                    }
                    let t = reduce(t).map_err(|e| e.to_string())?;
                    used.compile(&t).map(|c| c.payload.len()).map_err(|e| e.to_string())
                });
                ctx.count(if only_ops { "history/direct-compiler-ops" } else { "history/direct-compile" });
                history.push(json!({"step": if only_ops { "direct Node::apply(compiler)" } else { "direct compile" }, "extra_outputs": shape.extra_outputs, "min_utxo_on": shape.min_utxo_on, "gift": shape.gift.map(|g| g.to_string()), "ok": matches!(r, Ok(Ok(_)))}));
                continue;
            }
            let mut lovelace = if rng.chance(1, 4) { rng.range(0, 1_000_000) as i128 } else { 50_000_000 + rng.range(0, 50_000_000) as i128 };
            if rng.chance(1, 4) {
                // a resolution that fails late: just below the smallest UTxO with which a fresh instance succeeds
                // (the first pass, at fee 0, still finds its input; a later pass does not)
                let ok_with = |l: i128| matches!(resolve_once(&mut env::compiler(&pp), &lowered, q, l, 0x40 + h as u8), Outcome::Ok { .. });
                let (mut lo, mut hi) = (0i128, 200_000_000i128);
                if ok_with(hi) {
                    while hi - lo > 1 {
                        let mid = (lo + hi) / 2;
                        if ok_with(mid) {
                            hi = mid;
                        } else {
                            lo = mid;
                        }
                    }
                    lovelace = hi - *rng.pick(&[1i128, 100, 10_000, 100_000]);
                    ctx.count("history/failure-just-below-the-minimum");
                }
            }
            let o = resolve_once(&mut used, &lowered, q, lovelace, 0x40 + h as u8);
            if !matches!(o, Outcome::Ok { .. }) {
                ctx.count("history/with-failure");
            }
            history.push(json!({"extra_outputs": shape.extra_outputs, "min_utxo_on": shape.min_utxo_on, "change": shape.change, "lovelace": lovelace.to_string(), "outcome": o.kind()}));
            if matches!(o, Outcome::Ok { .. }) {
                last_outputs = Some(1 + shape.extra_outputs + shape.change as usize);
            }
        }
        let body_before = used.latest_tx_body.as_ref().map(|b| b.outputs.len());
        if body_before.is_some() {
            ctx.count("state/latest_tx_body-set");
        }
        let target_shape = random_shape(rng, true);
        if !target_shape.min_utxo_on.is_empty() {
            ctx.count("target/min_utxo");
            if target_shape.gift == Some(0) {
                ctx.count("target/min_utxo+dropped-optional-output");
            }
        }
        if let (Some(prev), Some(max_idx)) = (body_before, target_shape.min_utxo_on.iter().max()) {
            if 1 + max_idx >= prev {
                ctx.count("target/index-beyond-previous-outputs");
            }
        }
        let _ = last_outputs;
        let src = print_program(&program(&target_shape), Layout::plain());
        let Ok(lowered) = front(&src, "pay") else {
            ctx.count("front/rejected");
            return;
        };
        let q = rng.range(1_000_000, 3_000_000) as i128;
        let mut lovelace = if rng.chance(1, 6) { rng.range(0, 2_000_000) as i128 } else { 60_000_000 + rng.range(0, 40_000_000) as i128 };
        if rng.chance(1, 3) {
            // tight balance: the smallest UTxO with which a *fresh* instance resolves the target (binary
            // search), plus a small offset - where a min_utxo sized from a stale body flips the outcome
            let ok_with = |l: i128| matches!(resolve_once(&mut env::compiler(&pp), &lowered, q, l, 0x77), Outcome::Ok { .. });
            let (mut lo, mut hi) = (0i128, 200_000_000i128);
            if ok_with(hi) {
                while hi - lo > 1 {
                    let mid = (lo + hi) / 2;
                    if ok_with(mid) {
                        hi = mid;
                    } else {
                        lo = mid;
                    }
                }
                lovelace = hi + *rng.pick(&[0i128, 0, 1, -1, 100, 1_000, 20_000, 150_000]);
                ctx.count("target/tight-balance");
            }
        }
        // one time in five the instance has just resolved a twin of the target: the same template, arguments and
        // UTxO, plus a native script in the witness set - the two bodies are byte-identical, the payloads are not
        if rng.chance(1, 5) {
            let mut twin = target_shape.clone();
            twin.native_witness = true;
            let tsrc = print_program(&program(&twin), Layout::plain());
            if let Ok(tl) = front(&tsrc, "pay") {
                let o = resolve_once(&mut used, &tl, q, lovelace, 0x77);
                ctx.count("history/twin-with-another-witness-set");
                history.push(json!({"step": "resolve_tx of the target's twin (same body, native script attached)", "outcome": o.kind()}));
            }
        }
        // one time in three the target reaches resolve_tx with its arguments already applied (a client that
        // applies arguments in an earlier step): no parameter is left, the call's argument map is empty or the same
        let mut target = lowered.clone();
        let mut argmap = args(q);
        let mut target_form = "as-lowered";
        if rng.chance(1, 3) {
            if let Ok(Ok(AnyTir::V1Beta0(t))) = crate::panics::catch(|| tx3_tir::reduce::apply_args(AnyTir::V1Beta0(lowered.clone()), &args(q))) {
                target = t;
                target_form = if rng.bool() {
                    argmap = Default::default();
                    "arguments-pre-applied:empty-map"
                } else {
                    "arguments-pre-applied:same-map"
                };
                if tx3_tir::reduce::find_params(&AnyTir::V1Beta0(target.clone())).is_empty() {
                    ctx.count("target/no-parameter-left");
                }
            }
        }
        // one time in six everything is applied by the caller beforehand - arguments, the input UTxO and a fee - so
        // that resolve_tx receives a settled template (no parameter, no query, constant fee)
        if target_form == "as-lowered" && rng.chance(1, 5) {
            use tx3_tir::reduce::{apply_args, apply_fees, apply_inputs};
            let utxos: std::collections::HashSet<tx3_tir::model::core::Utxo> = single_utxo_store(lovelace, 0, 0x77).into_iter().collect();
            let fee = *rng.pick(&[0u64, 180_000, 300_000, 1_000_000]);
            let settled = crate::panics::catch(|| -> Result<AnyTir, String> {
                let t = apply_args(AnyTir::V1Beta0(lowered.clone()), &args(q)).map_err(|e| e.to_string())?;
                let t = apply_inputs(t, &std::collections::BTreeMap::from([("source".to_string(), utxos.clone())])).map_err(|e| e.to_string())?;
                apply_fees(t, fee).map_err(|e| e.to_string())
            });
            if let Ok(Ok(AnyTir::V1Beta0(t))) = settled {
                target = t;
                argmap = if rng.bool() { Default::default() } else { args(q) };
                target_form = "arguments+inputs+fee-pre-applied";
            }
        }
        ctx.count(&format!("target/{target_form}"));
        ctx.eval();
        let on_used = resolve_with(&mut used, &target, &argmap, lovelace, 0x77);
        let mut fresh = env::compiler(&pp);
        let on_fresh = resolve_with(&mut fresh, &target, &argmap, lovelace, 0x77);
        ctx.count(&format!("outcome/{}", if matches!(on_fresh, Outcome::Ok { .. }) { "ok" } else { "not-ok" }));
        if on_used != on_fresh {
            let pair = match (&on_used, &on_fresh) {
                (Outcome::Ok { .. }, Outcome::Ok { .. }) => "ok-vs-ok:bytes-differ".to_string(),
                (a, b) => format!("{}-vs-{}", a.kind(), b.kind()),
            };
            ctx.violation(
                format!("history-dependence:{pair}"),
                json!({"phase": phase, "history": history, "target_form": target_form, "outputs_of_latest_tx_body_before_target": body_before, "target_source": src, "target_min_utxo_on_extra_outputs": target_shape.min_utxo_on,
                    "pparams": {"a": pp.a, "b": pp.b, "extra_fees": pp.extra_fees, "coins_per_utxo_byte": pp.coins_per_utxo_byte}, "quantity": q.to_string(), "utxo_lovelace": lovelace.to_string(),
                    "on_used_instance": format!("{on_used:?}").chars().take(600).collect::<String>(), "on_fresh_instance": format!("{on_fresh:?}").chars().take(600).collect::<String>()}),
            );
        }
        if hlen >= 1 && !target_shape.min_utxo_on.is_empty() {
            ctx.nontrivial(fnv64(format!("{history:?}{src}{q}{lovelace}{:?}", (pp.a, pp.b)).as_bytes()));
        }
        if idx % 397 == 0 {
            ctx.sample(|| json!({"history": history, "target_source": src, "outcome": on_fresh.kind()}));
        }
    }
}
