//! C07 — staged application is order-independent and reduction is idempotent.

use crate::canon;
use crate::decode::tx as txview;
use crate::env::{self, PP};
use crate::framework::*;
use crate::gen::ast::{print_program, Layout};
use crate::gen::build::{self, Cfg};
use crate::pipeline::front;
use crate::props::c01::{err_sig, in_range_world, world_json};
use crate::rng::{fnv64, Rng};
use serde_json::json;
use std::collections::BTreeMap;
use tx3_tir::compile::Compiler as _;
use tx3_tir::encoding::AnyTir;
use tx3_tir::model::v1beta0 as tir;
use tx3_tir::reduce::{apply_args, apply_fees, apply_inputs, reduce, Apply as _};
use tx3_tir::Node as _;

pub struct C07;

#[derive(Clone, Copy, Debug, PartialEq, Eq)]
enum Stage {
    Args,
    Inputs,
    Fees,
    CompilerOps,
}

const STAGES: [Stage; 4] = [Stage::Args, Stage::Inputs, Stage::Fees, Stage::CompilerOps];

fn permutations() -> Vec<[Stage; 4]> {
    let mut out = vec![];
    for a in 0..4 {
        for b in 0..4 {
            for c in 0..4 {
                for d in 0..4 {
                    let idx = [a, b, c, d];
                    let mut seen = [false; 4];
                    if idx.iter().all(|i| !std::mem::replace(&mut seen[*i], true)) {
                        out.push([STAGES[a], STAGES[b], STAGES[c], STAGES[d]]);
                    }
                }
            }
        }
    }
    out
}

#[derive(Clone, Debug, PartialEq)]
enum Final {
    /// canonical bytes of the fully reduced template, and the decoded compiled tx when it is constant
    Done(Vec<u8>, Option<String>),
    Err(String),
}

fn sched_name(order: &[Stage; 4], mask: u32) -> String {
    let mut s = String::new();
    if mask & 32 != 0 {
        s.push_str("[args in two instalments with R between] ");
    }
    if mask & 1 != 0 {
        s.push_str("R,");
    }
    for (i, st) in order.iter().enumerate() {
        s.push_str(match st {
            Stage::Args => "args",
            Stage::Inputs => "inputs",
            Stage::Fees => "fees",
            Stage::CompilerOps => "cops",
        });
        if mask & (1 << (i + 1)) != 0 {
            s.push_str(",R");
        }
        s.push(',');
    }
    s
}

#[derive(Clone, Copy, PartialEq)]
enum TTy {
    Int,
    Bytes,
    ListInt,
    MapIntInt,
    Assets,
}

/// Typed, evaluable IR expressions with parameters at the leaves: what a reduction can actually fold.
struct TreeGen {
    params: Vec<(String, tx3_tir::model::core::Type)>,
    /// integer literals (and arguments) from the ends of the i128 range as well: sums that overflow in one
    /// association and not in another
    extreme: bool,
}

const EXTREME_INTS: [i128; 9] = [i128::MAX, i128::MAX - 1, i128::MIN, i128::MIN + 1, 1 << 126, -(1 << 126), 10, 1, -1];

impl TreeGen {
    fn param(&mut self, ty: tx3_tir::model::core::Type, rng: &mut Rng) -> tir::Expression {
        // reuse an existing parameter of that type half of the time
        let same: Vec<String> = self.params.iter().filter(|(_, t)| *t == ty).map(|(n, _)| n.clone()).collect();
        let name = if !same.is_empty() && rng.bool() {
            rng.pick(&same).clone()
        } else {
            let n = format!("p{}", self.params.len());
            self.params.push((n.clone(), ty.clone()));
            n
        };
        tir::Expression::EvalParam(Box::new(tir::Param::ExpectValue(name, ty)))
    }

    fn gen(&mut self, ty: TTy, depth: u32, rng: &mut Rng) -> tir::Expression {
        use tir::BuiltInOp as B;
        use tir::Expression as E;
        use tx3_tir::model::core::Type;
        let op = |b: B| E::EvalBuiltIn(Box::new(b));
        let leaf = depth >= 3 || rng.chance(1, 3);
        match ty {
            TTy::Int => {
                if leaf {
                    if self.extreme && rng.chance(1, 3) {
                        return E::Number(*rng.pick(&EXTREME_INTS));
                    }
                    return if rng.bool() { E::Number(rng.below(4) as i128) } else { self.param(Type::Int, rng) };
                }
                if self.extreme && rng.chance(1, 3) {
                    // (pending +- literal) +- literal: the shape in which folding the two literals first changes
                    // whether an intermediate sum leaves the range
                    let x = self.param(Type::Int, rng);
                    let (a, b) = (E::Number(*rng.pick(&EXTREME_INTS)), E::Number(*rng.pick(&EXTREME_INTS)));
                    let inner = if rng.bool() { op(B::Add(x, a)) } else { op(B::Sub(x, a)) };
                    return if rng.bool() { op(B::Add(inner, b)) } else { op(B::Sub(inner, b)) };
                }
                match rng.below(7) {
                    0 => op(B::Add(self.gen(TTy::Int, depth + 1, rng), self.gen(TTy::Int, depth + 1, rng))),
                    1 => op(B::Sub(self.gen(TTy::Int, depth + 1, rng), self.gen(TTy::Int, depth + 1, rng))),
                    2 => op(B::Negate(self.gen(TTy::Int, depth + 1, rng))),
                    3 | 4 => op(B::Property(self.gen(TTy::ListInt, depth + 1, rng), self.gen(TTy::Int, depth + 2, rng))),
                    // value of the map entry found under a key: (map[key])[1]
                    _ => op(B::Property(op(B::Property(self.gen(TTy::MapIntInt, depth + 1, rng), self.gen(TTy::Int, depth + 2, rng))), E::Number(1))),
                }
            }
            TTy::Bytes => {
                if leaf {
                    if rng.bool() {
                        let n = 1 + rng.usize(4);
                        return E::Bytes(rng.bytes(n));
                    }
                    return self.param(Type::Bytes, rng);
                }
                op(B::Concat(self.gen(TTy::Bytes, depth + 1, rng), self.gen(TTy::Bytes, depth + 1, rng)))
            }
            TTy::ListInt => {
                if !leaf && rng.chance(1, 3) {
                    return op(B::Concat(self.gen(TTy::ListInt, depth + 1, rng), self.gen(TTy::ListInt, depth + 1, rng)));
                }
                E::List((0..2 + rng.usize(3)).map(|_| self.gen(TTy::Int, depth + 1, rng)).collect())
            }
            TTy::MapIntInt => E::Map((0..1 + rng.usize(3)).map(|_| (self.gen(TTy::Int, depth + 2, rng), self.gen(TTy::Int, depth + 1, rng))).collect()),
            TTy::Assets => {
                if !leaf {
                    return match rng.below(3) {
                        0 => op(B::Add(self.gen(TTy::Assets, depth + 1, rng), self.gen(TTy::Assets, depth + 1, rng))),
                        1 => op(B::Sub(self.gen(TTy::Assets, depth + 1, rng), self.gen(TTy::Assets, depth + 1, rng))),
                        _ => op(B::Negate(self.gen(TTy::Assets, depth + 1, rng))),
                    };
                }
                let lovelace = rng.chance(1, 3);
                E::Assets(vec![tir::AssetExpr {
                    policy: if lovelace { E::None } else if rng.chance(1, 3) { self.param(Type::Bytes, rng) } else { E::Bytes(vec![rng.below(2) as u8; 28]) },
                    asset_name: if lovelace { E::None } else if rng.chance(1, 3) { self.param(Type::Bytes, rng) } else { E::Bytes(vec![b'A' + rng.below(2) as u8]) },
                    amount: self.gen(TTy::Int, depth + 2, rng),
                }])
            }
        }
    }
}

impl C07 {
    /// random typed expression trees: every way of feeding the arguments (at once, after an initial
    /// reduction, in two instalments in either order with a reduction in between) must end in the same
    /// reduced template, or all in an error
    fn trees(&self, ctx: &mut Ctx, idx: u64, rng: &mut Rng) {
        use tx3_tir::model::core::Type;
        use tx3_tir::reduce::ArgValue;
        let extreme = idx % 3 == 0;
        if extreme {
            ctx.count("trees/extreme-integers");
        }
        let mut g = TreeGen { params: vec![], extreme };
        let datum = tir::Expression::List(vec![g.gen(TTy::Int, 0, rng), g.gen(TTy::Bytes, 1, rng), g.gen(TTy::MapIntInt, 1, rng), g.gen(TTy::Int, 0, rng)]);
        let amount = g.gen(TTy::Assets, 0, rng);
        let tx = tir::Tx {
            fees: tir::Expression::None,
            references: vec![],
            inputs: vec![],
            outputs: vec![tir::Output { address: tir::Expression::Address(vec![0x60; 29]), datum, amount, optional: false }],
            validity: None,
            mints: vec![],
            burns: vec![],
            adhoc: vec![],
            collateral: vec![],
            signers: None,
            metadata: vec![],
        };
        if g.params.is_empty() {
            ctx.count("trees/no-params");
            return;
        }
        let args: BTreeMap<String, ArgValue> = g
            .params
            .iter()
            .map(|(n, t)| {
                (n.clone(), match t {
                    Type::Int => ArgValue::Int(if extreme && rng.chance(1, 3) { *rng.pick(&EXTREME_INTS) } else { rng.below(4) as i128 }),
                    _ => ArgValue::Bytes(if rng.bool() { vec![rng.below(2) as u8; 28] } else { vec![b'A' + rng.below(2) as u8] }),
                })
            })
            .collect();
        let (first, second): (BTreeMap<_, _>, BTreeMap<_, _>) = {
            let mut a = BTreeMap::new();
            let mut b = BTreeMap::new();
            for (k, v) in &args {
                if rng.bool() {
                    a.insert(k.clone(), v.clone());
                } else {
                    b.insert(k.clone(), v.clone());
                }
            }
            (a, b)
        };
        let empty: BTreeMap<String, ArgValue> = BTreeMap::new();
        // decoys: keys that differ from the template's parameter names in letter case only, with other values;
        // whatever they mean to apply_args, it must not depend on whether they arrive before, after or with
        // the real arguments
        let decoys: BTreeMap<String, ArgValue> = args
            .iter()
            .map(|(k, v)| {
                (k.to_uppercase(), match v {
                    ArgValue::Int(n) => ArgValue::Int(n + 1 + rng.below(3) as i128),
                    _ => ArgValue::Bytes(vec![0xdd; 3]),
                })
            })
            .collect();
        let mut both = args.clone();
        both.extend(decoys.clone());
        // (name, [reduce first?, args1, reduce between?, args2])
        let schedules: Vec<(&str, bool, &BTreeMap<String, ArgValue>, bool, &BTreeMap<String, ArgValue>)> = vec![
            ("args,R", false, &args, false, &empty),
            ("R,args,R", true, &args, false, &empty),
            ("args[1/2],R,args[2/2],R", false, &first, true, &second),
            ("args[2/2],R,args[1/2],R", false, &second, true, &first),
            ("R,args[1/2],R,args[2/2],R", true, &first, true, &second),
            ("args[1/2],args[2/2],R", false, &first, false, &second),
            ("decoys,args,R", false, &decoys, false, &args),
            ("args,decoys,R", false, &args, false, &decoys),
            ("decoys,R,args,R", false, &decoys, true, &args),
            ("args+decoys,R", false, &both, false, &empty),
        ];
        let mut outcomes: Vec<(&str, Result<Vec<u8>, String>)> = vec![];
        for (name, r0, a1, r1, a2) in &schedules {
            ctx.eval();
            let tx = tx.clone();
            let r = crate::panics::catch(|| -> Result<Vec<u8>, String> {
                let mut t = AnyTir::V1Beta0(tx);
                if *r0 {
                    t = reduce(t).map_err(|e| format!("reduce:{}", err_sig(&e.to_string())))?;
                }
                t = apply_args(t, a1).map_err(|e| format!("args:{}", err_sig(&e.to_string())))?;
                if *r1 {
                    t = reduce(t).map_err(|e| format!("reduce:{}", err_sig(&e.to_string())))?;
                }
                t = apply_args(t, a2).map_err(|e| format!("args:{}", err_sig(&e.to_string())))?;
                let t = reduce(t).map_err(|e| format!("reduce:{}", err_sig(&e.to_string())))?;
                let again = reduce(t.clone()).map_err(|e| format!("reduce-again:{}", err_sig(&e.to_string())))?;
                let (AnyTir::V1Beta0(a), AnyTir::V1Beta0(b)) = (&t, &again);
                // asset lists that went through arithmetic come back in hash order: compared as multisets
                let (sa, sb) = (canon::canon_bytes(a), canon::canon_bytes(b));
                if sa != sb {
                    return Err("NOT-IDEMPOTENT".into());
                }
                Ok(sa)
            });
            outcomes.push((name, match r {
                Ok(x) => x,
                Err(p) => Err(p.signature()),
            }));
        }
        let detail = || {
            json!({"tir_hex": hex::encode(tx3_tir::encoding::to_bytes(&tx).0), "tx_debug": format!("{:?}", tx.outputs[0]).chars().take(3000).collect::<String>(), "args": format!("{args:?}"), "first_instalment": first.keys().collect::<Vec<_>>(),
                "outcomes": outcomes.iter().map(|(n, o)| json!({"schedule": n, "outcome": match o { Ok(b) => format!("ok:{:016x}", fnv64(b)), Err(e) => format!("err:{e}") }})).collect::<Vec<_>>()})
        };
        if outcomes.iter().any(|(_, o)| matches!(o, Err(e) if e == "NOT-IDEMPOTENT")) {
            ctx.violation("reduce-not-idempotent:tree", detail());
        }
        let oks: Vec<&Vec<u8>> = outcomes.iter().filter_map(|(_, o)| o.as_ref().ok()).collect();
        if oks.is_empty() {
            ctx.count("trees/all-error");
        } else if oks.len() != outcomes.len() {
            ctx.count("trees/mixed");
            ctx.violation("schedule-divergence:tree:ok-vs-error", detail());
        } else if oks.iter().any(|b| *b != oks[0]) {
            ctx.violation("schedule-divergence:tree:results-differ", detail());
        } else {
            ctx.count("trees/all-ok-and-equal");
            ctx.nontrivial(fnv64(oks[0]) ^ idx);
        }
    }
}

impl Property for C07 {
    fn id(&self) -> &'static str {
        "C07"
    }
    fn rule(&self) -> String {
        "for every tx of generated programs (all core features; compiler built-ins over literals and over parameters; every third template built from asset atoms in which exactly one of policy / name / amount is a parameter) and one in-range world: all 24 orders of the stages {args, inputs, fees, compiler-ops} x all 32 subsets of reduce placements (initially and after each stage) x {arguments applied at once, arguments applied in two instalments with a reduction in between}, followed by a final reduce; a schedule is admissible when the compiler-op stage comes after the stages its operands depend on (known from the generator: after `args` when a built-in has a parameter operand). Oracle: the canonical form (map entries, UtxoSet and Assets lists sorted) of the fully reduced template and the independently decoded compiled transaction are identical across all admissible schedules; reduce(reduce(t)) = reduce(t) after every reduction performed. trees: random *typed, evaluable* IR expressions (integer arithmetic, list / map / tuple lookups with parameter keys and indices, byte concatenation, asset arithmetic with parameter policies / names / amounts; small value domains so that keys collide) under ten ways of feeding the arguments (at once, after an initial reduction, in two instalments in either order with a reduction in between, and with a batch of decoy keys - the parameter names in upper case with other values - before, after or together with the real arguments); all must end in the same reduced template or all in an error, and reduce must be idempotent. Non-trivial: the template uses >= 3 of {params, inputs-as-values, fees, compiler ops}; distinct = distinct (source, world).".into()
    }
    fn assumptions(&self) -> Vec<String> {
        vec![
            "a fresh compiler instance per schedule (C20 owns reuse); errors are compared by kind".into(),
            "exhaustive over schedules per template, sampled over templates".into(),
        ]
    }
    fn phases(&self, tier: Tier) -> Vec<Phase> {
        match tier {
            Tier::Quick => vec![Phase::new("schedules", 150, Profile::Release).budget(240_000), Phase::new("trees", 20_000, Profile::Release)],
            Tier::Thorough => vec![Phase::new("schedules", 6_000, Profile::Release).budget(240_000), Phase::new("trees", 2_000_000, Profile::Release)],
        }
    }
    fn required_features(&self, _tier: Tier) -> Vec<String> {
        ["schedules/admissible", "schedules/inadmissible-skipped", "idempotence-checks", "templates/with-cop-over-param", "templates/with-partial-const-atoms", "final/compiled", "trees/all-ok-and-equal", "trees/all-error"].iter().map(|s| s.to_string()).collect()
    }
    fn run_case(&self, ctx: &mut Ctx, phase: &str, idx: u64, rng: &mut Rng) {
        if phase == "trees" {
            return self.trees(ctx, idx, rng);
        }
        // every third template: partially constant asset atoms (what an early reduction must leave alone)
        let cfg = Cfg { risky_pct: 40, cardano_pct: 30, partial_const: idx % 3 == 0, ..Default::default() };
        let g = build::generate(rng, &cfg);
        let src = print_program(&g.prog, Layout::plain());
        let cop_over_param = g.prog.tags.iter().any(|t| t == "risky:compiler-op-over-param");
        let perms = permutations();
        for (ti, txd) in g.prog.txs.iter().enumerate() {
            let Ok(lowered) = front(&src, &txd.name) else {
                ctx.count("front/rejected");
                continue;
            };
            let Some((w, _)) = in_range_world(&g, ti, rng, &cfg, 4, ctx) else { continue };
            let Some(args) = env::world_args(&w) else { continue };
            let Some(inputs) = env::world_inputs(&w, Some("collateral")) else { continue };
            let mut pp = PP::default();
            pp.mainnet = w.network == 1;
            if cop_over_param {
                ctx.count("templates/with-cop-over-param");
            }
            if g.prog.tags.iter().any(|t| t == "partial-const-atom") {
                ctx.count("templates/with-partial-const-atoms");
            }
            let mut results: BTreeMap<String, Final> = BTreeMap::new();
            let mut idem_failed = false;
            for order in &perms {
                // admissibility: compiler ops after args when a built-in reads a parameter
                let pos = |s: Stage| order.iter().position(|x| *x == s).unwrap();
                if cop_over_param && pos(Stage::CompilerOps) < pos(Stage::Args) {
                    ctx.add("schedules/inadmissible-skipped", 64);
                    continue;
                }
                for mask in 0u32..64 {
                    ctx.eval();
                    ctx.count("schedules/admissible");
                    let name = sched_name(order, mask);
                    let lowered = lowered.clone();
                    let (args, inputs, pp) = (&args, &inputs, &pp);
                    let fee = w.fee;
                    let mut idem_witness: Option<String> = None;
                    let r = crate::panics::catch(|| -> Result<(AnyTir, Option<String>), String> {
                        let mut compiler = env::compiler(pp);
                        let mut idem: Option<String> = None;
                        let mut red = |t: AnyTir, at: &str| -> Result<AnyTir, String> {
                            let once = reduce(t).map_err(|e| format!("reduce-error:{}", err_sig(&e.to_string())))?;
                            let twice = reduce(once.clone()).map_err(|e| format!("reduce-error:{}", err_sig(&e.to_string())))?;
                            let (AnyTir::V1Beta0(a), AnyTir::V1Beta0(b)) = (&once, &twice);
                            if canon::canon_bytes(a) != canon::canon_bytes(b) && idem.is_none() {
                                idem = Some(at.to_string());
                            }
                            Ok(once)
                        };
                        let mut t = AnyTir::V1Beta0(lowered);
                        if mask & 1 != 0 {
                            t = red(t, "initial")?;
                        }
                        for (i, st) in order.iter().enumerate() {
                            t = match st {
                                Stage::Args if mask & 32 != 0 && args.len() >= 2 => {
                                    // the arguments arrive in two instalments with a reduction in between
                                    let first: BTreeMap<_, _> = args.iter().enumerate().filter(|(k, _)| k % 2 == 0).map(|(_, (n, v))| (n.clone(), v.clone())).collect();
                                    let second: BTreeMap<_, _> = args.iter().enumerate().filter(|(k, _)| k % 2 == 1).map(|(_, (n, v))| (n.clone(), v.clone())).collect();
                                    let t = apply_args(t, &first).map_err(|e| format!("args-error:{}", err_sig(&e.to_string())))?;
                                    let t = red(t, "between-args")?;
                                    apply_args(t, &second).map_err(|e| format!("args-error:{}", err_sig(&e.to_string())))?
                                }
                                Stage::Args => apply_args(t, args).map_err(|e| format!("args-error:{}", err_sig(&e.to_string())))?,
                                Stage::Inputs => apply_inputs(t, inputs).map_err(|e| format!("inputs-error:{}", err_sig(&e.to_string())))?,
                                Stage::Fees => apply_fees(t, fee).map_err(|e| format!("fees-error:{}", err_sig(&e.to_string())))?,
                                Stage::CompilerOps => t.apply(&mut compiler).map_err(|e| format!("cops-error:{}", err_sig(&e.to_string())))?,
                            };
                            if mask & (1 << (i + 1)) != 0 {
                                t = red(t, &format!("after-{st:?}"))?;
                            }
                        }
                        let t = red(t, "final")?;
                        Ok((t, idem))
                    });
                    let fin = match r {
                        Err(p) => Final::Err(p.signature()),
                        Ok(Err(e)) => Final::Err(e),
                        Ok(Ok((t, idem))) => {
                            ctx.count("idempotence-checks");
                            idem_witness = idem;
                            let AnyTir::V1Beta0(inner) = &t;
                            let canon_bytes = canon::canon_bytes(inner);
                            let compiled = if t.is_constant() {
                                let mut compiler = env::compiler(pp);
                                match crate::panics::catch(|| compiler.compile(&t)) {
                                    Ok(Ok(c)) => match txview::view(&c.payload) {
                                        Ok(v) => {
                                            ctx.count("final/compiled");
                                            // order-free rendering of the decoded tx
                                            Some(format!("{:?}", crate::props::c01::exp_json(&v.tx)))
                                        }
                                        Err(e) => Some(format!("undecodable:{e}")),
                                    },
                                    Ok(Err(e)) => Some(format!("compile-error:{}", err_sig(&e.to_string()))),
                                    Err(p) => Some(p.signature()),
                                }
                            } else {
                                None
                            };
                            Final::Done(canon_bytes, compiled)
                        }
                    };
                    if let Some(at) = idem_witness {
                        if !idem_failed {
                            idem_failed = true;
                            ctx.violation(format!("reduce-not-idempotent:{at}"), json!({"source": src, "tx": txd.name, "world": world_json(&w), "schedule": name, "phase": phase}));
                        }
                    }
                    results.insert(name, fin);
                }
            }
            // all admissible schedules must agree
            let mut groups: BTreeMap<String, Vec<&String>> = BTreeMap::new();
            for (name, f) in &results {
                let key = match f {
                    Final::Done(b, c) => format!("done:{:016x}:{:016x}", fnv64(b), fnv64(c.as_deref().unwrap_or("").as_bytes())),
                    Final::Err(e) => format!("err:{e}"),
                };
                groups.entry(key).or_default().push(name);
            }
            if groups.len() > 1 {
                // name the disagreement by the kinds of outcome and, when both finish, by whether the IR or only the compiled tx differs
                let kinds: Vec<&str> = groups.keys().map(|k| if k.starts_with("done") { "done" } else { "err" }).collect();
                let sig = if kinds.iter().all(|k| *k == "done") {
                    "schedule-divergence:results-differ".to_string()
                } else {
                    let err = groups.keys().find(|k| k.starts_with("err")).cloned().unwrap_or_default();
                    format!("schedule-divergence:{}", err.chars().take(80).collect::<String>())
                };
                let examples: Vec<serde_json::Value> = groups.iter().map(|(k, v)| json!({"outcome": k, "schedules": v.len(), "example_schedule": v[0]})).collect();
                ctx.violation(sig, json!({"source": src, "tx": txd.name, "world": world_json(&w), "outcome_groups": examples, "phase": phase, "tags": g.prog.tags}));
            }
            let kinds_used = [!g.txs[ti].params.is_empty(), g.prog.tags.iter().any(|t| t == "input-as-assets"), g.prog.tags.iter().any(|t| t.starts_with("fees-in")), g.prog.tags.iter().any(|t| t == "tip_slot" || t == "slot_to_time" || t == "time_to_slot" || t == "policy-as-address")];
            if kinds_used.iter().filter(|x| **x).count() >= 3 {
                ctx.nontrivial(fnv64(format!("{src}{:?}", w.args).as_bytes()));
            }
            if idx % 37 == 0 {
                ctx.sample(|| json!({"source": src, "tx": txd.name, "schedules_run": results.len(), "distinct_outcomes": groups.len(), "example_schedule": results.keys().next()}));
            }
        }
    }
}
