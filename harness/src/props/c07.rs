//! C07 — staged application is order-independent and reduction is idempotent.

use crate::canon;
use crate::decode::tx as txview;
use crate::env::{self, PP};
use crate::framework::*;
use crate::gen::ast::{print_program, Layout};
use crate::gen::build::{self, Cfg};
use crate::pipeline::front;
use crate::props::c01::{err_sig, in_range_world, world_json};
use crate::rng::{fnv64, Rng};
use serde_json::json;
use std::collections::BTreeMap;
use tx3_tir::compile::Compiler as _;
use tx3_tir::encoding::AnyTir;
use tx3_tir::model::v1beta0 as tir;
use tx3_tir::reduce::{apply_args, apply_fees, apply_inputs, reduce, Apply as _};
use tx3_tir::Node as _;

pub struct C07;

#[derive(Clone, Copy, Debug, PartialEq, Eq)]
enum Stage {
    Args,
    Inputs,
    Fees,
    CompilerOps,
}

const STAGES: [Stage; 4] = [Stage::Args, Stage::Inputs, Stage::Fees, Stage::CompilerOps];

fn permutations() -> Vec<[Stage; 4]> {
    let mut out = vec![];
    for a in 0..4 {
        for b in 0..4 {
            for c in 0..4 {
                for d in 0..4 {
                    let idx = [a, b, c, d];
                    let mut seen = [false; 4];
                    if idx.iter().all(|i| !std::mem::replace(&mut seen[*i], true)) {
                        out.push([STAGES[a], STAGES[b], STAGES[c], STAGES[d]]);
                    }
                }
            }
        }
    }
    out
}

#[derive(Clone, Debug, PartialEq)]
enum Final {
    /// canonical bytes of the fully reduced template, and the decoded compiled tx when it is constant
    Done(Vec<u8>, Option<String>),
    Err(String),
}

fn sched_name(order: &[Stage; 4], mask: u32) -> String {
    let mut s = String::new();
    if mask & 32 != 0 {
        s.push_str("[args in two instalments with R between] ");
    }
    if mask & 1 != 0 {
        s.push_str("R,");
    }
    for (i, st) in order.iter().enumerate() {
        s.push_str(match st {
            Stage::Args => "args",
            Stage::Inputs => "inputs",
            Stage::Fees => "fees",
            Stage::CompilerOps => "cops",
        });
        if mask & (1 << (i + 1)) != 0 {
            s.push_str(",R");
        }
        s.push(',');
    }
    s
}

impl Property for C07 {
    fn id(&self) -> &'static str {
        "C07"
    }
    fn rule(&self) -> String {
        "for every tx of generated programs (all core features; compiler built-ins over literals and over parameters; every third template built from asset atoms in which exactly one of policy / name / amount is a parameter) and one in-range world: all 24 orders of the stages {args, inputs, fees, compiler-ops} x all 32 subsets of reduce placements (initially and after each stage) x {arguments applied at once, arguments applied in two instalments with a reduction in between}, followed by a final reduce; a schedule is admissible when the compiler-op stage comes after the stages its operands depend on (known from the generator: after `args` when a built-in has a parameter operand). Oracle: the canonical form (map entries, UtxoSet and Assets lists sorted) of the fully reduced template and the independently decoded compiled transaction are identical across all admissible schedules; reduce(reduce(t)) = reduce(t) after every reduction performed. Non-trivial: the template uses >= 3 of {params, inputs-as-values, fees, compiler ops}; distinct = distinct (source, world).".into()
    }
    fn assumptions(&self) -> Vec<String> {
        vec![
            "a fresh compiler instance per schedule (C20 owns reuse); errors are compared by kind".into(),
            "exhaustive over schedules per template, sampled over templates".into(),
        ]
    }
    fn phases(&self, tier: Tier) -> Vec<Phase> {
        match tier {
            Tier::Quick => vec![Phase::new("schedules", 150, Profile::Release).budget(240_000)],
            Tier::Thorough => vec![Phase::new("schedules", 6_000, Profile::Release).budget(240_000)],
        }
    }
    fn required_features(&self, _tier: Tier) -> Vec<String> {
        ["schedules/admissible", "schedules/inadmissible-skipped", "idempotence-checks", "templates/with-cop-over-param", "templates/with-partial-const-atoms", "final/compiled"].iter().map(|s| s.to_string()).collect()
    }
    fn run_case(&self, ctx: &mut Ctx, phase: &str, idx: u64, rng: &mut Rng) {
        // every third template: partially constant asset atoms (what an early reduction must leave alone)
        let cfg = Cfg { risky_pct: 40, cardano_pct: 30, partial_const: idx % 3 == 0, ..Default::default() };
        let g = build::generate(rng, &cfg);
        let src = print_program(&g.prog, Layout::plain());
        let cop_over_param = g.prog.tags.iter().any(|t| t == "risky:compiler-op-over-param");
        let perms = permutations();
        for (ti, txd) in g.prog.txs.iter().enumerate() {
            let Ok(lowered) = front(&src, &txd.name) else {
                ctx.count("front/rejected");
                continue;
            };
            let Some((w, _)) = in_range_world(&g, ti, rng, &cfg, 4, ctx) else { continue };
            let Some(args) = env::world_args(&w) else { continue };
            let Some(inputs) = env::world_inputs(&w, Some("collateral")) else { continue };
            let mut pp = PP::default();
            pp.mainnet = w.network == 1;
            if cop_over_param {
                ctx.count("templates/with-cop-over-param");
            }
            if g.prog.tags.iter().any(|t| t == "partial-const-atom") {
                ctx.count("templates/with-partial-const-atoms");
            }
            let mut results: BTreeMap<String, Final> = BTreeMap::new();
            let mut idem_failed = false;
            for order in &perms {
                // admissibility: compiler ops after args when a built-in reads a parameter
                let pos = |s: Stage| order.iter().position(|x| *x == s).unwrap();
                if cop_over_param && pos(Stage::CompilerOps) < pos(Stage::Args) {
                    ctx.add("schedules/inadmissible-skipped", 64);
                    continue;
                }
                for mask in 0u32..64 {
                    ctx.eval();
                    ctx.count("schedules/admissible");
                    let name = sched_name(order, mask);
                    let lowered = lowered.clone();
                    let (args, inputs, pp) = (&args, &inputs, &pp);
                    let fee = w.fee;
                    let mut idem_witness: Option<String> = None;
                    let r = crate::panics::catch(|| -> Result<(AnyTir, Option<String>), String> {
                        let mut compiler = env::compiler(pp);
                        let mut idem: Option<String> = None;
                        let mut red = |t: AnyTir, at: &str| -> Result<AnyTir, String> {
                            let once = reduce(t).map_err(|e| format!("reduce-error:{}", err_sig(&e.to_string())))?;
                            let twice = reduce(once.clone()).map_err(|e| format!("reduce-error:{}", err_sig(&e.to_string())))?;
                            let (AnyTir::V1Beta0(a), AnyTir::V1Beta0(b)) = (&once, &twice);
                            if canon::canon_bytes(a) != canon::canon_bytes(b) && idem.is_none() {
                                idem = Some(at.to_string());
                            }
                            Ok(once)
                        };
                        let mut t = AnyTir::V1Beta0(lowered);
                        if mask & 1 != 0 {
                            t = red(t, "initial")?;
                        }
                        for (i, st) in order.iter().enumerate() {
                            t = match st {
                                Stage::Args if mask & 32 != 0 && args.len() >= 2 => {
                                    // the arguments arrive in two instalments with a reduction in between
                                    let first: BTreeMap<_, _> = args.iter().enumerate().filter(|(k, _)| k % 2 == 0).map(|(_, (n, v))| (n.clone(), v.clone())).collect();
                                    let second: BTreeMap<_, _> = args.iter().enumerate().filter(|(k, _)| k % 2 == 1).map(|(_, (n, v))| (n.clone(), v.clone())).collect();
                                    let t = apply_args(t, &first).map_err(|e| format!("args-error:{}", err_sig(&e.to_string())))?;
                                    let t = red(t, "between-args")?;
                                    apply_args(t, &second).map_err(|e| format!("args-error:{}", err_sig(&e.to_string())))?
                                }
                                Stage::Args => apply_args(t, args).map_err(|e| format!("args-error:{}", err_sig(&e.to_string())))?,
                                Stage::Inputs => apply_inputs(t, inputs).map_err(|e| format!("inputs-error:{}", err_sig(&e.to_string())))?,
                                Stage::Fees => apply_fees(t, fee).map_err(|e| format!("fees-error:{}", err_sig(&e.to_string())))?,
                                Stage::CompilerOps => t.apply(&mut compiler).map_err(|e| format!("cops-error:{}", err_sig(&e.to_string())))?,
                            };
                            if mask & (1 << (i + 1)) != 0 {
                                t = red(t, &format!("after-{st:?}"))?;
                            }
                        }
                        let t = red(t, "final")?;
                        Ok((t, idem))
                    });
                    let fin = match r {
                        Err(p) => Final::Err(p.signature()),
                        Ok(Err(e)) => Final::Err(e),
                        Ok(Ok((t, idem))) => {
                            ctx.count("idempotence-checks");
                            idem_witness = idem;
                            let AnyTir::V1Beta0(inner) = &t;
                            let canon_bytes = canon::canon_bytes(inner);
                            let compiled = if t.is_constant() {
                                let mut compiler = env::compiler(pp);
                                match crate::panics::catch(|| compiler.compile(&t)) {
                                    Ok(Ok(c)) => match txview::view(&c.payload) {
                                        Ok(v) => {
                                            ctx.count("final/compiled");
                                            // order-free rendering of the decoded tx
                                            Some(format!("{:?}", crate::props::c01::exp_json(&v.tx)))
                                        }
                                        Err(e) => Some(format!("undecodable:{e}")),
                                    },
                                    Ok(Err(e)) => Some(format!("compile-error:{}", err_sig(&e.to_string()))),
                                    Err(p) => Some(p.signature()),
                                }
                            } else {
                                None
                            };
                            Final::Done(canon_bytes, compiled)
                        }
                    };
                    if let Some(at) = idem_witness {
                        if !idem_failed {
                            idem_failed = true;
                            ctx.violation(format!("reduce-not-idempotent:{at}"), json!({"source": src, "tx": txd.name, "world": world_json(&w), "schedule": name, "phase": phase}));
                        }
                    }
                    results.insert(name, fin);
                }
            }
            // all admissible schedules must agree
            let mut groups: BTreeMap<String, Vec<&String>> = BTreeMap::new();
            for (name, f) in &results {
                let key = match f {
                    Final::Done(b, c) => format!("done:{:016x}:{:016x}", fnv64(b), fnv64(c.as_deref().unwrap_or("").as_bytes())),
                    Final::Err(e) => format!("err:{e}"),
                };
                groups.entry(key).or_default().push(name);
            }
            if groups.len() > 1 {
                // name the disagreement by the kinds of outcome and, when both finish, by whether the IR or only the compiled tx differs
                let kinds: Vec<&str> = groups.keys().map(|k| if k.starts_with("done") { "done" } else { "err" }).collect();
                let sig = if kinds.iter().all(|k| *k == "done") {
                    "schedule-divergence:results-differ".to_string()
                } else {
                    let err = groups.keys().find(|k| k.starts_with("err")).cloned().unwrap_or_default();
                    format!("schedule-divergence:{}", err.chars().take(80).collect::<String>())
                };
                let examples: Vec<serde_json::Value> = groups.iter().map(|(k, v)| json!({"outcome": k, "schedules": v.len(), "example_schedule": v[0]})).collect();
                ctx.violation(sig, json!({"source": src, "tx": txd.name, "world": world_json(&w), "outcome_groups": examples, "phase": phase, "tags": g.prog.tags}));
            }
            let kinds_used = [!g.txs[ti].params.is_empty(), g.prog.tags.iter().any(|t| t == "input-as-assets"), g.prog.tags.iter().any(|t| t.starts_with("fees-in")), g.prog.tags.iter().any(|t| t == "tip_slot" || t == "slot_to_time" || t == "time_to_slot" || t == "policy-as-address")];
            if kinds_used.iter().filter(|x| **x).count() >= 3 {
                ctx.nontrivial(fnv64(format!("{src}{:?}", w.args).as_bytes()));
            }
            if idx % 37 == 0 {
                ctx.sample(|| json!({"source": src, "tx": txd.name, "schedules_run": results.len(), "distinct_outcomes": groups.len(), "example_schedule": results.keys().next()}));
            }
        }
    }
}
