//! C02 — quantities are never silently wrapped, truncated or dropped; value is preserved.

use crate::decode::tx as txview;
use crate::env::PP;
use crate::framework::*;
use crate::gen::ast::{print_program, Layout};
use crate::gen::build::{self, Cfg};
use crate::gen::sem::{out_of_range, Assets, Sem};
use crate::pipeline::{back_assigned, front};
use crate::props::c01::{err_sig, exp_json, strip_indices, world_json};
use crate::rng::{fnv64, Rng};
use num_bigint::BigInt;
use num_traits::Zero;
use serde_json::json;

pub struct C02;

impl Property for C02 {
    fn id(&self) -> &'static str {
        "C02"
    }
    fn rule(&self) -> String {
        "programs of the core fragment (half of them in balanced form: last output = inputs + mint - burn - other outputs - fees) with integer arguments from a boundary distribution {0, +-1, 23/24, 255/256, 2^16, +-2^31, 2^32, +-2^63, +-2^64, i128 extremes, each +-2} and UTxOs that may hold less than the template spends; oracle: if the pipeline returns Ok then every numeric field of the exact (BigInt) denotation fits its ledger field and equals the decoded number, and for balanced templates consumed = produced + fee per asset class on the decoded transaction; a world in which a list index falls outside 0..len (negative, >= len, beyond 64 bits) has no denotation and has to be refused (an Ok there is `silent:index-out-of-range`; judged on programs without a spread only, a spread operand's unused fields are legitimately not evaluated); likewise a world that gives two withdrawal blocks one reward account (`silent:withdrawal-dropped`: the ledger map keeps one amount per account). Non-trivial: the denotation is defined and either out of range or has >= 2 numeric fields; distinct = distinct (source, args).".into()
    }
    fn assumptions(&self) -> Vec<String> {
        vec![
            "ledger ranges: lovelace/token/fee/withdrawal/donation/slots in [0,2^64), mint in [-2^63,2^63) and non-zero per block and net, metadata ints in [-2^64,2^64)".into(),
            "an Err result is always acceptable; a panic is reported as panic-instead-of-error".into(),
        ]
    }
    fn phases(&self, tier: Tier) -> Vec<Phase> {
        match tier {
            Tier::Quick => vec![Phase::new("boundary", 12_000, Profile::Release), Phase::new("boundary-checked", 3_000, Profile::Checked)],
            Tier::Thorough => vec![Phase::new("boundary", 600_000, Profile::Release), Phase::new("boundary-checked", 150_000, Profile::Checked)],
        }
    }
    fn required_features(&self, _tier: Tier) -> Vec<String> {
        ["outcome/ok-in-range", "outcome/err-out-of-range", "balanced/checked", "outcome/err-in-range", "index/out-of-range-refused", "withdrawal/shared-account-refused"].iter().map(|s| s.to_string()).collect()
    }
    fn run_case(&self, ctx: &mut Ctx, phase: &str, idx: u64, rng: &mut Rng) {
        let balanced = idx % 2 == 0;
        // one case in eight: several withdrawal blocks per tx (stake parties of their own), whose accounts a world may merge
        let cfg = Cfg { boundary_ints: true, balanced, cardano_pct: if balanced { 0 } else { 30 }, redeemer_focus: idx % 8 == 7, ..Default::default() };
        let g = build::generate(rng, &cfg);
        let src = print_program(&g.prog, Layout::plain());
        for (ti, txd) in g.prog.txs.iter().enumerate() {
            let tir = match front(&src, &txd.name) {
                Ok(t) => t,
                Err(e) => {
                    ctx.count(&format!("front/rejected/{}", e.class()));
                    continue;
                }
            };
            for _ in 0..3 {
                let w = build::world(&g, ti, rng, &cfg);
                let exp = match Sem::new(&g.prog, &w).tx(txd) {
                    Ok(x) => x,
                    Err(crate::gen::sem::Undef::Undefined(why)) => {
                        ctx.count("world/undefined-denotation");
                        // an index outside the list has no value: the pipeline has to fail, not to pick an
                        // element after truncating the index (a quantity "truncated to 64 bits")
                        if why == "withdrawals share a reward account" {
                            ctx.eval();
                            ctx.count("withdrawal/shared-account-world");
                            match back_assigned(&tir, &w, &PP::default()) {
                                Err(e) if e.is_panic() => ctx.violation(
                                    format!("panic-instead-of-error:{}", e.class()),
                                    json!({"source": src, "tx": txd.name, "world": world_json(&w), "panic": e.text(), "phase": phase}),
                                ),
                                Err(_) => ctx.count("withdrawal/shared-account-refused"),
                                Ok(c) => ctx.violation(
                                    "silent:withdrawal-dropped",
                                    json!({"source": src, "tx": txd.name, "world": world_json(&w), "payload": hex::encode(&c.payload), "phase": phase,
                                           "note": "two withdrawal blocks name one reward account; the ledger map holds one amount per account, so one of the two amounts is dropped"}),
                                ),
                            }
                        }
                        // (the reference evaluates a spread operand in full, the pipeline only the fields the
                        // constructor does not give itself: an out-of-range index inside an unused field of a spread
                        // operand is legitimately never evaluated, so programs with a spread are not judged here)
                        if why == "index out of range" && src.contains("...") {
                            ctx.count("index/out-of-range-world-not-judged(spread)");
                        }
                        if why == "index out of range" && !src.contains("...") {
                            ctx.eval();
                            ctx.count("index/out-of-range-world");
                            match back_assigned(&tir, &w, &PP::default()) {
                                Err(e) if e.is_panic() => ctx.violation(
                                    format!("panic-instead-of-error:{}", e.class()),
                                    json!({"source": src, "tx": txd.name, "world": world_json(&w), "panic": e.text(), "phase": phase}),
                                ),
                                Err(_) => ctx.count("index/out-of-range-refused"),
                                Ok(c) => ctx.violation(
                                    "silent:index-out-of-range",
                                    json!({"source": src, "tx": txd.name, "world": world_json(&w), "payload": hex::encode(&c.payload), "phase": phase,
                                           "note": "the reference denotation is undefined (list index outside 0..len) yet a transaction was returned"}),
                                ),
                            }
                        }
                        continue;
                    }
                };
                if exp.ambiguous.is_some() {
                    ctx.count("world/ambiguous-denotation");
                    continue;
                }
                let oor = out_of_range(&exp);
                ctx.eval();
                let r = back_assigned(&tir, &w, &PP::default());
                let detail = |what: serde_json::Value| json!({"source": src, "tx": txd.name, "world": world_json(&w), "exact_denotation": exp_json(&exp), "out_of_range_fields": oor, "observed": what, "phase": phase});
                if !oor.is_empty() || exp.outputs.len() + exp.mint.len() >= 2 {
                    ctx.nontrivial(fnv64(format!("{}{:?}", src, w.args).as_bytes()));
                }
                match r {
                    Err(e) if e.is_panic() => {
                        ctx.count("outcome/panic");
                        ctx.violation(format!("panic-instead-of-error:{}", e.class()), detail(json!({"panic": e.text()})));
                    }
                    Err(e) => {
                        ctx.count(if oor.is_empty() { "outcome/err-in-range" } else { "outcome/err-out-of-range" });
                        ctx.count(&format!("err/{}", err_sig(&e.text())));
                    }
                    Ok(c) => {
                        let v = match txview::view(&c.payload) {
                            Ok(v) => v,
                            Err(e) => {
                                ctx.violation(format!("undecodable-payload:{}", err_sig(&e)), detail(json!({"decode_error": e})));
                                continue;
                            }
                        };
                        if !oor.is_empty() {
                            ctx.count("outcome/ok-out-of-range");
                            let mut kinds: Vec<String> = oor.iter().map(|x| strip_indices(x)).collect();
                            kinds.sort();
                            kinds.dedup();
                            for k in kinds {
                                ctx.violation(format!("silent:{k}"), detail(json!({"decoded": exp_json(&v.tx), "payload": hex::encode(&c.payload)})));
                            }
                            continue;
                        }
                        ctx.count("outcome/ok-in-range");
                        let d = txview::diff(&exp, &v.tx);
                        let numeric: Vec<String> = d
                            .iter()
                            .filter(|f| f.contains("lovelace") || f.contains("assets") || *f == "mint" || *f == "ttl" || *f == "validity_start" || *f == "metadata" || *f == "fee" || f.contains("datum") || f.contains("count"))
                            .map(|x| strip_indices(x))
                            .collect();
                        for k in numeric {
                            ctx.violation(format!("wrong-number:{k}"), detail(json!({"differing_fields": d, "decoded": exp_json(&v.tx)})));
                        }
                        if exp.withdrawals != v.tx.withdrawals && exp.withdrawals.values().collect::<Vec<_>>() != v.tx.withdrawals.values().collect::<Vec<_>>() {
                            ctx.violation("wrong-number:withdrawal", detail(json!({"decoded_withdrawals": format!("{:?}", v.tx.withdrawals)})));
                        }
                        if exp.donation != v.tx.donation {
                            ctx.violation("wrong-number:donation", detail(json!({"decoded_donation": format!("{:?}", v.tx.donation)})));
                        }
                        // conservation on the decoded transaction
                        if balanced {
                            ctx.count("balanced/checked");
                            let mut consumed = Assets::new();
                            for us in w.inputs.values() {
                                for u in us {
                                    consumed = crate::gen::sem::assets_add(&consumed, &u.assets);
                                }
                            }
                            for ((p, n), q) in &v.tx.mint {
                                let mut one = Assets::new();
                                one.insert(Some((p.clone(), n.clone())), q.clone());
                                consumed = crate::gen::sem::assets_add(&consumed, &one);
                            }
                            let mut produced = Assets::new();
                            for o in &v.tx.outputs {
                                let mut one = Assets::new();
                                if !o.lovelace.is_zero() {
                                    one.insert(None, o.lovelace.clone());
                                }
                                for ((p, n), q) in &o.assets {
                                    one.insert(Some((p.clone(), n.clone())), q.clone());
                                }
                                produced = crate::gen::sem::assets_add(&produced, &one);
                            }
                            let mut fee = Assets::new();
                            if !v.tx.fee.is_zero() {
                                fee.insert(None, v.tx.fee.clone());
                            }
                            produced = crate::gen::sem::assets_add(&produced, &fee);
                            if consumed != produced {
                                let bad: Vec<String> = consumed
                                    .keys()
                                    .chain(produced.keys())
                                    .filter(|k| consumed.get(*k).cloned().unwrap_or_else(BigInt::zero) != produced.get(*k).cloned().unwrap_or_else(BigInt::zero))
                                    .map(|k| if k.is_none() { "lovelace".to_string() } else { "token".to_string() })
                                    .collect();
                                let kind = if bad.iter().any(|b| b == "lovelace") { "lovelace" } else { "token" };
                                ctx.violation(format!("imbalance:{kind}"), detail(json!({"consumed": format!("{consumed:?}"), "produced_plus_fee": format!("{produced:?}")})));
                            }
                        }
                        ctx.sample(|| json!({"source": src, "tx": txd.name, "world": world_json(&w), "decoded": exp_json(&v.tx), "balanced": balanced}));
                    }
                }
            }
        }
    }
}
