//! C01 — the compiled transaction is exactly what the template denotes (translation validation
//! by a runtime differential oracle against the reference semantics).

use crate::canon;
use crate::decode::tx as txview;
use crate::env::PP;
use crate::framework::*;
use crate::gen::ast::{print_program, Layout};
use crate::gen::build::{self, Cfg, Generated};
use crate::gen::sem::{out_of_range, ExpTx, Sem, World};
use crate::pipeline::{back_assigned, front};
use crate::rng::{fnv64, Rng};
use serde_json::{json, Value};

pub struct C01;

pub fn strip_indices(s: &str) -> String {
    let mut out = String::new();
    let mut in_br = false;
    for c in s.chars() {
        match c {
            '[' => in_br = true,
            ']' => in_br = false,
            _ if in_br => {}
            _ => out.push(c),
        }
    }
    out
}

pub fn err_sig(text: &str) -> String {
    let cut = text.find(['(', '{', '[', '"', '`']).unwrap_or(text.len());
    crate::panics::normalise_message(text[..cut].trim())
}

pub fn world_json(w: &World) -> Value {
    let args: Vec<(String, String)> = w.args.iter().map(|(k, v)| (k.clone(), format!("{v:?}").chars().take(120).collect())).collect();
    let inputs: Vec<Value> = w
        .inputs
        .iter()
        .map(|(k, us)| {
            json!({"input": k, "utxos": us.iter().map(|u| json!({
                "ref": format!("{}#{}", hex::encode(&u.txid), u.index),
                "address": hex::encode(&u.address),
                "assets": u.assets.iter().map(|(c, q)| (match c { None => "lovelace".to_string(), Some((p, n)) => format!("{}.{}", hex::encode(p), hex::encode(n)) }, q.to_string())).collect::<Vec<_>>(),
                "datum": u.datum.as_ref().map(|d| format!("{d:?}").chars().take(200).collect::<String>()),
            })).collect::<Vec<_>>()})
        })
        .collect();
    json!({"args": args, "inputs": inputs, "fee": w.fee, "network": w.network})
}

pub fn exp_json(t: &ExpTx) -> Value {
    json!({
        "inputs": t.inputs.iter().map(|(t, i)| format!("{}#{}", hex::encode(t), i)).collect::<Vec<_>>(),
        "outputs": t.outputs.iter().map(|o| json!({
            "address": hex::encode(&o.address), "lovelace": o.lovelace.to_string(),
            "assets": o.assets.iter().map(|((p, n), q)| (format!("{}.{}", hex::encode(p), hex::encode(n)), q.to_string())).collect::<Vec<_>>(),
            "datum": o.datum.as_ref().map(|d| format!("{d:?}").chars().take(300).collect::<String>()),
        })).collect::<Vec<_>>(),
        "mint": t.mint.iter().map(|((p, n), q)| (format!("{}.{}", hex::encode(p), hex::encode(n)), q.to_string())).collect::<Vec<_>>(),
        "validity_start": t.validity_start.as_ref().map(|x| x.to_string()),
        "ttl": t.ttl.as_ref().map(|x| x.to_string()),
        "signers": t.signers.iter().map(hex::encode).collect::<Vec<_>>(),
        "references": t.references.iter().map(|(t, i)| format!("{}#{}", hex::encode(t), i)).collect::<Vec<_>>(),
        "collateral": t.collateral.iter().map(|(t, i)| format!("{}#{}", hex::encode(t), i)).collect::<Vec<_>>(),
        "metadata": t.metadata.iter().map(|(k, v)| (k.to_string(), format!("{v:?}"))).collect::<Vec<_>>(),
        "fee": t.fee.to_string(),
        "redeemers": t.redeemers.iter().map(|(k, v)| (format!("{k:?}"), format!("{v:?}").chars().take(200).collect::<String>())).collect::<Vec<_>>(),
    })
}

/// Draw worlds until the denotation is defined and in range (C01's domain); None after `tries`.
pub fn in_range_world(g: &Generated, ti: usize, rng: &mut Rng, cfg: &Cfg, tries: usize, ctx: &mut Ctx) -> Option<(World, ExpTx)> {
    for _ in 0..tries {
        let w = build::world(g, ti, rng, cfg);
        let r = Sem::new(&g.prog, &w).tx(&g.prog.txs[ti]);
        match r {
            Err(e) => {
                ctx.count("world/undefined-denotation");
                let crate::gen::sem::Undef::Undefined(why) = e;
                ctx.count(&format!("world/undefined/{}", err_sig(&why)));
            }
            Ok(exp) if exp.ambiguous.is_some() => ctx.count("world/ambiguous-denotation"),
            Ok(exp) => {
                let oor = out_of_range(&exp);
                if oor.is_empty() {
                    return Some((w, exp));
                }
                ctx.count("world/out-of-range");
            }
        }
    }
    None
}

impl C01 {
    fn one_program(&self, ctx: &mut Ctx, rng: &mut Rng, cfg: &Cfg, n_worlds: usize, n_layouts: usize, phase: &str) {
        let g = build::generate(rng, cfg);
        ctx.count("programs");
        for t in &g.prog.tags {
            ctx.count(&format!("feature/{t}"));
        }
        let risky: Vec<&String> = g.prog.tags.iter().filter(|t| t.starts_with("risky:")).collect();
        let suffix = if risky.is_empty() { String::new() } else { format!("[{}]", risky.iter().map(|s| s.as_str()).collect::<Vec<_>>().join(",")) };
        let src0 = print_program(&g.prog, Layout::plain());
        let layout_seeds: Vec<u64> = (0..n_layouts).map(|_| rng.next_u64()).collect();
        for (ti, txd) in g.prog.txs.iter().enumerate() {
            let tir0 = match front(&src0, &txd.name) {
                Ok(t) => t,
                Err(e) => {
                    ctx.count("front/rejected");
                    ctx.count(&format!("front/rejected/{}", e.class()));
                    if ctx.counters.get("front/rejected").copied().unwrap_or(0) <= 2 {
                        eprintln!("[C01] generator output rejected: {} :: {}\n{}", e.class(), e.text(), src0);
                    }
                    // a generated core program the front end refuses: the implementation does not
                    // produce what the template denotes (it produces nothing)
                    ctx.eval();
                    ctx.violation(
                        format!("rejected-core-program:{}:{}{}", e.class(), err_sig(&e.text()), suffix),
                        json!({"source": src0, "tx": txd.name, "error": e.text(), "tags": g.prog.tags}),
                    );
                    continue;
                }
            };
            ctx.count("front/accepted");
            let canon0 = canon::canon_bytes(&tir0);
            // layouts: insignificant whitespace / comments never change the result
            for ls in &layout_seeds {
                let src = print_program(&g.prog, Layout::random(*ls));
                ctx.eval();
                ctx.count("layouts-checked");
                match front(&src, &txd.name) {
                    Ok(t) => {
                        if canon::canon_bytes(&t) != canon0 {
                            ctx.violation(format!("layout-dependence:ir-differs{suffix}"), json!({"plain": src0, "layout": src, "tx": txd.name}));
                        }
                    }
                    Err(e) => ctx.violation(
                        format!("layout-dependence:rejected:{}{}", e.class(), suffix),
                        json!({"plain": src0, "layout": src, "tx": txd.name, "error": e.text()}),
                    ),
                }
            }
            for _ in 0..n_worlds {
                let Some((w, exp)) = in_range_world(&g, ti, rng, cfg, 6, ctx) else {
                    ctx.count("world/gave-up");
                    continue;
                };
                ctx.eval();
                ctx.count("disagreements_checked");
                let detail = |what: Value| json!({"source": src0, "tx": txd.name, "world": world_json(&w), "expected": exp_json(&exp), "observed": what, "tags": g.prog.tags, "phase": phase});
                match back_assigned(&tir0, &w, &PP::default()) {
                    Err(e) => {
                        ctx.count(&format!("back/{}", e.class()));
                        ctx.violation(format!("error-instead-of-tx:{}:{}{}", e.class(), err_sig(&e.text()), suffix), detail(json!({"error": e.text()})));
                    }
                    Ok(c) => match txview::view(&c.payload) {
                        Err(e) => ctx.violation(format!("undecodable-payload:{}{}", err_sig(&e), suffix), detail(json!({"decode_error": e, "payload": hex::encode(&c.payload)}))),
                        Ok(v) => {
                            ctx.count("back/ok");
                            let d = txview::diff(&exp, &v.tx);
                            if !d.is_empty() {
                                let mut kinds: Vec<String> = d.iter().map(|x| strip_indices(x)).collect();
                                kinds.sort();
                                kinds.dedup();
                                for k in kinds {
                                    ctx.violation(format!("mismatch:{k}{suffix}"), detail(json!({"differing_fields": d, "decoded": exp_json(&v.tx), "payload": hex::encode(&c.payload)})));
                                }
                            }
                            // "contains exactly": an element of the denoted signer / input sets written twice in the
                            // payload is an addition the set view of the decoder would hide
                            let mut rep: Vec<&String> = v.facts.duplicates.iter().filter(|f| matches!(f.as_str(), "required_signers" | "inputs" | "reference_inputs" | "collateral")).collect();
                            rep.sort();
                            rep.dedup();
                            for f in rep {
                                ctx.violation(format!("mismatch:repeated:{f}{suffix}"), detail(json!({"repeated_elements_in": f, "payload": hex::encode(&c.payload)})));
                            }
                            if v.facts.network_id != Some(w.network as u64) {
                                ctx.violation(format!("mismatch:network-id{suffix}"), detail(json!({"network_id": v.facts.network_id})));
                            }
                            let nontrivial = (exp.outputs.len() >= 2 || exp.outputs.iter().any(|o| o.datum.is_some()) || !exp.mint.is_empty()) && !g.prog.tags.is_empty();
                            if nontrivial {
                                ctx.nontrivial(fnv64(format!("{}{:?}", src0, w.args).as_bytes()));
                            }
                            ctx.sample(|| json!({"source": src0, "tx": txd.name, "world": world_json(&w), "expected_and_observed": exp_json(&exp)}));
                        }
                    },
                }
            }
        }
    }
}

impl Property for C01 {
    fn id(&self) -> &'static str {
        "C01"
    }
    fn level(&self) -> &'static str {
        "translation_validation"
    }
    fn rule(&self) -> String {
        "programs: random programs of the core fragment G (DESIGN appendix A) printed in a plain layout plus random whitespace/comment layouts; per tx, argument vectors + UTxO assignments are drawn until the reference denotation is defined and every quantity fits its ledger field; the payload compiled by the real pipeline (resolver stage order, assigned UTxOs) is decoded with the independent CBOR/Plutus-Data reader and compared field by field with the denotation. Non-trivial: the denotation has >= 2 outputs or a datum or a mint, and the program carries >= 1 feature tag; distinct = distinct (source text, argument vector).".into()
    }
    fn assumptions(&self) -> Vec<String> {
        vec![
            "the reference semantics (harness/src/gen/sem.rs) is a second implementation and may be wrong in the same way; it is self-tested on hand-computed cases".into(),
            "UTxOs are assigned to input blocks, not selected (C03/C04 own selection); the fee is an argument (C05 owns the fixed point)".into(),
            "input / reference / collateral / signer fields are compared as sets".into(),
        ]
    }
    fn self_test(&self) -> Result<(), String> {
        crate::decode::blake2b::self_test()?;
        crate::props::selftest::semantics_self_test()
    }
    fn phases(&self, tier: Tier) -> Vec<Phase> {
        match tier {
            Tier::Quick => vec![Phase::new("core", 12_000, Profile::Release)],
            Tier::Thorough => vec![Phase::new("core", 400_000, Profile::Release), Phase::new("core-checked", 60_000, Profile::Checked)],
        }
    }
    fn required_features(&self, _tier: Tier) -> Vec<String> {
        [
            "sub-chain>=3", "spread", "input-as-assets", "input-datum-field", "local->int", "local->value", "policy-as-address", "many-input", "mint", "burn",
            "optional-output", "validity", "signers", "metadata", "reference-input", "collateral", "concat", "list-index", "variant-struct-case", "variant-unit-case",
            "any-asset", "fees-in-value", "negate", "paren-regroup", "env-var", "tip_slot", "slot_to_time", "time_to_slot", "output-datum", "block-order-shuffled",
            "map-literal", "bech32-literal-address", "spread-fills-middle-field", "constructor-fields-out-of-order", "risky:param-in-index",
            "risky:compiler-op-over-param", "risky:policy-name-in-any-asset", "risky:policy-hash-as-data",
        ]
        .iter()
        .map(|s| format!("feature/{s}"))
        .chain(["layouts-checked".to_string(), "back/ok".to_string()])
        .collect()
    }
    fn run_case(&self, ctx: &mut Ctx, phase: &str, _idx: u64, rng: &mut Rng) {
        let (worlds, layouts) = if ctx.tier == Tier::Quick { (2, 2) } else { (3, 3) };
        let cfg = Cfg::default();
        self.one_program(ctx, rng, &cfg, worlds, layouts, phase);
    }
}
