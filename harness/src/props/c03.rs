//! C03 — input selection honours every stated constraint and finds a match if one exists.

use crate::env::{LoggedStore, StoreEvent};
use crate::framework::*;
use crate::rng::{fnv64, Rng};
use serde_json::json;
use std::collections::HashSet;
use tx3_resolver::inputs::resolve;
use tx3_resolver::Error as RErr;
use tx3_tir::encoding::AnyTir;
use tx3_tir::model::assets::{AssetClass, CanonicalAssets};
use tx3_tir::model::core::{Utxo, UtxoRef};
use tx3_tir::model::v1beta0 as tir;

pub struct C03;

const WINDOW: usize = 50;

fn addr(i: u8) -> Vec<u8> {
    let mut a = vec![0x60];
    a.extend(vec![i; 28]);
    a
}

fn tok(i: u8) -> (Vec<u8>, Vec<u8>) {
    (vec![0xa0 + i; 28], vec![b'T', b'0' + i])
}

fn mk_utxo(n: u32, address: u8, lovelace: i128, t1: i128, t2: i128) -> Utxo {
    let mut assets = CanonicalAssets::empty();
    if lovelace != 0 {
        assets = assets + CanonicalAssets::from_naked_amount(lovelace);
    }
    for (i, q) in [(1u8, t1), (2u8, t2)] {
        if q != 0 {
            let (p, nm) = tok(i);
            assets = assets + CanonicalAssets::from_defined_asset(&p, &nm, q);
        }
    }
    let mut txid = vec![0u8; 32];
    txid[..4].copy_from_slice(&n.to_be_bytes());
    txid[31] = (n % 251) as u8;
    Utxo { r#ref: UtxoRef { txid, index: n % 3 }, address: addr(address), assets, datum: None, script: None }
}

/// adds a policy-less (`Named`) asset to a UTxO: not lovelace, so such a UTxO is no collateral
fn with_named(mut u: Utxo, q: i128) -> Utxo {
    u.assets = u.assets + CanonicalAssets::from_named_asset(b"NAMED", q);
    u
}

#[derive(Clone, Debug)]
struct Query {
    address: Option<u8>,
    refs: Vec<UtxoRef>,
    /// None = no min_amount field; Some(per class: None = class absent)
    min: Option<[Option<i128>; 3]>,
    many: bool,
    collateral: bool,
}

fn query_expr(q: &Query) -> tir::InputQuery {
    let min_amount = match &q.min {
        None => tir::Expression::None,
        Some(m) => {
            let mut list = vec![];
            if let Some(l) = m[0] {
                list.push(tir::AssetExpr { policy: tir::Expression::None, asset_name: tir::Expression::None, amount: tir::Expression::Number(l) });
            }
            for (i, q) in [(1u8, m[1]), (2u8, m[2])] {
                if let Some(q) = q {
                    let (p, n) = tok(i);
                    list.push(tir::AssetExpr { policy: tir::Expression::Bytes(p), asset_name: tir::Expression::Bytes(n), amount: tir::Expression::Number(q) });
                }
            }
            tir::Expression::Assets(list)
        }
    };
    tir::InputQuery {
        address: q.address.map(|a| tir::Expression::Address(addr(a))).unwrap_or(tir::Expression::None),
        min_amount,
        r#ref: if q.refs.is_empty() { tir::Expression::None } else { tir::Expression::UtxoRefs(q.refs.clone()) },
        many: q.many,
        collateral: q.collateral,
    }
}

fn one_input_tx(q: &Query) -> tir::Tx {
    let param = tir::Expression::EvalParam(Box::new(tir::Param::ExpectInput("subject".into(), query_expr(q))));
    let mut tx = tir::Tx {
        fees: tir::Expression::None,
        references: vec![],
        inputs: vec![],
        outputs: vec![],
        validity: None,
        mints: vec![],
        burns: vec![],
        adhoc: vec![],
        collateral: vec![],
        signers: None,
        metadata: vec![],
    };
    if q.collateral {
        tx.collateral.push(tir::Collateral { utxos: param });
    } else {
        tx.inputs.push(tir::Input { name: "subject".into(), utxos: param, redeemer: tir::Expression::None });
    }
    tx
}

pub fn bound_set(e: &tir::Expression) -> Option<Vec<Utxo>> {
    match e {
        tir::Expression::EvalParam(p) => match p.as_ref() {
            tir::Param::Set(tir::Expression::UtxoSet(s)) => Some(s.iter().cloned().collect()),
            _ => None,
        },
        tir::Expression::UtxoSet(s) => Some(s.iter().cloned().collect()),
        _ => None,
    }
}

fn amount(u: &Utxo, class: usize) -> i128 {
    match class {
        0 => u.assets.naked_amount().unwrap_or(0),
        i => {
            let (p, n) = tok(i as u8);
            u.assets.asset_amount(&AssetClass::Defined(p, n)).unwrap_or(0)
        }
    }
}

fn pure_lovelace(u: &Utxo) -> bool {
    u.assets.iter().all(|(c, q)| c.is_naked() || *q == 0)
}

fn shape(q: &Query) -> String {
    format!(
        "{}+{}+{}+{}{}",
        if q.address.is_some() { "from" } else { "nofrom" },
        match q.refs.len() {
            0 => "noref",
            1 => "ref",
            _ => "refs",
        },
        match &q.min {
            None => "nomin".to_string(),
            Some(m) => {
                let tokens = m[1].map(|x| x > 0).unwrap_or(false) || m[2].map(|x| x > 0).unwrap_or(false);
                let lov = m[0].map(|x| x > 0).unwrap_or(false);
                match (lov, tokens) {
                    (true, true) => "min(lovelace,token)".into(),
                    (true, false) => "min(lovelace)".into(),
                    (false, true) => "min(token)".into(),
                    (false, false) => "min(zero)".into(),
                }
            }
        },
        if q.many { "many" } else { "single" },
        if q.collateral { "+collateral" } else { "" }
    )
}

impl C03 {
    /// returns true when the case was non-trivial
    fn check(&self, ctx: &mut Ctx, store_utxos: &[Utxo], q: &Query, completeness: bool, phase: &str) -> bool {
        let store = LoggedStore::new(store_utxos.to_vec());
        let tx = one_input_tx(q);
        ctx.eval();
        let r = crate::panics::catch(|| pollster::block_on(resolve(AnyTir::V1Beta0(tx), &store)));
        let log = store.events();
        for e in &log {
            match e {
                StoreEvent::NarrowByAddress(..) => ctx.count("store/narrow-by-address"),
                StoreEvent::NarrowByAsset(..) => ctx.count("store/narrow-by-asset"),
                StoreEvent::NarrowByPolicy(..) => ctx.count("store/narrow-by-policy"),
                StoreEvent::Fetch(asked, got) => {
                    ctx.count("store/fetch");
                    if *got < asked.len() {
                        ctx.count("store/fetch-dangling");
                    }
                    if asked.len() == WINDOW {
                        ctx.count("store/fetch-window-full");
                    }
                }
            }
        }
        let min: [i128; 3] = match &q.min {
            None => [0, 0, 0],
            Some(m) => [m[0].unwrap_or(0), m[1].unwrap_or(0), m[2].unwrap_or(0)],
        };
        let sh = shape(q);
        // soundness signatures name the constraint and the coarse query shape only
        let cs = format!("{}+{}{}", if q.address.is_some() { "from" } else { "nofrom" }, match q.refs.len() { 0 => "noref", 1 => "ref", _ => "refs" }, if q.collateral { "+collateral" } else { "" });
        let detail = |what: serde_json::Value| {
            json!({
                "phase": phase,
                "query": {"address": q.address, "refs": q.refs.iter().map(|r| format!("{}#{}", hex::encode(&r.txid), r.index)).collect::<Vec<_>>(), "min_amount[lovelace,T1,T2]": q.min, "many": q.many, "collateral": q.collateral},
                "store": store_utxos.iter().take(60).map(|u| json!({"ref": format!("{}#{}", hex::encode(&u.r#ref.txid[..4]), u.r#ref.index), "addr": u.address[1], "lovelace": amount(u, 0), "T1": amount(u, 1), "T2": amount(u, 2)})).collect::<Vec<_>>(),
                "store_size": store_utxos.len(),
                "observed": what,
            })
        };
        // reference: candidates by the statement
        let wants_token = min[1] > 0 || min[2] > 0;
        let refset: HashSet<&UtxoRef> = q.refs.iter().collect();
        let cands: Vec<&Utxo> = store_utxos
            .iter()
            .filter(|u| match q.address {
                Some(a) => u.address == addr(a),
                None => true,
            })
            .filter(|u| if q.refs.is_empty() { true } else { refset.contains(&u.r#ref) })
            .filter(|u| {
                // without `from` and without refs: the UTxOs holding every requested token
                if q.address.is_none() && q.refs.is_empty() {
                    (1..3).all(|c| min[c] <= 0 || amount(u, c) > 0)
                } else {
                    true
                }
            })
            .filter(|u| !q.collateral || pure_lovelace(u))
            .collect();
        let covering_exists = if q.many {
            !cands.is_empty() && (0..3).all(|c| cands.iter().map(|u| amount(u, c)).sum::<i128>() >= min[c])
        } else {
            cands.iter().any(|u| (0..3).all(|c| amount(u, c) >= min[c]))
        };
        let too_broad_ok = q.address.is_none() && q.refs.is_empty() && !wants_token;
        let nontrivial = (q.address.is_some() as u8 + !q.refs.is_empty() as u8 + q.min.is_some() as u8) >= 2 && !cands.is_empty() && cands.len() < store_utxos.len();
        match r {
            Err(p) => {
                ctx.violation(format!("panic:{}", p.signature()), detail(json!({"panic": p.message})));
            }
            Ok(Err(RErr::InputQueryTooBroad)) => {
                ctx.count("outcome/too-broad");
                if !too_broad_ok {
                    ctx.violation(format!("too-broad:{sh}"), detail(json!("InputQueryTooBroad for a constrained query")));
                }
            }
            Ok(Err(RErr::InputNotResolved(..))) => {
                ctx.count("outcome/not-resolved");
                if completeness && covering_exists && cands.len() <= WINDOW && !too_broad_ok {
                    ctx.violation(format!("incomplete:{sh}"), detail(json!({"error": "InputNotResolved", "candidates": cands.len()})));
                }
            }
            Ok(Err(e)) => {
                ctx.count("outcome/other-error");
                ctx.violation(format!("unexpected-error:{}", crate::props::c01::err_sig(&e.to_string())), detail(json!({"error": e.to_string()})));
            }
            Ok(Ok(AnyTir::V1Beta0(out))) => {
                ctx.count("outcome/resolved");
                let e = if q.collateral { out.collateral.first().map(|c| &c.utxos) } else { out.inputs.first().map(|i| &i.utxos) };
                let Some(sel) = e.and_then(bound_set) else {
                    ctx.violation("unbound-after-resolve", detail(json!("resolve returned Ok but the input parameter is not bound to a UTxO set")));
                    return nontrivial;
                };
                ctx.add("selected-utxos", sel.len() as u64);
                if sel.is_empty() {
                    ctx.violation(format!("unsound:empty-selection:{cs}"), detail(json!([])));
                }
                let sel_json = json!(sel.iter().map(|u| json!({"ref": format!("{}#{}", hex::encode(&u.r#ref.txid[..4]), u.r#ref.index), "addr": u.address.get(1), "lovelace": amount(u, 0), "T1": amount(u, 1), "T2": amount(u, 2)})).collect::<Vec<_>>());
                for u in &sel {
                    if !store_utxos.iter().any(|s| s.r#ref == u.r#ref) {
                        ctx.violation(format!("unsound:not-in-store:{cs}"), detail(sel_json.clone()));
                    }
                    if let Some(a) = q.address {
                        if u.address != addr(a) {
                            ctx.violation(format!("unsound:address:{cs}"), detail(sel_json.clone()));
                        }
                    }
                    if !q.refs.is_empty() && !refset.contains(&u.r#ref) {
                        ctx.violation(format!("unsound:ref:{cs}"), detail(sel_json.clone()));
                    }
                    if q.collateral && !pure_lovelace(u) {
                        ctx.violation(format!("unsound:collateral-not-pure:{cs}"), detail(sel_json.clone()));
                    }
                }
                if !q.many {
                    if sel.len() != 1 {
                        ctx.violation(format!("unsound:single-got-{}:{cs}", if sel.len() > 1 { "many" } else { "none" }), detail(sel_json.clone()));
                    } else if !(0..3).all(|c| amount(&sel[0], c) >= min[c]) {
                        ctx.violation(format!("unsound:min-amount:{cs}"), detail(sel_json.clone()));
                    }
                } else if !(0..3).all(|c| sel.iter().map(|u| amount(u, c)).sum::<i128>() >= min[c]) {
                    ctx.violation(format!("unsound:min-amount:{cs}"), detail(sel_json.clone()));
                }
            }
        }
        nontrivial
    }
}

const ADDRS: [Option<u8>; 3] = [None, Some(1), Some(2)];
const MINS: [Option<i128>; 5] = [None, Some(0), Some(1), Some(2), Some(4)];

impl Property for C03 {
    fn id(&self) -> &'static str {
        "C03"
    }
    fn rule(&self) -> String {
        "small (exhaustive over a seeded sample of stores): stores of 0..4 UTxOs over addresses {A,B,C} x lovelace {0,1,2,5} x two tokens {0,1,3}; queries = address {none,A,B} x ref {none, own, foreign, dangling} x min_amount {absent} or per class {absent,0,1,2,4}^3 x {single,many} x {input,collateral}, every query against every sampled store; tight: 1..50 candidates at the queried address among up to 80 others, the threshold set to the exact total of the candidates (multi-UTxO) or to the one dominating candidate (single; magnitudes from units to 2^45, and near misses 1..10 above the best candidate, which must stay unresolved), so that losing any candidate anywhere (narrowing, window, selection, excess trimming) turns a resolvable query into a failure; blocks: 50 + s equal UTxOs at one address, s single-UTxO blocks visited first and one multi-UTxO block that needs all of the (at most 50) UTxOs they leave - the statement's candidates are those no other block has taken; random: stores of 1..50 and 51..200 UTxOs with amounts up to 2^62 (one UTxO in five also holds a policy-less Named asset: not lovelace, hence no collateral), the same query shapes plus hand-built multi-ref queries (soundness only). Oracle: brute force over the store written against the statement (soundness of the bound set; completeness on the candidate set when it has <= 50 members). Non-trivial: the query has >= 2 constraints and the store has both candidate and non-candidate UTxOs; distinct = distinct (store, query).".into()
    }
    fn assumptions(&self) -> Vec<String> {
        vec![
            "the store implements the trait contract (narrow_refs by address / asset, fetch_utxos returns the existing ones of the requested references)".into(),
            "min_amount entries are non-negative; which covering UTxO is chosen is free".into(),
        ]
    }
    fn phases(&self, tier: Tier) -> Vec<Phase> {
        match tier {
            Tier::Quick => vec![Phase::new("small", 120, Profile::Release), Phase::new("random", 6_000, Profile::Release), Phase::new("tight", 6_000, Profile::Release), Phase::new("blocks", 1_500, Profile::Release)],
            Tier::Thorough => vec![Phase::new("small", 2_500, Profile::Release), Phase::new("random", 300_000, Profile::Release), Phase::new("tight", 300_000, Profile::Release), Phase::new("blocks", 60_000, Profile::Release)],
        }
    }
    fn required_features(&self, _tier: Tier) -> Vec<String> {
        ["outcome/resolved", "outcome/not-resolved", "outcome/too-broad", "store/narrow-by-address", "store/narrow-by-asset", "store/fetch-dangling", "store/fetch-window-full", "shape/from+ref", "shape/collateral", "shape/many", "shape/multi-ref", "tight/needs-all-candidates", "tight/window-nearly-full", "tight/single-unique-cover", "tight/single-near-miss", "tight/no-address-token-holders", "store/utxo-with-named-asset", "blocks/resolved", "blocks/rest-fills-the-window"]
            .iter()
            .map(|s| s.to_string())
            .collect()
    }
    fn run_case(&self, ctx: &mut Ctx, phase: &str, idx: u64, rng: &mut Rng) {
        if phase == "small" {
            // one store per case, all queries against it
            let n = (idx % 5) as usize;
            let store: Vec<Utxo> = (0..n)
                .map(|k| mk_utxo((idx as u32) * 8 + k as u32 + 1, 1 + rng.below(3) as u8, *rng.pick(&[0i128, 1, 2, 5]), *rng.pick(&[0i128, 1, 3]), *rng.pick(&[0i128, 0, 1, 3])))
                .collect();
            let dangling = mk_utxo(9_999_999, 1, 5, 0, 0).r#ref;
            for address in ADDRS {
                // ref choices: none, own (first utxo matching the address), foreign (first utxo at another address), dangling
                let own = store.iter().find(|u| address.map(|a| u.address == addr(a)).unwrap_or(true)).map(|u| u.r#ref.clone());
                let foreign = address.and_then(|a| store.iter().find(|u| u.address != addr(a)).map(|u| u.r#ref.clone()));
                let ref_choices: Vec<Vec<UtxoRef>> = vec![vec![], own.into_iter().collect(), foreign.into_iter().collect(), vec![dangling.clone()]];
                for (ri, refs) in ref_choices.iter().enumerate() {
                    if ri > 0 && refs.is_empty() {
                        continue;
                    }
                    let mut mins: Vec<Option<[Option<i128>; 3]>> = vec![None];
                    for a in MINS {
                        for b in MINS {
                            for c in MINS {
                                mins.push(Some([a, b, c]));
                            }
                        }
                    }
                    for min in mins {
                        for many in [false, true] {
                            for collateral in [false, true] {
                                if collateral && many {
                                    continue; // the language lowers collateral as a single-UTxO query
                                }
                                let q = Query { address, refs: refs.clone(), min, many, collateral };
                                if address.is_some() && !refs.is_empty() {
                                    ctx.count("shape/from+ref");
                                }
                                if collateral {
                                    ctx.count("shape/collateral");
                                }
                                if many {
                                    ctx.count("shape/many");
                                }
                                let nt = self.check(ctx, &store, &q, true, phase);
                                if nt {
                                    ctx.nontrivial(fnv64(format!("{idx}{q:?}").as_bytes()));
                                }
                            }
                        }
                    }
                }
            }
            ctx.sample(|| json!({"phase": "small", "store": store.iter().map(|u| json!({"addr": u.address[1], "lovelace": amount(u, 0), "T1": amount(u, 1), "T2": amount(u, 2)})).collect::<Vec<_>>(), "queries": "every (address, ref, min_amount, single/many, input/collateral) combination"}));
        } else if phase == "blocks" {
            // candidates are "the UTxOs ... that no other block has taken": a wallet of 50 + s equal UTxOs, s
            // single-UTxO blocks (named so that they are visited first) and one multi-UTxO block that needs all
            // of the 50 that are left - equal amounts, so which UTxOs the first blocks take does not matter
            let sgl = 1 + rng.usize(4);
            let rest = *rng.pick(&[50usize, 50, 49, 30, 5]);
            let n = rest + sgl;
            let unit = *rng.pick(&[10i128, 1_000_000]);
            let a = 1u8;
            let mut store: Vec<Utxo> = (0..n).map(|k| mk_utxo(k as u32 + 1, a, unit, 0, 0)).collect();
            for _ in 0..rng.usize(20) {
                let k = store.len() as u32 + 1;
                store.push(mk_utxo(k, 2, unit * 3, 0, 0));
            }
            for i in (1..store.len()).rev() {
                let j = rng.usize(i + 1);
                store.swap(i, j);
            }
            let mut tx = one_input_tx(&Query { address: Some(a), refs: vec![], min: Some([Some(unit * rest as i128), None, None]), many: true, collateral: false });
            tx.inputs[0].name = "zz_rest".into();
            if let tir::Expression::EvalParam(p) = &mut tx.inputs[0].utxos {
                if let tir::Param::ExpectInput(name, _) = p.as_mut() {
                    *name = "zz_rest".into();
                }
            }
            for k in 0..sgl {
                let q = Query { address: Some(a), refs: vec![], min: Some([Some(unit), None, None]), many: false, collateral: false };
                let name = format!("a{k}");
                tx.inputs.push(tir::Input { name: name.clone(), utxos: tir::Expression::EvalParam(Box::new(tir::Param::ExpectInput(name, query_expr(&q)))), redeemer: tir::Expression::None });
            }
            let st = LoggedStore::new(store.clone());
            ctx.eval();
            ctx.count("blocks/checked");
            if rest == 50 {
                ctx.count("blocks/rest-fills-the-window");
            }
            let detail = |what: serde_json::Value| json!({"phase": "blocks", "equal_utxos_at_the_address": n, "amount_each": unit.to_string(), "single_blocks_visited_first": sgl, "multi_block_needs": rest, "elsewhere": store.len() - n, "observed": what});
            match crate::panics::catch(|| pollster::block_on(resolve(AnyTir::V1Beta0(tx), &st))) {
                Err(p) => ctx.violation(format!("panic:{}", p.signature()), detail(json!({"panic": p.message}))),
                Ok(Err(e)) => ctx.violation("incomplete:blocks:candidates-left-by-other-blocks-cover", detail(json!({"error": e.to_string()}))),
                Ok(Ok(AnyTir::V1Beta0(out))) => {
                    // soundness across the blocks: disjoint, at the address, covering
                    let mut seen = std::collections::BTreeSet::new();
                    for i in &out.inputs {
                        let Some(sel) = bound_set(&i.utxos) else {
                            ctx.violation("unbound-after-resolve", detail(json!({"block": i.name})));
                            continue;
                        };
                        let total: i128 = sel.iter().map(|u| amount(u, 0)).sum();
                        let need = if i.name == "zz_rest" { unit * rest as i128 } else { unit };
                        if total < need || sel.iter().any(|u| u.address != addr(a)) {
                            ctx.violation("unsound:blocks:min-amount-or-address", detail(json!({"block": i.name, "total": total.to_string(), "needs": need.to_string()})));
                        }
                        for u in &sel {
                            if !seen.insert((u.r#ref.txid.clone(), u.r#ref.index)) {
                                ctx.violation("unsound:blocks:utxo-in-two-blocks", detail(json!({"block": i.name})));
                            }
                        }
                    }
                    ctx.count("blocks/resolved");
                    ctx.nontrivial(fnv64(format!("blocks{idx}{n}{sgl}{unit}").as_bytes()));
                }
            }
        } else if phase == "tight" {
            // the completeness boundary: the candidate set (<= 50, next to non-candidates) covers the
            // threshold only when (nearly) all of it is used - any candidate the narrowing, the window
            // or the selector loses turns a resolvable query into InputNotResolved
            let a = 1 + rng.below(2) as u8;
            let n_cand = match rng.below(4) {
                0 => 1 + rng.usize(8),
                1 => 20 + rng.usize(20),
                _ => 40 + rng.usize(11), // 40..50: the window is nearly or exactly full
            };
            if n_cand >= 40 {
                ctx.count("tight/window-nearly-full");
            }
            let n_other = rng.usize(80);
            let with_token = rng.chance(2, 3);
            // which candidates hold the token: few, about half, or all
            let token_pct = *rng.pick(&[10u64, 50, 90, 100]);
            let mut store: Vec<Utxo> = vec![];
            let mut k = 0u32;
            for _ in 0..n_cand {
                k += 1;
                let t1 = if with_token && rng.below(100) < token_pct { rng.range(1, 9) as i128 } else { 0 };
                store.push(mk_utxo(k, a, rng.range(1, 40) as i128, t1, 0));
            }
            if with_token && store.iter().all(|u| amount(u, 1) == 0) {
                let l = amount(&store[0], 0);
                store[0] = mk_utxo(1, a, l, 3, 0);
            }
            for _ in 0..n_other {
                k += 1;
                let other = if a == 1 { 2 + rng.below(2) as u8 } else { *rng.pick(&[1u8, 3]) };
                store.push(mk_utxo(k, other, rng.range(1, 60) as i128, if rng.chance(1, 3) { rng.range(1, 9) as i128 } else { 0 }, if rng.chance(1, 5) { 2 } else { 0 }));
            }
            // shuffle so that candidates are not the first references the store returns
            for i in (1..store.len()).rev() {
                let j = rng.usize(i + 1);
                store.swap(i, j);
            }
            // one time in five the query has no address: the candidates are the holders of the token, wherever they sit
            let no_address = with_token && rng.chance(1, 5);
            if no_address {
                ctx.count("tight/no-address-token-holders");
            }
            let cands: Vec<&Utxo> = store.iter().filter(|u| if no_address { amount(u, 1) > 0 } else { u.address == addr(a) }).collect();
            if cands.len() > WINDOW {
                return;
            }
            let many = rng.chance(3, 4) || no_address;
            let q = if many {
                let slack = if rng.chance(2, 3) { 0 } else { rng.range(0, 3) as i128 };
                let tot0: i128 = cands.iter().map(|u| amount(u, 0)).sum();
                let tot1: i128 = cands.iter().map(|u| amount(u, 1)).sum();
                ctx.count("tight/needs-all-candidates");
                let t = if with_token { Some((tot1 - if rng.bool() { 0 } else { slack }).max(1)) } else { None };
                Query { address: if no_address { None } else { Some(a) }, refs: vec![], min: Some([Some((tot0 - slack).max(0)), t, None]), many: true, collateral: false }
            } else {
                // exactly one candidate covers: make it dominate the others in both classes - at magnitudes
                // from units to 2^45 (a selector that compares compressed or rounded amounts is exact on small
                // numbers only)
                let pick = rng.usize(cands.len());
                let r = cands[pick].r#ref.clone();
                let scale = *rng.pick(&[1i128, 1, 1_000_000, 100_000_000, 2_500_000_000, 1 << 45]);
                let big0 = (100 + rng.range(0, 50) as i128) * scale;
                let big1 = if with_token { 20 * scale } else { 0 };
                let pos = store.iter().position(|u| u.r#ref == r).unwrap();
                let n = u32::from_be_bytes(store[pos].r#ref.txid[..4].try_into().unwrap());
                store[pos] = mk_utxo(n, a, big0, big1, 0);
                if rng.chance(1, 2) {
                    // near miss: the threshold lies 1..10 above what the best candidate holds - nothing covers
                    // it, so the block must stay unresolved (a short UTxO bound to it is a soundness violation)
                    ctx.count("tight/single-near-miss");
                    let d = *rng.pick(&[1i128, 1, 2, 10]);
                    Query { address: Some(a), refs: vec![], min: Some([Some(big0 + d), if with_token { Some(big1) } else { None }, None]), many: false, collateral: rng.chance(1, 4) && !with_token }
                } else {
                    ctx.count("tight/single-unique-cover");
                    Query { address: Some(a), refs: vec![], min: Some([Some(big0 - rng.range(0, 2) as i128), if with_token { Some(big1) } else { None }, None]), many: false, collateral: false }
                }
            };
            ctx.count("shape/many");
            let nt = self.check(ctx, &store, &q, true, phase);
            if nt {
                ctx.nontrivial(fnv64(format!("tight{idx}{q:?}{}", store.len()).as_bytes()));
            }
            if idx % 997 == 0 {
                ctx.sample(|| json!({"phase": "tight", "store_size": store.len(), "candidates": n_cand, "query": format!("{q:?}").chars().take(300).collect::<String>()}));
            }
        } else {
            let big = idx % 4 == 0;
            let n = if big { 51 + rng.usize(150) } else { 1 + rng.usize(50) };
            let huge = rng.chance(1, 4);
            let store: Vec<Utxo> = (0..n)
                .map(|k| {
                    let amt = |rng: &mut Rng, zero_pct: u64| -> i128 {
                        if rng.below(100) < zero_pct {
                            0
                        } else if huge {
                            (rng.next_u64() >> 2) as i128
                        } else {
                            rng.range(1, 50) as i128
                        }
                    };
                    let l = amt(rng, 5);
                    let t1 = amt(rng, 60);
                    let t2 = amt(rng, 80);
                    let u = mk_utxo(k as u32 + 1, 1 + rng.below(3) as u8, l, t1, t2);
                    if rng.chance(1, 5) {
                        ctx.count("store/utxo-with-named-asset");
                        with_named(u, 1 + rng.below(5) as i128)
                    } else {
                        u
                    }
                })
                .collect();
            let address = *rng.pick(&ADDRS);
            let refs: Vec<UtxoRef> = match rng.below(6) {
                0 | 1 | 2 => vec![],
                3 => vec![rng.pick(&store).r#ref.clone()],
                4 => {
                    ctx.count("shape/multi-ref");
                    (0..2 + rng.usize(4)).map(|_| rng.pick(&store).r#ref.clone()).collect()
                }
                _ => vec![mk_utxo(9_999_999, 1, 5, 0, 0).r#ref],
            };
            let scale = |rng: &mut Rng| -> Option<i128> {
                match rng.below(4) {
                    0 => None,
                    1 => Some(0),
                    _ => Some(if huge { (rng.next_u64() >> rng.below(8)) as i128 } else { rng.range(1, 120) as i128 }),
                }
            };
            let min = if rng.chance(1, 6) { None } else { Some([scale(rng), scale(rng), if rng.chance(1, 3) { scale(rng) } else { None }]) };
            let collateral = rng.chance(1, 5);
            let many = !collateral && rng.bool();
            let q = Query { address, refs, min, many, collateral };
            if address.is_some() && !q.refs.is_empty() {
                ctx.count("shape/from+ref");
            }
            if collateral {
                ctx.count("shape/collateral");
            }
            if many {
                ctx.count("shape/many");
            }
            // completeness is only claimed for the query shapes reachable from the language (<= 1 ref)
            let completeness = q.refs.len() <= 1;
            let nt = self.check(ctx, &store, &q, completeness, phase);
            if nt {
                ctx.nontrivial(fnv64(format!("{idx}{q:?}{}", store.len()).as_bytes()));
            }
            if idx % 997 == 0 {
                ctx.sample(|| json!({"phase": "random", "store_size": store.len(), "query": format!("{q:?}").chars().take(400).collect::<String>()}));
            }
        }
    }
}
