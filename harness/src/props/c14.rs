//! C14 — the back end is total: resolving yields a transaction or an error, never a panic.

use crate::env::{self, LoggedStore, PP};
use crate::framework::*;
use crate::gen::ast::{print_program, Layout};
use crate::gen::build::{self, Cfg, Role};
use crate::gen::sem::V;
use crate::pipeline::front;
use crate::rng::{fnv64, Rng};
use crate::tirgen::TirGen;
use serde_json::json;
use std::collections::{BTreeMap, HashSet};
use tx3_resolver::{inputs, resolve_tx};
use tx3_tir::compile::Compiler as _;
use tx3_tir::encoding::AnyTir;
use tx3_tir::model::core::{Utxo, UtxoRef};
use tx3_tir::model::v1beta0 as tir;
use tx3_tir::reduce::{apply_args, apply_fees, apply_inputs, find_params, find_queries, reduce, Apply as _, ArgValue};
use tx3_tir::Node as _;

pub struct C14;

fn hostile_bytes(rng: &mut Rng) -> Vec<u8> {
    let n = *rng.pick(&[0usize, 1, 27, 28, 29, 31, 32, 33, 56, 57, 64]);
    rng.bytes(n)
}

fn hostile_address(rng: &mut Rng) -> Vec<u8> {
    match rng.below(8) {
        0 => vec![],
        1 => rng.bytes(1),
        2 => {
            // byron-ish
            let mut a = vec![0x82, 0xd8, 0x18, 0x58, 0x21];
            a.extend(rng.bytes(40));
            a
        }
        3 => {
            // shelley header with a wrong length
            let mut a = vec![(rng.below(16) as u8) << 4 | rng.below(2) as u8];
            let n = rng.usize(70);
            a.extend(rng.bytes(n));
            a
        }
        4 => build::rand_address(rng, true, None),
        5 => {
            // pointer address
            let mut a = vec![0x40 | rng.below(2) as u8];
            a.extend(rng.bytes(28));
            a.extend([0x81, 0x02, 0x03]);
            a
        }
        _ => build::rand_address(rng, false, None),
    }
}

fn hostile_arg(ty: &tx3_tir::model::core::Type, rng: &mut Rng) -> ArgValue {
    use tx3_tir::model::core::Type;
    match ty {
        Type::Int => ArgValue::Int(rng.boundary_int()),
        Type::Bool => ArgValue::Bool(rng.bool()),
        Type::Bytes => ArgValue::Bytes(hostile_bytes(rng)),
        Type::Address => ArgValue::Address(hostile_address(rng)),
        Type::UtxoRef => ArgValue::UtxoRef(UtxoRef { txid: hostile_bytes(rng), index: if rng.bool() { u32::MAX } else { rng.below(4) as u32 } }),
        _ => match rng.below(5) {
            0 => ArgValue::Int(rng.boundary_int()),
            1 => ArgValue::Bytes(hostile_bytes(rng)),
            2 => ArgValue::String(["", "abc", "deadbeef#0", "not#anumber", "#", "zz#1"][rng.usize(6)].to_string()),
            3 => ArgValue::Bool(rng.bool()),
            _ => ArgValue::Address(hostile_address(rng)),
        },
    }
}

fn pparams(rng: &mut Rng) -> PP {
    PP {
        mainnet: rng.bool(),
        a: *rng.pick(&[0u64, 44, u64::MAX, 1 << 40]),
        b: *rng.pick(&[0u64, 155_381, u64::MAX]),
        coins_per_utxo_byte: *rng.pick(&[0u64, 4310, u64::MAX]),
        extra_fees: *rng.pick(&[None, Some(0), Some(u64::MAX)]),
        cost_models: match rng.below(5) {
            0 => vec![],
            1 => vec![0],
            2 => vec![1],
            _ => vec![0, 1, 2],
        },
        cost_salt: rng.range(0, 1000),
    }
}

impl C14 {
    fn stage<T>(&self, ctx: &mut Ctx, stage: &str, detail: &dyn Fn() -> serde_json::Value, f: impl FnOnce() -> T) -> Option<T> {
        ctx.count(&format!("stage/{stage}"));
        match crate::panics::catch(f) {
            Ok(v) => Some(v),
            Err(p) => {
                ctx.count("panics");
                let mut d = detail();
                d["stage"] = json!(stage);
                d["panic"] = json!({"message": p.message, "location": p.location});
                ctx.violation(p.signature(), d);
                None
            }
        }
    }

    /// drives every back-end entry point on one IR
    fn drive(&self, ctx: &mut Ctx, tx: &tir::Tx, args: &BTreeMap<String, ArgValue>, store: Vec<Utxo>, pp: &PP, rng: &mut Rng, origin: &serde_json::Value) {
        let detail = || json!({"origin": origin, "args": format!("{args:?}").chars().take(1500).collect::<String>(), "pparams": format!("{pp:?}"), "ir_debug_prefix": format!("{tx:?}").chars().take(1500).collect::<String>(), "tir_hex": hex::encode(tx3_tir::encoding::to_bytes(tx).0).chars().take(6000).collect::<String>()});
        ctx.eval();
        let t0 = AnyTir::V1Beta0(tx.clone());
        // introspection
        self.stage(ctx, "find_params", &detail, || find_params(&t0));
        let queries = self.stage(ctx, "find_queries", &detail, || find_queries(&t0)).unwrap_or_default();
        self.stage(ctx, "is_constant", &detail, || t0.is_constant());
        // manual staging with intermediate reductions
        let fee = *rng.pick(&[0u64, 1, 200_000, u64::MAX]);
        let mut compiler = env::compiler(pp);
        if rng.bool() {
            // a used instance
            let _ = crate::panics::catch(|| compiler.compile(&AnyTir::V1Beta0(simple_tx())));
        }
        let assigned: BTreeMap<String, HashSet<Utxo>> = queries.keys().map(|k| (k.clone(), store.iter().filter(|_| rng.chance(2, 3)).take(3).cloned().collect())).collect();
        let staged = self.stage(ctx, "apply_args", &detail, || apply_args(t0.clone(), args));
        let Some(Ok(t)) = staged else { return self.resolve_paths(ctx, tx, args, store, pp, &detail) };
        let Some(Ok(t)) = self.stage(ctx, "apply_fees", &detail, || apply_fees(t, fee)) else { return self.resolve_paths(ctx, tx, args, store, pp, &detail) };
        let t = match self.stage(ctx, "Node::apply(compiler)", &detail, || t.clone().apply(&mut compiler)) {
            Some(Ok(x)) => x,
            _ => t,
        };
        let t = match self.stage(ctx, "reduce", &detail, || reduce(t.clone())) {
            Some(Ok(x)) => x,
            _ => t,
        };
        let t = match self.stage(ctx, "apply_inputs", &detail, || apply_inputs(t.clone(), &assigned)) {
            Some(Ok(x)) => x,
            _ => t,
        };
        let t = match self.stage(ctx, "reduce", &detail, || reduce(t.clone())) {
            Some(Ok(x)) => x,
            _ => t,
        };
        // compile whatever we have (constant or not: compile must refuse, not panic)
        if let Some(r) = self.stage(ctx, "compile", &detail, || compiler.compile(&t)) {
            ctx.count(if r.is_ok() { "compile/ok" } else { "compile/err" });
        }
        self.resolve_paths(ctx, tx, args, store, pp, &detail);
    }

    fn resolve_paths(&self, ctx: &mut Ctx, tx: &tir::Tx, args: &BTreeMap<String, ArgValue>, store: Vec<Utxo>, pp: &PP, detail: &dyn Fn() -> serde_json::Value) {
        let st = LoggedStore::new(store);
        let t0 = AnyTir::V1Beta0(tx.clone());
        if let Some(r) = self.stage(ctx, "inputs::resolve", detail, || pollster::block_on(inputs::resolve(t0.clone(), &st))) {
            ctx.count(if r.is_ok() { "inputs-resolve/ok" } else { "inputs-resolve/err" });
        }
        let mut compiler = env::compiler(pp);
        if let Some(r) = self.stage(ctx, "resolve_tx", detail, || pollster::block_on(resolve_tx(t0, args, &mut compiler, &st, 3))) {
            ctx.count(if r.is_ok() { "resolve_tx/ok" } else { "resolve_tx/err" });
        }
    }
}

fn simple_tx() -> tir::Tx {
    tir::Tx {
        fees: tir::Expression::Number(1),
        references: vec![],
        inputs: vec![],
        outputs: vec![tir::Output { address: tir::Expression::Address(vec![0x60; 29]), datum: tir::Expression::None, amount: tir::Expression::Assets(vec![]), optional: false }],
        validity: None,
        mints: vec![],
        burns: vec![],
        adhoc: vec![],
        collateral: vec![],
        signers: None,
        metadata: vec![],
    }
}

fn hostile_store(rng: &mut Rng, gen: &mut TirGen, addrs: &[Vec<u8>], tokens: &[(Vec<u8>, Vec<u8>)]) -> Vec<Utxo> {
    let n = match rng.below(5) {
        0 => 0,
        1 => 1,
        2 => 60 + rng.usize(80),
        _ => 2 + rng.usize(8),
    };
    // how many of the UTxOs hold the template's own tokens: none, some, (nearly) all - a query by address and
    // token then has more full matches than the selection window, next to partial ones
    let token_pct = *rng.pick(&[0u64, 30, 95, 100]);
    (0..n)
        .map(|_| {
            let mut u = gen.utxo(rng, 3);
            if !addrs.is_empty() && rng.chance(2, 3) {
                u.address = rng.pick(addrs).clone();
            }
            // any sign, but magnitudes below 2^80 so that sums over a whole store stay far from the
            // i128 limits (real UTxO amounts are 64-bit)
            let mut clamped = tx3_tir::model::assets::CanonicalAssets::empty();
            for (class, amount) in u.assets.iter() {
                let a = (*amount).clamp(-(1i128 << 80), 1i128 << 80);
                clamped = clamped + tx3_tir::model::assets::CanonicalAssets::from_class_and_amount(class.clone(), a);
            }
            if !tokens.is_empty() && rng.below(100) < token_pct {
                let (p, n) = rng.pick(tokens).clone();
                clamped = clamped + tx3_tir::model::assets::CanonicalAssets::from_class_and_amount(tx3_tir::model::assets::AssetClass::Defined(p, n), 1 + rng.below(1000) as i128);
            }
            u.assets = clamped;
            u
        })
        .collect()
}

impl Property for C14 {
    fn id(&self) -> &'static str {
        "C14"
    }
    fn rule(&self) -> String {
        "templates: programs of the generator (all features, chain-specific directives in 70% of them) lowered by the real front end, with type-correct but hostile arguments (integers from the i128 boundary set, byte strings of length 0/1/27..33/56/57/64 where 28 or 32 are expected, addresses of every Shelley kind, Byron-like, pointer, wrong-length and empty ones, UTxO references with short ids and index u32::MAX), stores that are empty, huge, hold negative amounts, odd class names and datums of any shape, protocol parameters with 0 / u64::MAX coefficients and missing cost models, fresh and used compiler instances; wallets: one input query (by address and / or token) against wallets with 0..120 full matches and 0..60 partial ones (both sides of the selection window of 50 and of the 10 references an error message lists); fee-loop: a payment template with change = source - quantity - fees, swept in steps of the fee coefficient across the amounts where the change crosses a CBOR width boundary (where the loop fee -> transaction -> fee has a late fixed point or none), with round budgets 0, 1, 2, 3, 10, 100 (and usize::MAX, usize::MAX - 1 on an instance that converges); directives (exhaustive): cardano_publish / plutus_witness / native_witness directives x 11 version numbers (0..4, 255..257, -1, 2^64, i128::MAX) x 9 kinds of script bytes (valid native script, empty, garbage, truncated, native scripts nested 10..5000 deep, Plutus-like) through compile; deep-native-script: native scripts nested 20000..200000 deep in a native_witness / a version-0 cardano_publish; deep-chains: chains of 4..64 operations (add, sub, negate, coercion, property) over a pending parameter / fee / input datum, through reduce (twice), apply_args, apply_fees and reduce - each stage must return within the case budget; trees: random well-formed IR trees (every Expression / Param / op variant, depth <= 6) a client could send, with arguments for their parameters. Every public back-end entry point is driven (find_params, find_queries, is_constant, apply_args, apply_fees, Node::apply(compiler), reduce, apply_inputs, compile, inputs::resolve, resolve_tx). Oracle: each call returns; a panic (hook: message, file, first in-repo function), an abort (worker signal) or a reproducible watchdog overrun is a violation. Non-trivial: every case; distinct = distinct (IR, arguments).".into()
    }
    fn assumptions(&self) -> Vec<String> {
        vec![
            "arguments are type-correct in the property's sense (an Int parameter gets an integer, a Bytes parameter bytes of any length, an Address parameter any byte string)".into(),
            "the store implements the trait contract and never returns an error".into(),
        ]
    }
    fn hang_is_violation(&self) -> bool {
        true
    }
    fn phases(&self, tier: Tier) -> Vec<Phase> {
        match tier {
            Tier::Quick => vec![Phase::new("templates", 6_000, Profile::Checked), Phase::new("trees", 12_000, Profile::Checked), Phase::new("wallets", 1_500, Profile::Checked), Phase::new("fee-loop", 1_500, Profile::Checked).budget(30_000), Phase::new("deep-chains", 108, Profile::Checked).budget(15_000), Phase::new("directives", 297, Profile::Checked).exhaustive(), Phase::new("deep-native-script", 8, Profile::Checked).exhaustive()],
            Tier::Thorough => vec![
                Phase::new("templates", 200_000, Profile::Checked),
                Phase::new("trees", 400_000, Profile::Checked),
                Phase::new("wallets", 60_000, Profile::Checked),
                Phase::new("fee-loop", 60_000, Profile::Checked).budget(30_000),
                Phase::new("deep-chains", 540, Profile::Checked).budget(15_000),
                Phase::new("directives", 297, Profile::Checked).exhaustive(),
                Phase::new("directives-release", 297, Profile::Release).exhaustive(),
                Phase::new("deep-native-script", 8, Profile::Checked).exhaustive(),
                Phase::new("templates-release", 100_000, Profile::Release),
                Phase::new("trees-release", 200_000, Profile::Release),
            ],
        }
    }
    fn required_features(&self, _tier: Tier) -> Vec<String> {
        ["stage/apply_args", "stage/reduce", "stage/compile", "stage/inputs::resolve", "stage/resolve_tx", "compile/ok", "compile/err", "resolve_tx/ok", "resolve_tx/err", "pparams/missing-cost-model", "stage/fee-loop:resolve_tx", "fee-loop/ok", "deep-chains/depth-64", "deep-chains/returned", "directives/compile-ok", "directives/compile-err"].iter().map(|s| s.to_string()).collect()
    }
    fn run_case(&self, ctx: &mut Ctx, phase: &str, idx: u64, rng: &mut Rng) {
        let pp = pparams(rng);
        if pp.cost_models.len() < 3 {
            ctx.count("pparams/missing-cost-model");
        }
        let deep_native = phase == "deep-native-script";
        if phase == "directives" || phase == "directives-release" || deep_native {
            // chain-specific directives that carry a script: every version number x every kind of script bytes
            // (valid, garbage, empty, deeply nested) through compile
            use tir::Expression as E;
            let versions: [i128; 11] = [0, 1, 2, 3, 4, 255, 256, 257, -1, i128::MAX, 1 << 64];
            let native_sig: Vec<u8> = [vec![0x82, 0x00, 0x58, 0x1c], vec![0x11; 28]].concat();
            let nested = |d: usize| -> Vec<u8> {
                // all-of [ all-of [ ... sig ... ] ]
                let mut b = vec![];
                for _ in 0..d {
                    b.extend_from_slice(&[0x82, 0x01, 0x81]);
                }
                b.extend_from_slice(&native_sig);
                b
            };
            let scripts: Vec<(&str, Vec<u8>)> = vec![
                ("valid-native", native_sig.clone()),
                ("empty", vec![]),
                ("garbage-2", vec![0xde, 0xad]),
                ("garbage-64", rng.bytes(64)),
                ("truncated-native", native_sig[..10].to_vec()),
                ("nested-native-10", nested(10)),
                ("nested-native-300", nested(300)),
                ("nested-native-5000", nested(5_000)),
                ("plutus-like", [vec![0x59, 0x01, 0x00], rng.bytes(256)].concat()),
            ];
            let kinds = ["cardano_publish", "plutus_witness", "native_witness"];
            let n = versions.len() * scripts.len();
            let (kind, version, sname, script) = if deep_native {
                // native scripts nested far beyond what any ledger accepts, where a native script is decoded
                let d = [20_000usize, 50_000, 100_000, 200_000][(idx % 4) as usize];
                (if idx / 4 == 0 { "native_witness" } else { "cardano_publish" }, 0i128, "nested-native-deep", nested(d))
            } else {
                let (sname, script) = scripts[idx as usize % scripts.len()].clone();
                (kinds[(idx as usize / n) % kinds.len()], versions[(idx as usize % n) / scripts.len()], sname, script)
            };
            let mut data: std::collections::HashMap<String, E> = std::collections::HashMap::new();
            data.insert("version".into(), E::Number(version));
            data.insert("script".into(), E::Bytes(script.clone()));
            if kind == "cardano_publish" {
                data.insert("to".into(), E::Address([vec![0x60], vec![0x22; 28]].concat()));
                data.insert("amount".into(), E::Assets(vec![tir::AssetExpr { policy: E::None, asset_name: E::None, amount: E::Number(2_000_000) }]));
            }
            let mut utxos = std::collections::HashSet::new();
            utxos.insert(Utxo { r#ref: UtxoRef { txid: vec![7; 32], index: 0 }, address: [vec![0x60], vec![0x11; 28]].concat(), assets: tx3_tir::model::assets::CanonicalAssets::from_naked_amount(9_000_000), datum: None, script: None });
            let tx = tir::Tx {
                fees: E::Number(200_000),
                references: vec![],
                inputs: vec![tir::Input { name: "source".into(), utxos: E::UtxoSet(utxos), redeemer: E::None }],
                outputs: vec![tir::Output { address: E::Address([vec![0x60], vec![0x22; 28]].concat()), datum: E::None, amount: E::Assets(vec![tir::AssetExpr { policy: E::None, asset_name: E::None, amount: E::Number(3_000_000) }]), optional: false }],
                validity: None,
                mints: vec![],
                burns: vec![],
                adhoc: vec![tir::AdHocDirective { name: kind.into(), data }],
                collateral: vec![],
                signers: None,
                metadata: vec![],
            };
            ctx.count(&format!("directives/{kind}"));
            ctx.count(&format!("directives/script:{sname}"));
            ctx.eval();
            let mut compiler = env::compiler(&PP::default());
            let r = crate::panics::catch(|| compiler.compile(&AnyTir::V1Beta0(tx.clone())).map(|c| c.payload.len()).map_err(|e| e.to_string()));
            match r {
                Ok(Ok(_)) => ctx.count("directives/compile-ok"),
                Ok(Err(_)) => ctx.count("directives/compile-err"),
                Err(p) => ctx.violation(format!("panic:directives:{}", p.signature()), json!({"phase": phase, "directive": kind, "version": version.to_string(), "script": sname, "script_len": script.len(), "panic": p.message})),
            }
            ctx.nontrivial(fnv64(format!("{kind}{version}{sname}").as_bytes()));
            return;
        }
        if phase == "deep-chains" {
            // long chains of operations over a value that is still pending (a parameter, an input): every stage
            // has to return in time that does not explode with the length of the chain
            use tir::BuiltInOp as B;
            use tir::Expression as E;
            let depth = [4usize, 8, 12, 16, 20, 24, 32, 48, 64][(idx % 9) as usize];
            let shape = (idx / 9) % 6;
            let pending: E = match rng.below(3) {
                0 => E::EvalParam(Box::new(tir::Param::ExpectValue("x".into(), tx3_tir::model::core::Type::Int))),
                1 => E::EvalParam(Box::new(tir::Param::ExpectFees)),
                _ => E::EvalCoerce(Box::new(tir::Coerce::IntoDatum(E::EvalParam(Box::new(tir::Param::ExpectInput(
                    "source".into(),
                    tir::InputQuery { address: E::None, min_amount: E::None, r#ref: E::None, many: false, collateral: false },
                )))))),
            };
            let mut e = pending;
            for k in 0..depth {
                let lit = E::Number(1 + (k % 3) as i128);
                e = match shape {
                    0 => E::EvalBuiltIn(Box::new(B::Add(e, lit))),
                    1 => E::EvalBuiltIn(Box::new(B::Sub(e, lit))),
                    2 => E::EvalBuiltIn(Box::new(B::Add(lit, e))),
                    3 => E::EvalBuiltIn(Box::new(B::Negate(e))),
                    4 => E::EvalCoerce(Box::new(tir::Coerce::IntoAssets(e))),
                    _ => E::EvalBuiltIn(Box::new(B::Property(E::List(vec![e, lit]), E::Number(0)))),
                };
            }
            let tx = tir::Tx {
                fees: E::EvalParam(Box::new(tir::Param::ExpectFees)),
                references: vec![],
                inputs: vec![],
                outputs: vec![tir::Output { address: E::Address(vec![0x60; 29]), datum: e, amount: E::None, optional: false }],
                validity: None,
                mints: vec![],
                burns: vec![],
                adhoc: vec![],
                collateral: vec![],
                signers: None,
                metadata: vec![],
            };
            ctx.count(&format!("deep-chains/depth-{depth}"));
            ctx.eval();
            let detail = |what: serde_json::Value| json!({"phase": phase, "depth": depth, "shape": shape, "observed": what});
            let args: BTreeMap<String, ArgValue> = BTreeMap::from([("x".to_string(), ArgValue::Int(5))]);
            let r = crate::panics::catch(|| -> Result<(), String> {
                let t = reduce(AnyTir::V1Beta0(tx.clone())).map_err(|e| e.to_string())?;
                let t = reduce(t).map_err(|e| e.to_string())?;
                let t = apply_args(t, &args).map_err(|e| e.to_string())?;
                let t = apply_fees(t, 200_000).map_err(|e| e.to_string())?;
                let _ = find_params(&t);
                reduce(t).map(|_| ()).map_err(|e| e.to_string())
            });
            match r {
                Ok(_) => ctx.count("deep-chains/returned"),
                Err(p) => ctx.violation(format!("panic:deep-chains:{}", p.signature()), detail(json!({"panic": p.message}))),
            }
            ctx.nontrivial(fnv64(format!("deep{depth}-{shape}-{idx}").as_bytes()));
            return;
        }
        if phase == "fee-loop" {
            // the loop fee -> transaction -> fee of resolve_tx on instances where it has no fixed point or a late
            // one: the change (source - quantity - fees) next to a CBOR width boundary, every round budget
            use crate::props::c05::{args as pay_args, program as pay_program, single_utxo_store, Shape, BOUNDARIES, COEFFS, CONSTS};
            let extra = rng.usize(3);
            let shape = Shape { fees_in_min: rng.bool(), change: rng.chance(5, 6), extra_outputs: extra, min_utxo_on: (0..extra).filter(|_| rng.chance(1, 3)).collect(), datum_on_change: rng.chance(1, 4), token_in_change: false, metadata: rng.chance(1, 6), gift: None, native_witness: false };
            let pp = crate::env::PP { mainnet: rng.bool(), a: *rng.pick(&COEFFS), b: *rng.pick(&CONSTS), coins_per_utxo_byte: *rng.pick(&[4310u64, 1, 0, 34482]), extra_fees: *rng.pick(&[None, Some(0), Some(77_000)]), cost_models: vec![0, 1, 2], cost_salt: 0 };
            let src = crate::gen::ast::print_program(&pay_program(&shape), crate::gen::ast::Layout::plain());
            let Ok(lowered) = crate::pipeline::front(&src, "pay") else {
                ctx.count("front/rejected");
                return;
            };
            let q = rng.range(1_000_000, 3_000_000) as i128;
            let limit = *rng.pick(&[0usize, 1, 2, 3, 10, 100]);
            let run = |lovelace: i128| {
                let store = crate::env::LoggedStore::new(single_utxo_store(lovelace, 0, 9));
                let mut c = crate::env::compiler(&pp);
                crate::panics::catch(|| pollster::block_on(tx3_resolver::resolve_tx(AnyTir::V1Beta0(lowered.clone()), &pay_args(q), &mut c, &store, limit)))
            };
            // the largest round budgets a caller can pass ("iterate until stable"), on an instance that is far from
            // every width boundary and therefore converges
            {
                let big = *rng.pick(&[usize::MAX, usize::MAX - 1, usize::MAX / 2, u32::MAX as usize]);
                let store = crate::env::LoggedStore::new(single_utxo_store(900_000_000_000, 0, 9));
                let mut c = crate::env::compiler(&pp);
                ctx.eval();
                ctx.count("fee-loop/unbounded-budget");
                if let Err(p) = crate::panics::catch(|| pollster::block_on(tx3_resolver::resolve_tx(AnyTir::V1Beta0(lowered.clone()), &pay_args(q), &mut c, &store, big))) {
                    ctx.violation(format!("panic:fee-loop:{}", p.signature()), json!({"source": src, "max_optimize_rounds": big.to_string(), "panic": p.message}));
                }
            }
            let fee_level = match run(900_000_000_000) {
                Ok(Ok(c)) => c.fee as i128,
                _ => 400_000,
            };
            let extras: i128 = (0..shape.extra_outputs).map(|k| 1_500_000 + k as i128).sum();
            // a sweep of amounts around the boundary, finer than 4 * a (the width of the window in which the fee
            // alternates between two values)
            let boundary = *rng.pick(&BOUNDARIES);
            let step = (pp.a as i128).max(1);
            let start = rng.range(-12, 4) as i128;
            for k in 0..12 {
                let lovelace = q + extras + fee_level + boundary + (start + k) * step + rng.range(0, 3) as i128;
                ctx.eval();
                ctx.count("stage/fee-loop:resolve_tx");
                match run(lovelace.max(1)) {
                    Ok(Ok(_)) => ctx.count("fee-loop/ok"),
                    Ok(Err(_)) => ctx.count("fee-loop/err"),
                    Err(p) => ctx.violation(format!("panic:fee-loop:{}", p.signature()), json!({"source": src, "utxo_lovelace": lovelace.to_string(), "quantity": q.to_string(), "pparams": {"a": pp.a, "b": pp.b, "extra_fees": pp.extra_fees}, "max_optimize_rounds": limit, "panic": p.message})),
                }
            }
            ctx.nontrivial(crate::rng::fnv64(format!("{src}{q}{boundary}{start}{limit}{:?}", (pp.a, pp.b, pp.extra_fees)).as_bytes()));
            if idx % 97 == 0 {
                ctx.sample(|| json!({"phase": phase, "source": src, "boundary": boundary.to_string(), "a": pp.a, "max_optimize_rounds": limit}));
            }
            return;
        }
        if phase == "wallets" {
            // one input query against a wide wallet: more UTxOs at the address (and more holders of the token)
            // than the selection window of 50, next to partial matches - sizes on both sides of 10 and 50
            let owner = {
                let mut a = vec![0x60];
                a.extend([0x5a; 28]);
                a
            };
            let (pol, name) = (vec![0xc7u8; 28], b"WIDE".to_vec());
            let n_full = *rng.pick(&[0usize, 9, 10, 11, 49, 50, 51, 52, 75, 120]);
            let n_partial = *rng.pick(&[0usize, 1, 3, 40, 60]);
            let n_other = rng.usize(30);
            let mut store = vec![];
            let mut k = 0u32;
            let mut mk = |addr: Vec<u8>, token: bool, rng: &mut Rng| {
                k += 1;
                let mut txid = vec![0u8; 32];
                txid[..4].copy_from_slice(&k.to_be_bytes());
                let mut assets = tx3_tir::model::assets::CanonicalAssets::from_naked_amount(1_000_000 + rng.below(5_000_000) as i128);
                if token {
                    assets = assets + tx3_tir::model::assets::CanonicalAssets::from_defined_asset(&[0xc7u8; 28], b"WIDE", 1 + rng.below(20) as i128);
                }
                Utxo { r#ref: UtxoRef { txid, index: k % 4 }, address: addr, assets, datum: None, script: None }
            };
            for _ in 0..n_full {
                store.push(mk(owner.clone(), true, rng));
            }
            for _ in 0..n_partial {
                store.push(mk(owner.clone(), false, rng));
            }
            for _ in 0..n_other {
                let mut other = vec![0x60];
                other.extend([0x11; 28]);
                store.push(mk(other, rng.bool(), rng));
            }
            let with_address = rng.chance(3, 4);
            let with_token = !with_address || rng.chance(3, 4);
            let mut min = vec![tir::AssetExpr { policy: tir::Expression::None, asset_name: tir::Expression::None, amount: tir::Expression::Number(rng.below(3_000_000) as i128) }];
            if with_token {
                min.push(tir::AssetExpr { policy: tir::Expression::Bytes(pol), asset_name: tir::Expression::Bytes(name), amount: tir::Expression::Number(1 + rng.below(40) as i128) });
            }
            let q = tir::InputQuery {
                address: if with_address { tir::Expression::Address(owner) } else { tir::Expression::None },
                min_amount: tir::Expression::Assets(min),
                r#ref: tir::Expression::None,
                many: rng.bool(),
                collateral: false,
            };
            let mut tx = simple_tx();
            tx.inputs.push(tir::Input { name: "source".into(), utxos: tir::Expression::EvalParam(Box::new(tir::Param::ExpectInput("source".into(), q))), redeemer: tir::Expression::None });
            ctx.count(if n_full > 50 { "wallets/full-matches>50" } else { "wallets/full-matches<=50" });
            let detail = || json!({"phase": "wallets", "full_matches": n_full, "partial_matches": n_partial, "elsewhere": n_other, "with_address": with_address, "with_token": with_token});
            ctx.eval();
            self.resolve_paths(ctx, &tx, &BTreeMap::new(), store, &pp, &detail);
            ctx.nontrivial(fnv64(format!("wallet{idx}{n_full}{n_partial}{n_other}{with_address}{with_token}").as_bytes()));
            return;
        }
        if phase.starts_with("templates") {
            let cfg = Cfg { cardano_pct: 70, boundary_ints: true, min_utxo: true, ..Default::default() };
            let g = build::generate(rng, &cfg);
            let src = print_program(&g.prog, Layout::plain());
            for (ti, txd) in g.prog.txs.iter().enumerate() {
                let Ok(lowered) = front(&src, &txd.name) else {
                    ctx.count("front/rejected");
                    continue;
                };
                // two flavours of arguments: the world's (mostly well-formed) and hostile ones
                let hostile = idx % 2 == 0;
                let mut args: BTreeMap<String, ArgValue> = BTreeMap::new();
                let w = build::world(&g, ti, rng, &cfg);
                for d in g.env.iter().chain(g.parties.iter()).chain(g.txs[ti].params.iter()) {
                    let key = d.name.to_lowercase();
                    let v = if hostile && rng.chance(1, 2) {
                        match d.role {
                            Role::Addr | Role::StakeAddr => ArgValue::Address(hostile_address(rng)),
                            Role::Bytes(_) => ArgValue::Bytes(hostile_bytes(rng)),
                            Role::Ref => ArgValue::UtxoRef(UtxoRef { txid: hostile_bytes(rng), index: u32::MAX }),
                            Role::Bool => ArgValue::Bool(rng.bool()),
                            _ => ArgValue::Int(rng.boundary_int()),
                        }
                    } else {
                        match w.args.get(&key).and_then(env::v_to_arg) {
                            Some(a) => a,
                            None => ArgValue::Int(0),
                        }
                    };
                    args.insert(key, v);
                }
                let addrs: Vec<Vec<u8>> = w.args.values().filter_map(|v| if let V::Address(a) = v { Some(a.clone()) } else { None }).collect();
                let mut gen = TirGen::new(4, true);
                // store: the world's UTxOs plus noise
                let mut store: Vec<Utxo> = w.inputs.values().flatten().filter_map(env::to_utxo).collect();
                let tokens: Vec<(Vec<u8>, Vec<u8>)> = g.prog.assets.iter().map(|a| (a.policy.clone(), a.asset_name.clone())).collect();
                store.extend(hostile_store(rng, &mut gen, &addrs, &tokens));
                if rng.chance(1, 6) {
                    store.clear();
                }
                let origin = json!({"kind": "generated-program", "source": src, "tx": txd.name});
                self.drive(ctx, &lowered, &args, store, &pp, rng, &origin);
                ctx.nontrivial(fnv64(format!("{src}{args:?}").as_bytes()));
                if idx % 997 == 0 {
                    ctx.sample(|| json!({"phase": phase, "source": src, "args": format!("{args:?}").chars().take(600).collect::<String>()}));
                }
            }
        } else {
            let mut gen = TirGen::new(2 + (idx % 5) as u32, idx % 3 != 0);
            let tx = gen.tx(rng);
            let params = crate::panics::catch(|| find_params(&tx)).unwrap_or_default();
            let mut args = BTreeMap::new();
            for (name, ty) in &params {
                if rng.chance(9, 10) {
                    args.insert(name.clone(), hostile_arg(ty, rng));
                }
            }
            let store = hostile_store(rng, &mut gen, &[], &[]);
            let origin = json!({"kind": "random-ir-tree"});
            self.drive(ctx, &tx, &args, store, &pp, rng, &origin);
            ctx.nontrivial(crate::canon::canon_hash(&tx));
            if idx % 1999 == 0 {
                ctx.sample(|| json!({"phase": phase, "ir_debug_prefix": format!("{tx:?}").chars().take(500).collect::<String>()}));
            }
        }
    }
}
