//! C10 — emitted transactions are well-formed, self-consistent and reproducible.

use crate::decode::blake2b::blake2b_256;
use crate::decode::tx as txview;
use crate::env::{self, PP};
use crate::framework::*;
use crate::gen::ast::{print_program, Layout};
use crate::gen::build::{self, Cfg};
use crate::pipeline::front;
use crate::props::c01::{err_sig, in_range_world, world_json};
use crate::rng::{fnv64, Rng};
use serde_json::json;
use tx3_tir::compile::Compiler as _;
use tx3_tir::encoding::AnyTir;
use tx3_tir::model::v1beta0 as tir;
use tx3_tir::reduce::{apply_args, apply_fees, apply_inputs, reduce, Apply as _};
use tx3_tir::Node as _;

pub struct C10;

thread_local! {
    /// the constant template of the previous case of this worker (compiled on an instance just before the current one)
    static PREVIOUS: std::cell::RefCell<Option<AnyTir>> = const { std::cell::RefCell::new(None) };
}

fn cbor_uint(major: u8, n: u64, out: &mut Vec<u8>) {
    let m = major << 5;
    if n < 24 {
        out.push(m | n as u8);
    } else if n <= 0xff {
        out.push(m | 24);
        out.push(n as u8);
    } else if n <= 0xffff {
        out.push(m | 25);
        out.extend_from_slice(&(n as u16).to_be_bytes());
    } else if n <= 0xffff_ffff {
        out.push(m | 26);
        out.extend_from_slice(&(n as u32).to_be_bytes());
    } else {
        out.push(m | 27);
        out.extend_from_slice(&n.to_be_bytes());
    }
}

fn cbor_int(n: i64, out: &mut Vec<u8>) {
    if n >= 0 {
        cbor_uint(0, n as u64, out)
    } else {
        cbor_uint(1, (-1 - n) as u64, out)
    }
}

/// language views encoding of the Alonzo/Conway script integrity hash for one language
pub fn language_view(lang: u8, model: &[i64]) -> Vec<u8> {
    let mut out = vec![0xa1];
    if lang == 0 {
        // PlutusV1 (legacy): key = bytes(h'00'), value = bytes(indefinite list of ints)
        out.extend_from_slice(&[0x41, 0x00]);
        let mut inner = vec![0x9f];
        for v in model {
            cbor_int(*v, &mut inner);
        }
        inner.push(0xff);
        cbor_uint(2, inner.len() as u64, &mut out);
        out.extend_from_slice(&inner);
    } else {
        cbor_uint(0, lang as u64, &mut out);
        cbor_uint(4, model.len() as u64, &mut out);
        for v in model {
            cbor_int(*v, &mut out);
        }
    }
    out
}

/// reduce a lowered tx to a constant template in the resolver's stage order (no compile)
pub fn constant_template(tx: &tir::Tx, w: &crate::gen::sem::World, pp: &PP) -> Result<AnyTir, String> {
    let args = env::world_args(w).ok_or("unrepresentable args")?;
    let inputs = env::world_inputs(w, Some("collateral")).ok_or("unrepresentable inputs")?;
    let mut pp = pp.clone();
    pp.mainnet = w.network == 1;
    let tx = tx.clone();
    let fee = w.fee;
    crate::panics::catch(move || {
        let mut compiler = env::compiler(&pp);
        let t = AnyTir::V1Beta0(tx);
        let t = apply_args(t, &args).map_err(|e| e.to_string())?;
        let t = apply_fees(t, fee).map_err(|e| e.to_string())?;
        let t = t.apply(&mut compiler).map_err(|e| e.to_string())?;
        let t = reduce(t).map_err(|e| e.to_string())?;
        let t = apply_inputs(t, &inputs).map_err(|e| e.to_string())?;
        let t = reduce(t).map_err(|e| e.to_string())?;
        if !t.is_constant() {
            return Err("not constant".to_string());
        }
        Ok(t)
    })
    .map_err(|p| format!("panic: {}", p.message))?
}

pub fn check_payload(ctx: &mut Ctx, payload: &[u8], hash: &[u8], pp: &PP, mainnet: bool, same_utxo_in_two_blocks: bool, detail: &dyn Fn(serde_json::Value) -> serde_json::Value) -> Option<txview::TxView> {
    // a standard decoder accepts
    let pallas_ok = crate::panics::catch(|| tx3_cardano::pallas::ledger::traverse::MultiEraTx::decode(payload).map(|_| ()).map_err(|e| e.to_string()));
    match pallas_ok {
        Ok(Ok(())) => ctx.count("pallas-accepts"),
        Ok(Err(e)) => ctx.violation(format!("undecodable:pallas:{}", err_sig(&e)), detail(json!({"error": e}))),
        Err(p) => ctx.violation(format!("undecodable:pallas-{}", p.signature()), detail(json!({"panic": p.message}))),
    }
    let v = match txview::view(payload) {
        Ok(v) => v,
        Err(e) => {
            ctx.violation(format!("undecodable:independent-reader:{}", err_sig(&e)), detail(json!({"error": e})));
            return None;
        }
    };
    let f = &v.facts;
    // hash of the raw body bytes
    let body = &payload[f.body_range.0..f.body_range.1];
    if blake2b_256(body) != hash {
        ctx.violation("hash:body", detail(json!({"reported": hex::encode(hash), "blake2b256_of_body_bytes": hex::encode(blake2b_256(body))})));
    }
    // auxiliary data hash <=> auxiliary data
    match (&f.aux_range, &f.aux_hash) {
        (Some((a, b)), Some(h)) => {
            ctx.count("aux-hash-checked");
            if blake2b_256(&payload[*a..*b]) != *h {
                ctx.violation("hash:auxiliary-data", detail(json!({"in_body": hex::encode(h), "recomputed": hex::encode(blake2b_256(&payload[*a..*b]))})));
            }
        }
        (Some(_), None) => ctx.violation("presence:aux-hash-missing", detail(json!({}))),
        (None, Some(_)) => ctx.violation("presence:aux-hash-without-aux-data", detail(json!({}))),
        (None, None) => {}
    }
    if f.aux_range.is_some() && !f.has_metadata {
        ctx.violation("empty:auxiliary-data", detail(json!({})));
    }
    // script data hash <=> redeemers
    match (&f.redeemers_range, &f.script_data_hash) {
        (Some((a, b)), Some(h)) => {
            ctx.count("script-data-hash-checked");
            let models = env::cost_models_salted(pp.cost_salt);
            let langs: Vec<u8> = if f.script_langs_in_witness.is_empty() { pp.cost_models.clone() } else { f.script_langs_in_witness.clone() };
            let mut ok = false;
            let mut tried = vec![];
            for l in &langs {
                let Some(m) = models.get(l) else { continue };
                let mut pre = payload[*a..*b].to_vec();
                if let Some((da, db)) = f.datums_range {
                    pre.extend_from_slice(&payload[da..db]);
                }
                pre.extend_from_slice(&language_view(*l, m));
                let d = blake2b_256(&pre);
                tried.push((l, hex::encode(&d)));
                if d == *h {
                    ok = true;
                    ctx.count(&format!("script-data-hash-lang/{l}"));
                }
            }
            if !ok {
                ctx.violation("hash:script-data", detail(json!({"in_body": hex::encode(h), "recomputed_per_language": tried})));
            }
        }
        (Some(_), None) => ctx.violation("presence:script-data-hash-missing", detail(json!({}))),
        (None, Some(_)) => ctx.violation("presence:script-data-hash-without-redeemers", detail(json!({}))),
        (None, None) => {}
    }
    for d in &f.duplicates {
        // the one cause that has a name of its own: the template itself holds one UTxO in two input blocks
        let cause = if d == "inputs" && same_utxo_in_two_blocks { ":same-utxo-in-two-input-blocks" } else { "" };
        ctx.violation(format!("duplicate:{}{cause}", crate::props::c01::strip_indices(d)), detail(json!({"field": d})));
    }
    for e in &f.empties {
        ctx.violation(format!("empty:{}", crate::props::c01::strip_indices(e)), detail(json!({"field": e})));
    }
    for z in &f.zero_amounts {
        ctx.violation(format!("zero-amount:{}", crate::props::c01::strip_indices(z)), detail(json!({"field": z})));
    }
    if f.network_id != Some(mainnet as u64) {
        ctx.violation("network-id", detail(json!({"in_body": f.network_id, "configured": mainnet as u64})));
    }
    if f.is_valid != Some(true) {
        ctx.violation("is-valid-flag", detail(json!({"is_valid": f.is_valid})));
    }
    Some(v)
}

impl C10 {
    fn gen_cfg() -> Cfg {
        Cfg { cardano_pct: 60, mint_pct: 60, redeemer_focus: false, share_utxo_between_blocks: true, ..Default::default() }
    }
}

impl Property for C10 {
    fn id(&self) -> &'static str {
        "C10"
    }
    fn rule(&self) -> String {
        "constant templates obtained from generated programs (with/without metadata, redeemers on inputs/mints/withdrawals, plutus and native witnesses, mint+burn that cancel, optional outputs, multi-UTxO inputs, collateral, references) for both networks; oracles on the emitted bytes: pallas MultiEraTx::decode accepts; Blake2b-256 (own implementation) of the raw body bytes = reported hash; auxiliary-data hash and script-data hash present exactly when metadata / redeemers are present and equal to the digest of the raw bytes carried (script integrity recomputed from raw redeemer bytes + language view of the supplied cost model); no duplicate or empty entry in any set/map field, no zero quantity; network id = configured; compiling twice (same and fresh compiler instance) and in two fresh processes gives identical bytes. Non-trivial: the tx carries metadata or redeemers or a mint; distinct = distinct payloads.".into()
    }
    fn assumptions(&self) -> Vec<String> {
        vec![
            "script integrity hash per the Alonzo specification: redeemers || datums || language views; the language is that of the witness-set scripts, or any configured one when the witness set carries none".into(),
            "pallas is used only as the 'standard decoder' of the acceptance oracle; every other oracle reads the bytes with the harness' own CBOR reader".into(),
        ]
    }
    fn self_test(&self) -> Result<(), String> {
        crate::decode::blake2b::self_test()
    }
    fn phases(&self, tier: Tier) -> Vec<Phase> {
        match tier {
            Tier::Quick => vec![Phase::new("wellformed", 5_000, Profile::Release)],
            Tier::Thorough => vec![Phase::new("wellformed", 250_000, Profile::Release)],
        }
    }
    fn required_features(&self, _tier: Tier) -> Vec<String> {
        ["pallas-accepts", "aux-hash-checked", "script-data-hash-checked", "repro/in-process", "repro/process-pairs", "feature/mint+burn-same-class", "feature/many-input", "feature/withdrawal", "feature/plutus-witness", "feature/native-witness", "network/mainnet", "network/testnet"]
            .iter()
            .map(|s| s.to_string())
            .collect()
    }
    fn run_case(&self, ctx: &mut Ctx, phase: &str, _idx: u64, rng: &mut Rng) {
        let cfg = Self::gen_cfg();
        let g = build::generate(rng, &cfg);
        for t in &g.prog.tags {
            ctx.count(&format!("feature/{t}"));
        }
        let src = print_program(&g.prog, Layout::plain());
        for (ti, txd) in g.prog.txs.iter().enumerate() {
            let Ok(lowered) = front(&src, &txd.name) else {
                ctx.count("front/rejected");
                continue;
            };
            // C10 also wants cancelling mints etc.: take any world with a defined denotation whose
            // only out-of-range fields (if any) are zero mints
            let Some((w, _exp)) = in_range_world(&g, ti, rng, &cfg, 4, ctx) else { continue };
            let pp = PP::default();
            let t = match constant_template(&lowered, &w, &pp) {
                Ok(t) => t,
                Err(_) => {
                    ctx.count("template/not-constant-or-error");
                    continue;
                }
            };
            let mut pp2 = pp.clone();
            pp2.mainnet = w.network == 1;
            // another cost model in every case: a language view (or anything else) cached across compiler
            // instances of one process shows up as a script-data hash that does not match what was configured
            pp2.cost_salt = rng.range(0, 1_000_000);
            ctx.count(if pp2.mainnet { "network/mainnet" } else { "network/testnet" });
            let mut compiler = env::compiler(&pp2);
            let first = crate::panics::catch(|| compiler.compile(&t));
            let c1 = match first {
                Ok(Ok(c)) => c,
                Ok(Err(_)) => {
                    ctx.count("compile/error");
                    continue;
                }
                Err(p) => {
                    ctx.count(&format!("compile/{}", p.signature()));
                    continue;
                }
            };
            ctx.eval();
            let detail = |what: serde_json::Value| json!({"source": src, "tx": txd.name, "world": world_json(&w), "payload": hex::encode(&c1.payload), "observed": what, "phase": phase});
            let shared = {
                let mut seen = std::collections::BTreeSet::new();
                let mut dup = false;
                for us in w.inputs.values() {
                    for u in us {
                        dup |= !seen.insert((u.txid.clone(), u.index));
                    }
                }
                if dup {
                    ctx.count("world/same-utxo-in-two-input-blocks");
                }
                dup
            };
            let Some(v) = check_payload(ctx, &c1.payload, &c1.hash, &pp2, pp2.mainnet, shared, &detail) else { continue };
            // reproducibility in one process: same instance again, fresh instance, a clone of the template
            let again = crate::panics::catch(|| compiler.compile(&t));
            let mut fresh_compiler = env::compiler(&pp2);
            let fresh = crate::panics::catch(|| fresh_compiler.compile(&t.clone()));
            ctx.count("repro/in-process");
            for (name, r) in [("same-instance", again), ("fresh-instance", fresh)] {
                match r {
                    Ok(Ok(c)) => {
                        if c.payload != c1.payload || c.hash != c1.hash || c.fee != c1.fee {
                            ctx.violation(format!("nondeterministic:in-process:{name}"), detail(json!({"second_payload": hex::encode(&c.payload)})));
                        }
                    }
                    _ => ctx.violation(format!("nondeterministic:in-process:{name}:outcome"), detail(json!({}))),
                }
            }
            // ... and on an instance that compiled something else just before: the previous case's template,
            // and a sibling of this very template that runs another Plutus language (same redeemers, another
            // witness script version) - whatever the instance remembers of those must not show in this payload
            let sibling = {
                let AnyTir::V1Beta0(inner) = &t;
                let mut sib = inner.clone();
                let mut touched = false;
                for d in sib.adhoc.iter_mut().filter(|d| d.name == "plutus_witness") {
                    if let Some(tir::Expression::Number(n)) = d.data.get("version").cloned() {
                        d.data.insert("version".into(), tir::Expression::Number(if n == 3 { 2 } else { 3 }));
                        touched = true;
                    }
                }
                if !touched {
                    sib.adhoc.push(tir::AdHocDirective { name: "plutus_witness".into(), data: [("version".to_string(), tir::Expression::Number(2)), ("script".to_string(), tir::Expression::Bytes(vec![0x4e, 0x4d, 0x01, 0x00, 0x00, 0x33]))].into_iter().collect() });
                }
                AnyTir::V1Beta0(sib)
            };
            let prev = PREVIOUS.with(|p| p.borrow_mut().replace(t.clone()));
            for (name, before) in [("sibling-other-plutus-language", Some(sibling)), ("previous-case", prev)] {
                let Some(before) = before else { continue };
                let mut used = env::compiler(&pp2);
                let warmed = crate::panics::catch(|| used.compile(&before).is_ok()).unwrap_or(false);
                let r = crate::panics::catch(|| used.compile(&t));
                ctx.count(&format!("repro/after-{name}{}", if warmed { "" } else { "(which failed)" }));
                match r {
                    Ok(Ok(c)) => {
                        if c.payload != c1.payload || c.hash != c1.hash || c.fee != c1.fee {
                            ctx.violation(format!("nondeterministic:in-process:after-{name}"), detail(json!({"second_payload": hex::encode(&c.payload), "compiled_before": hex::encode(tx3_tir::encoding::to_bytes(match &before { AnyTir::V1Beta0(x) => x }).0).chars().take(3000).collect::<String>()})));
                        }
                    }
                    _ => ctx.violation(format!("nondeterministic:in-process:after-{name}:outcome"), detail(json!({}))),
                }
            }
            if v.facts.has_metadata || v.facts.has_redeemers || !v.tx.mint.is_empty() {
                ctx.nontrivial(fnv64(&c1.payload));
            }
            ctx.sample(|| json!({"source": src, "tx": txd.name, "payload": hex::encode(&c1.payload), "hash": hex::encode(&c1.hash), "body_keys": v.facts.body_keys_in_order}));
        }
    }

    /// two fresh processes (different hash seeds) compile the same serialised constant templates
    fn supervisor_phase(&self, ctx: &mut Ctx, env: &Env) {
        let n = if ctx.tier == Tier::Quick { 300 } else { 6000 };
        let cfg = Self::gen_cfg();
        let mut lines = vec![];
        let mut meta = vec![];
        let mut i = 0u64;
        while lines.len() < n && i < (n as u64) * 6 {
            let mut rng = Rng::for_case(ctx.seed, "C10", "process-pairs", i);
            i += 1;
            let g = build::generate(&mut rng, &cfg);
            let src = print_program(&g.prog, Layout::plain());
            for (ti, txd) in g.prog.txs.iter().enumerate() {
                let Ok(lowered) = front(&src, &txd.name) else { continue };
                let Some((w, _)) = in_range_world(&g, ti, &mut rng, &cfg, 4, ctx) else { continue };
                let Ok(t) = constant_template(&lowered, &w, &PP::default()) else { continue };
                let AnyTir::V1Beta0(tx) = &t;
                let (bytes, _) = tx3_tir::encoding::to_bytes(tx);
                lines.push(format!("{} {}", w.network, hex::encode(bytes)));
                let multi = w.inputs.values().any(|us| us.len() > 1) || w.inputs.len() > 1;
                meta.push((src.clone(), txd.name.clone(), multi));
            }
        }
        let dir = env.target_dir.join("runs").join(format!("C10-pairs-{}", std::process::id()));
        let _ = std::fs::create_dir_all(&dir);
        let file = dir.join("batch.txt");
        if std::fs::write(&file, lines.join("\n")).is_err() {
            ctx.inconclusive("process-pairs:cannot-write-batch");
            return;
        }
        let run = || {
            std::process::Command::new(env.worker_bin(Profile::Release))
                .arg("compile-batch")
                .arg(&file)
                .stderr(std::process::Stdio::null())
                .output()
                .ok()
                .map(|o| String::from_utf8_lossy(&o.stdout).lines().map(|s| s.to_string()).collect::<Vec<_>>())
        };
        let (Some(a), Some(b), Some(c)) = (run(), run(), run()) else {
            ctx.inconclusive("process-pairs:spawn-failed");
            return;
        };
        if a.len() != lines.len() || b.len() != lines.len() || c.len() != lines.len() {
            ctx.inconclusive("process-pairs:short-output");
            return;
        }
        for k in 0..lines.len() {
            ctx.eval();
            ctx.count("repro/process-pairs");
            if meta[k].2 {
                ctx.count("repro/process-pairs-multi-input");
            }
            if a[k] != b[k] || a[k] != c[k] {
                // which field differs?
                let field = match (hex::decode(&a[k]).ok().and_then(|x| txview::view(&x).ok()), hex::decode(if a[k] != b[k] { &b[k] } else { &c[k] }).ok().and_then(|x| txview::view(&x).ok())) {
                    (Some(x), Some(y)) => {
                        let d = txview::diff(&x.tx, &y.tx);
                        if d.is_empty() {
                            if x.tx.redeemers != y.tx.redeemers { "redeemers".to_string() } else { "encoding-order".to_string() }
                        } else {
                            crate::props::c01::strip_indices(&d[0])
                        }
                    }
                    _ => "outcome".to_string(),
                };
                ctx.violation(format!("nondeterministic:across-processes:{field}"), json!({"source": meta[k].0, "tx": meta[k].1, "run1": a[k], "run2": b[k], "run3": c[k]}));
            }
        }
        let _ = std::fs::remove_dir_all(&dir);
    }
}
