//! C06 — a template closes exactly when its reported parameters and queries are supplied.

use crate::canon::{self, Unresolved};
use crate::env::{self, LoggedStore, PP};
use crate::framework::*;
use crate::gen::ast::{print_program, Layout};
use crate::gen::build::{self, Cfg};
use crate::pipeline::front;
use crate::rng::{fnv64, Rng};
use crate::tirgen::TirGen;
use serde_json::json;
use std::collections::{BTreeMap, BTreeSet, HashSet};
use tx3_resolver::resolve_tx;
use tx3_tir::encoding::AnyTir;
use tx3_tir::model::core::{Type, Utxo, UtxoRef};
use tx3_tir::model::v1beta0 as tir;
use tx3_tir::reduce::{apply_args, apply_fees, apply_inputs, find_params, find_queries, reduce, Apply as _, ArgValue};
use tx3_tir::Node as _;

pub struct C06;

/// "<top-level field>:<nearest enclosing variant>[<operand index where it matters>]"
fn position(path: &[String]) -> String {
    let top = path.first().cloned().unwrap_or_default();
    let inner = path;
    const WRAPPERS: &[&str] = &["EvalParam", "EvalBuiltIn", "EvalCompiler", "EvalCoerce"];
    for (i, p) in inner.iter().enumerate().rev() {
        if p.chars().next().map(|c| c.is_ascii_uppercase()).unwrap_or(false) && !WRAPPERS.contains(&p.as_str()) {
            let child = inner.get(i + 1).cloned().unwrap_or_default();
            let indexed = matches!(p.as_str(), "Property" | "Add" | "Sub" | "Concat" | "Tuple" | "Map" | "ExpectInput");
            return if indexed && child.parse::<usize>().is_ok() {
                // for a query the interesting part is which field of the query
                if p == "ExpectInput" {
                    let field = inner.get(i + 2).cloned().unwrap_or_default();
                    format!("{top}:{p}.{field}")
                } else {
                    format!("{top}:{p}[{child}]")
                }
            } else {
                format!("{top}:{p}")
            };
        }
    }
    let fields: Vec<&str> = inner.iter().skip(1).filter(|p| p.parse::<usize>().is_err() && !WRAPPERS.contains(&p.as_str())).map(|s| s.as_str()).collect();
    format!("{top}.{}", fields.join("."))
}

/// unresolved nodes, ignoring what sits under an already applied `Set`
fn unresolved(v: &ciborium::Value) -> Vec<(Vec<String>, Unresolved)> {
    canon::unresolved_params(v).into_iter().filter(|(p, _)| !p.iter().any(|x| x == "Set")).collect()
}

fn arg_for(ty: &Type, rng: &mut Rng) -> ArgValue {
    match ty {
        Type::Int => ArgValue::Int(rng.range(0, 1000) as i128),
        Type::Bool => ArgValue::Bool(rng.bool()),
        Type::Bytes => ArgValue::Bytes(rng.bytes(28)),
        Type::Address => ArgValue::Address(build::rand_address(rng, false, None)),
        Type::UtxoRef => ArgValue::UtxoRef(UtxoRef { txid: rng.bytes(32), index: rng.below(3) as u32 }),
        _ => ArgValue::Int(rng.range(0, 10) as i128),
    }
}

fn dummy_utxos(rng: &mut Rng) -> HashSet<Utxo> {
    let mut s = HashSet::new();
    s.insert(Utxo {
        r#ref: UtxoRef { txid: rng.bytes(32), index: 0 },
        address: build::rand_address(rng, false, Some(0)),
        assets: tx3_tir::model::assets::CanonicalAssets::from_naked_amount(50_000_000),
        datum: Some(tir::Expression::Struct(tir::StructExpr { constructor: 0, fields: vec![tir::Expression::Number(1), tir::Expression::Bytes(vec![1]), tir::Expression::List(vec![tir::Expression::Number(1), tir::Expression::Number(2), tir::Expression::Number(3)]), tir::Expression::Number(4), tir::Expression::Number(5)] })),
        script: None,
    });
    s
}

impl C06 {
    fn facade_staged(&self, ctx: &mut Ctx, src: &str, txs: &[String], rng: &mut Rng) {
        use tx3_lang::Workspace;
        let r = crate::panics::catch(|| -> Option<(Vec<Vec<String>>, Vec<(String, Vec<String>)>)> {
            let mut w = Workspace::from_string(src.to_string());
            w.lower().ok()?;
            let mut all: BTreeMap<String, ArgValue> = BTreeMap::new();
            for n in txs {
                for (k, t) in find_params(w.tir(n)?) {
                    all.entry(k).or_insert_with(|| arg_for(&t, rng));
                }
            }
            if all.len() < 2 {
                return None;
            }
            let nb = 2 + rng.usize(2);
            let mut batches: Vec<BTreeMap<String, ArgValue>> = vec![BTreeMap::new(); nb];
            for (k, v) in &all {
                batches[rng.usize(nb)].insert(k.clone(), v.clone());
            }
            let mut log = vec![];
            for b in &batches {
                if b.is_empty() {
                    continue;
                }
                log.push(b.keys().cloned().collect::<Vec<_>>());
                w.apply_args(b).ok()?;
            }
            let mut left = vec![];
            for n in txs {
                let still: Vec<String> = find_params(w.tir(n)?).into_keys().filter(|k| all.contains_key(k)).collect();
                if !still.is_empty() {
                    left.push((n.clone(), still));
                }
            }
            Some((log, left))
        });
        match r {
            Err(p) => ctx.violation(format!("facade-{}", p.signature()), json!({"source": src, "panic": p.message})),
            Ok(None) => ctx.count("facade-staged/skipped"),
            Ok(Some((log, left))) => {
                ctx.eval();
                ctx.count("facade-staged/checked");
                if !left.is_empty() {
                    ctx.violation("unsubstituted:param:facade:staged-apply_args", json!({"source": src, "batches": log, "still_reported_after_all_batches": left}));
                }
            }
        }
    }

    fn check_ir(&self, ctx: &mut Ctx, tx: &tir::Tx, rng: &mut Rng, origin: &serde_json::Value, from_language: bool) {
        ctx.eval();
        let pfx = if from_language { "pos-lang" } else { "pos-tree" };
        let v0 = canon::to_value(tx);
        let nodes = unresolved(&v0);
        let params = find_params(tx);
        let queries = find_queries(tx);
        let detail = |what: serde_json::Value| json!({"origin": origin, "observed": what, "find_params": params.keys().collect::<Vec<_>>(), "find_queries": queries.keys().collect::<Vec<_>>(), "tir_hex": hex::encode(tx3_tir::encoding::to_bytes(tx).0).chars().take(4000).collect::<String>()});
        // (1) everything the walk finds is reported
        for (path, u) in &nodes {
            let pos = position(path);
            ctx.count(&format!("{pfx}/{}/{}", match u { Unresolved::Value(_) => "param", Unresolved::Input(_) => "input", Unresolved::Fees => "fees" }, pos));
            match u {
                Unresolved::Value(name) if !params.contains_key(name) => ctx.violation(format!("unreported:param:{pos}"), detail(json!({"name": name, "path": path}))),
                Unresolved::Input(name) if !queries.contains_key(name) => ctx.violation(format!("unreported:query:{pos}"), detail(json!({"name": name, "path": path}))),
                _ => {}
            }
        }
        // and nothing is reported that does not occur
        let walked_params: BTreeSet<&String> = nodes.iter().filter_map(|(_, u)| if let Unresolved::Value(n) = u { Some(n) } else { None }).collect();
        for p in params.keys() {
            if !walked_params.contains(p) {
                ctx.violation("reported-but-absent:param", detail(json!({"name": p})));
            }
        }
        // (2) staged application substitutes every reported item
        let args: BTreeMap<String, ArgValue> = params.iter().map(|(k, t)| (k.clone(), arg_for(t, rng))).collect();
        let t = AnyTir::V1Beta0(tx.clone());
        let Ok(Ok(t)) = crate::panics::catch(|| apply_args(t, &args)) else {
            ctx.count("apply_args/failed");
            return;
        };
        let AnyTir::V1Beta0(inner) = &t;
        for (path, u) in unresolved(&canon::to_value(inner)) {
            if let Unresolved::Value(name) = u {
                ctx.violation(format!("unsubstituted:param:{}:apply_args", position(&path)), detail(json!({"name": name, "path": path})));
            }
        }
        let Ok(Ok(t)) = crate::panics::catch(|| apply_fees(t, 234_567)) else {
            ctx.count("apply_fees/failed");
            return;
        };
        let AnyTir::V1Beta0(inner) = &t;
        for (path, u) in unresolved(&canon::to_value(inner)) {
            if u == Unresolved::Fees {
                ctx.violation(format!("unsubstituted:fees:{}:apply_fees", position(&path)), detail(json!({"path": path})));
            }
        }
        // queries (they may change after the arguments went in: ask again)
        let q2 = find_queries(&t);
        let inputs: BTreeMap<String, HashSet<Utxo>> = q2.keys().map(|k| (k.clone(), dummy_utxos(rng))).collect();
        let Ok(Ok(t)) = crate::panics::catch(|| apply_inputs(t, &inputs)) else {
            ctx.count("apply_inputs/failed");
            return;
        };
        let AnyTir::V1Beta0(inner) = &t;
        let left = unresolved(&canon::to_value(inner));
        for (path, u) in &left {
            match u {
                Unresolved::Input(name) => ctx.violation(format!("unsubstituted:query:{}:apply_inputs", position(path)), detail(json!({"name": name, "path": path}))),
                Unresolved::Value(name) => ctx.violation(format!("unsubstituted:param:{}:after-inputs", position(path)), detail(json!({"name": name, "path": path}))),
                Unresolved::Fees => ctx.violation(format!("unsubstituted:fees:{}:after-inputs", position(path)), detail(json!({"path": path}))),
            }
        }
        ctx.count("closed-by-application");
        // compiler ops + reduction: nothing may reappear, and is_constant must agree with the walk
        if from_language {
            let mut compiler = env::compiler(&PP::default());
            let r = crate::panics::catch(|| {
                let t = t.apply(&mut compiler).map_err(|e| e.to_string())?;
                reduce(t).map_err(|e| e.to_string())
            });
            if let Ok(Ok(t)) = r {
                let AnyTir::V1Beta0(inner) = &t;
                let v = canon::to_value(inner);
                let left = unresolved(&v);
                let compiler_ops = canon::variant_names(&v).contains("EvalCompiler");
                if !left.is_empty() {
                    ctx.violation("unsubstituted:after-reduce", detail(json!({"left": left.iter().map(|(p, u)| (p.join("/"), format!("{u:?}"))).collect::<Vec<_>>()})));
                }
                let constant = t.is_constant();
                if constant != (left.is_empty() && !compiler_ops) {
                    ctx.violation("is-constant-disagrees-with-walk", detail(json!({"is_constant": constant, "walk_left": left.len(), "compiler_ops_left": compiler_ops})));
                }
                ctx.count("reduced");
            } else {
                ctx.count("reduce/failed");
            }
        }
        if nodes.len() >= 3 {
            ctx.nontrivial(canon::canon_hash(tx));
        }
    }
}

impl Property for C06 {
    fn id(&self) -> &'static str {
        "C06"
    }
    fn rule(&self) -> String {
        "templates: every tx of generated programs (all features incl. parameters in list indices, compiler built-ins, chain-specific directives, nested queries, redeemers, metadata, signers, validity) lowered by the real front end, plus the example programs; trees: random IR trees in which every expression position (struct fields, list/map/tuple elements, asset policy/name/amount, property operand and index, query address/min_amount/ref, coercion and compiler-op operands, ad-hoc directive fields, every block field) may hold ExpectValue / ExpectInput / ExpectFees. Oracle: an independent walk over the Serialize output of the IR finds the unresolved nodes; their names must be reported by find_params / find_queries (and vice versa); after apply_args(all reported) no ExpectValue node remains, after apply_fees no ExpectFees, after apply_inputs(all reported queries) no ExpectInput; after compiler ops + reduce nothing is left and is_constant agrees with the walk; resolve_tx without one reported argument (half of the time with its value present under a key that differs in letter case only) returns MissingTxArg naming it; through the Workspace facade the arguments arrive in 2..3 apply_args batches, after which no tx may still report a supplied parameter. The evidence lists the (kind, position) pairs reached. Non-trivial: >= 3 unresolved nodes; distinct = distinct canonical IRs.".into()
    }
    fn assumptions(&self) -> Vec<String> {
        vec!["nodes below an already applied Param::Set are not 'unresolved' (the language cannot produce a parameter there)".into()]
    }
    fn phases(&self, tier: Tier) -> Vec<Phase> {
        match tier {
            Tier::Quick => vec![Phase::new("templates", 3_000, Profile::Release), Phase::new("examples", 80, Profile::Release), Phase::new("trees", 6_000, Profile::Release)],
            Tier::Thorough => vec![Phase::new("templates", 150_000, Profile::Release), Phase::new("examples", 80, Profile::Release), Phase::new("trees", 300_000, Profile::Release)],
        }
    }
    fn required_features(&self, _tier: Tier) -> Vec<String> {
        [
            "closed-by-application", "reduced", "missing-arg/checked", "missing-arg/with-case-variant-key-present", "missing-arg/with-boundary-valued-other-arguments", "facade-staged/checked", "examples/tx",
            "pos-lang/param/outputs:Property[1]", "pos-lang/param/outputs:Struct", "pos-lang/param/inputs:ExpectInput.address", "pos-lang/param/inputs:ExpectInput.ref", "pos-lang/fees/inputs:ExpectInput.min_amount",
            "pos-lang/fees/outputs:Sub[1]", "pos-lang/input/outputs:IntoAssets", "pos-lang/input/outputs:IntoDatum", "pos-lang/param/adhoc.data.amount", "pos-lang/param/adhoc.data.redeemer", "pos-lang/param/adhoc:Struct",
            "pos-lang/param/validity.until", "pos-lang/param/validity:ComputeTimeToSlot", "pos-lang/param/metadata.value", "pos-lang/param/signers.signers", "pos-lang/param/inputs.redeemer", "pos-lang/param/mints.redeemer",
            "pos-lang/param/outputs:Map[0]", "pos-lang/param/outputs:Assets", "pos-lang/param/references.", "pos-lang/input/collateral.utxos",
            "pos-tree/param/outputs:Tuple[0]", "pos-tree/fees/outputs:Property[1]", "pos-tree/input/outputs:BuildScriptAddress", "pos-tree/param/adhoc:IntoScript",
        ]
        .iter()
        .map(|s| s.to_string())
        .collect()
    }
    fn extra_coverage(&self, counters: &BTreeMap<String, u64>) -> serde_json::Value {
        let positions: Vec<&String> = counters.keys().filter(|k| k.starts_with("pos-")).collect();
        json!({"positions_reached": positions.len()})
    }
    fn run_case(&self, ctx: &mut Ctx, phase: &str, idx: u64, rng: &mut Rng) {
        match phase {
            "templates" => {
                let cfg = Cfg { cardano_pct: 50, risky_pct: 40, ..Default::default() };
                let g = build::generate(rng, &cfg);
                let src = print_program(&g.prog, Layout::plain());
                for txd in g.prog.txs.iter() {
                    let Ok(lowered) = front(&src, &txd.name) else {
                        ctx.count("front/rejected");
                        continue;
                    };
                    let origin = json!({"kind": "generated-program", "source": src, "tx": txd.name});
                    self.check_ir(ctx, &lowered, rng, &origin, true);
                    // (3) a missing reported argument is refused by name
                    let params = find_params(&lowered);
                    // the arguments that *are* supplied: harmless ones, or (half of the time) integers from the
                    // boundary set, with which some constant sub-expression may well fail to reduce - the absent
                    // parameter must be named all the same
                    let hostile = rng.bool();
                    let all: BTreeMap<String, ArgValue> = params
                        .iter()
                        .map(|(k, t)| {
                            (k.clone(), match t {
                                Type::Int if hostile && rng.bool() => ArgValue::Int(rng.boundary_int()),
                                _ => arg_for(t, rng),
                            })
                        })
                        .collect();
                    if hostile {
                        ctx.count("missing-arg/with-boundary-valued-other-arguments");
                    }
                    for missing in params.keys() {
                        let mut args = all.clone();
                        let v = args.remove(missing);
                        // half of the time the caller did supply something - under a key that differs from the
                        // reported name in letter case only: the reported parameter is still absent
                        if let (Some(v), true) = (v, rng.bool()) {
                            let variant = if rng.bool() { missing.to_uppercase() } else { let mut c = missing.chars(); c.next().map(|f| f.to_uppercase().collect::<String>() + c.as_str()).unwrap_or_default() };
                            if variant != *missing && !all.contains_key(&variant) {
                                args.insert(variant, v);
                                ctx.count("missing-arg/with-case-variant-key-present");
                            }
                        }
                        let store = LoggedStore::new(vec![]);
                        let mut compiler = env::compiler(&PP::default());
                        ctx.eval();
                        ctx.count("missing-arg/checked");
                        let r = crate::panics::catch(|| pollster::block_on(resolve_tx(AnyTir::V1Beta0(lowered.clone()), &args, &mut compiler, &store, 3)));
                        match r {
                            Ok(Err(tx3_resolver::Error::MissingTxArg { key, .. })) if key == *missing => {}
                            Ok(Err(tx3_resolver::Error::MissingTxArg { key, .. })) => ctx.violation("missing-arg-error:names-another-parameter", json!({"source": src, "removed": missing, "named": key})),
                            Ok(Err(e)) => ctx.violation("missing-arg-error:other-error", json!({"source": src, "removed": missing, "error": e.to_string()})),
                            Ok(Ok(_)) => ctx.violation("missing-arg-error:compiled-partial-transaction", json!({"source": src, "removed": missing})),
                            Err(p) => ctx.violation(format!("missing-arg-{}", p.signature()), json!({"source": src, "removed": missing, "panic": p.message})),
                        }
                    }
                    if idx % 499 == 0 {
                        ctx.sample(|| json!({"source": src, "tx": txd.name, "find_params": params.keys().collect::<Vec<_>>()}));
                    }
                }
                // (4) the same through the Workspace facade, the arguments arriving in 2..3 batches: after the
                // last batch no tx may still report a parameter that was supplied
                self.facade_staged(ctx, &src, &g.prog.txs.iter().map(|t| t.name.clone()).collect::<Vec<_>>(), rng);
            }
            "examples" => {
                let env = Env::from_env();
                let files = crate::props::c11::example_files(&env);
                let Some(f) = files.get(idx as usize) else { return };
                let Ok(src) = std::fs::read_to_string(f) else { return };
                if let Some(txs) = crate::props::c11::lower_all(&src) {
                    for (name, t) in txs {
                        let origin = json!({"kind": "example", "file": f.file_name().unwrap().to_string_lossy(), "tx": name});
                        self.check_ir(ctx, &t, rng, &origin, true);
                        ctx.count("examples/tx");
                    }
                }
            }
            _ => {
                let mut gen = TirGen::new(2 + (idx % 5) as u32, false);
                let tx = gen.tx(rng);
                let origin = json!({"kind": "random-ir-tree"});
                self.check_ir(ctx, &tx, rng, &origin, false);
                if idx % 1999 == 0 {
                    ctx.sample(|| json!({"kind": "random-ir-tree", "ir_debug_prefix": format!("{tx:?}").chars().take(500).collect::<String>()}));
                }
            }
        }
        let _ = fnv64;
    }
}
