//! C13 — a program the analyzer accepts can always be lowered.

use crate::framework::*;
use crate::gen::ast::{print_program, Layout};
use crate::gen::build::{self, Cfg};
use crate::gen::mutate::mutate_semantic;
use crate::props::c12::{call_budget, growth_probe, CHAINS};
use crate::rng::{fnv64, Rng};
use serde_json::json;
use std::num::NonZeroUsize;

pub struct C13;

fn lower_err_variant(e: &tx3_lang::lowering::Error) -> &'static str {
    use tx3_lang::lowering::Error::*;
    match e {
        MissingAnalyzePhase(_) => "MissingAnalyzePhase",
        InvalidSymbol(..) => "InvalidSymbol",
        InvalidSymbolType(..) => "InvalidSymbolType",
        InvalidAst(_) => "InvalidAst",
        InvalidProperty(..) => "InvalidProperty",
        MissingRequiredField(..) => "MissingRequiredField",
        DecodeHexError(_) => "DecodeHexError",
    }
}

/// reference cycle among the inputs and locals of a tx, decided on the source text of their blocks
fn text_reference_cycle(src: &str, prog: &tx3_lang::ast::Program) -> bool {
    use std::collections::{BTreeMap, BTreeSet};
    use tx3_lang::parsing::AstNode;
    for tx in &prog.txs {
        let mut text: BTreeMap<String, String> = BTreeMap::new();
        let slice = |span: &tx3_lang::ast::Span| crate::grammar::strip_comments(src.get(span.start..span.end).unwrap_or(""));
        if let Some(l) = &tx.locals {
            for a in &l.assigns {
                // the assignment minus its own name
                let t = slice(a.span());
                let body = t.splitn(2, ':').nth(1).unwrap_or("").to_string();
                text.insert(a.name.value.clone(), body);
            }
        }
        for i in &tx.inputs {
            let t = slice(i.span());
            let body = t.splitn(2, '{').nth(1).unwrap_or("").to_string();
            text.insert(i.name.clone(), body);
        }
        let names: BTreeSet<String> = text.keys().cloned().collect();
        let edges: BTreeMap<String, Vec<String>> = text.iter().map(|(n, t)| (n.clone(), crate::grammar::tokenize(t).into_iter().filter(|tok| names.contains(tok)).collect())).collect();
        fn visit(n: &str, edges: &BTreeMap<String, Vec<String>>, state: &mut BTreeMap<String, u8>) -> bool {
            match state.get(n) {
                Some(1) => return true,
                Some(2) => return false,
                _ => {}
            }
            state.insert(n.to_string(), 1);
            for m in edges.get(n).into_iter().flatten() {
                if visit(m, edges, state) {
                    return true;
                }
            }
            state.insert(n.to_string(), 2);
            false
        }
        let mut state = BTreeMap::new();
        for n in &names {
            if visit(n, &edges, &mut state) {
                return true;
            }
        }
    }
    false
}

/// length of the longest chain of references local -> local -> ... -> input (in definitions) of a tx, decided
/// on the source text of the blocks; 0 when there is a cycle (cycles have their own signature)
fn max_reference_depth(src: &str, prog: &tx3_lang::ast::Program) -> usize {
    use std::collections::{BTreeMap, BTreeSet};
    use tx3_lang::parsing::AstNode;
    let mut best = 0;
    for tx in &prog.txs {
        let mut text: BTreeMap<String, String> = BTreeMap::new();
        let slice = |span: &tx3_lang::ast::Span| crate::grammar::strip_comments(src.get(span.start..span.end).unwrap_or(""));
        if let Some(l) = &tx.locals {
            for a in &l.assigns {
                let t = slice(a.span());
                text.insert(a.name.value.clone(), t.splitn(2, ':').nth(1).unwrap_or("").to_string());
            }
        }
        for i in &tx.inputs {
            let t = slice(i.span());
            text.insert(i.name.clone(), t.splitn(2, '{').nth(1).unwrap_or("").to_string());
        }
        let names: BTreeSet<String> = text.keys().cloned().collect();
        let edges: BTreeMap<String, Vec<String>> = text.iter().map(|(n, t)| (n.clone(), crate::grammar::tokenize(t).into_iter().filter(|tok| names.contains(tok) && tok != n).collect())).collect();
        fn depth(n: &str, edges: &BTreeMap<String, Vec<String>>, memo: &mut BTreeMap<String, usize>, stack: &mut Vec<String>) -> usize {
            if let Some(d) = memo.get(n) {
                return *d;
            }
            if stack.iter().any(|s| s == n) {
                return 0;
            }
            stack.push(n.to_string());
            let d = 1 + edges.get(n).into_iter().flatten().map(|m| depth(m, edges, memo, stack)).max().unwrap_or(0);
            stack.pop();
            memo.insert(n.to_string(), d);
            d
        }
        let mut memo = BTreeMap::new();
        for n in &names {
            best = best.max(depth(n, &edges, &mut memo, &mut vec![]));
        }
    }
    best
}

/// A policy whose constructor fields name a policy that cannot be followed: itself, or a policy whose own fields
/// are names (a tx resolves the outer policy to a definition analysed while the inner one was still unanalysed).
/// Decided on the source text of the policy definitions.
fn policy_names_unresolved_policy(src: &str, prog: &tx3_lang::ast::Program) -> bool {
    use std::collections::BTreeMap;
    let mut text: BTreeMap<String, Option<String>> = BTreeMap::new();
    for p in &prog.policies {
        let body = match &p.value {
            tx3_lang::ast::PolicyValue::Constructor(_) => {
                let t = crate::grammar::strip_comments(src.get(p.span.start..p.span.end).unwrap_or(""));
                Some(t.splitn(2, '{').nth(1).unwrap_or("").to_string())
            }
            tx3_lang::ast::PolicyValue::Assign(_) => None,
        };
        text.insert(p.name.value.clone(), body);
    }
    let mut declared: Vec<String> = prog.policies.iter().map(|p| p.name.value.clone()).collect();
    declared.extend(prog.parties.iter().map(|p| p.name.value.clone()));
    if let Some(env) = &prog.env {
        declared.extend(env.fields.iter().map(|f| f.name.clone()));
    }
    let names_in = |body: &str| -> Vec<String> { crate::grammar::tokenize(body).into_iter().filter(|t| declared.contains(t)).collect() };
    for (name, body) in &text {
        let Some(body) = body else { continue };
        for r in names_in(body) {
            if r == *name {
                return true;
            }
            if let Some(Some(inner)) = text.get(&r) {
                if !names_in(inner).is_empty() {
                    return true;
                }
            }
        }
    }
    false
}

impl C13 {
    /// the implication itself on one source text
    fn judge(&self, ctx: &mut Ctx, src: &str, mutators: &[String], phase: &str, has_cycle: bool) {
        ctx.eval();
        pest::set_call_limit(NonZeroUsize::new(call_budget(src.len())));
        let parsed = crate::panics::catch(|| tx3_lang::parsing::parse_string(src));
        pest::set_call_limit(None);
        let Ok(Ok(mut prog)) = parsed else {
            ctx.count("front/not-parsed");
            return;
        };
        if crate::props::c12::known_blowup_trigger(src, &prog) {
            ctx.count("skipped/known-blowup-trigger");
            return;
        }
        let Ok(report) = crate::panics::catch(|| tx3_lang::analyzing::analyze(&mut prog)) else {
            ctx.count("front/analyze-panicked");
            return;
        };
        if !report.errors.is_empty() {
            ctx.count("analyzer/rejected");
            for m in mutators {
                ctx.count(&format!("rejected-by-analyzer/{m}"));
            }
            return;
        }
        ctx.count("analyzer/accepted");
        let has_cycle = has_cycle || text_reference_cycle(src, &prog);
        for m in mutators {
            ctx.count(&format!("accepted-by-analyzer/{m}"));
        }
        let detail = |what: serde_json::Value| json!({"phase": phase, "mutators": mutators, "source": src, "observed": what});
        // reference cycles (an input whose redeemer reads its own datum, inputs reading each other,
        // locals defined in terms of each other) are one known cause with its own signature
        let cycle = has_cycle || mutators.iter().any(|m| m == "input-redeemer-reads-own-datum" || m == "inputs-read-each-other" || m == "cyclic-locals");
        let names: Vec<String> = prog.txs.iter().map(|t| t.name.value.clone()).collect();
        for name in &names {
            match crate::panics::catch(|| tx3_lang::lowering::lower(&prog, name)) {
                Ok(Ok(_)) => ctx.count("lower/ok"),
                Ok(Err(e)) => {
                    ctx.count("lower/err");
                    let what = match &e {
                        tx3_lang::lowering::Error::InvalidAst(m) => m.split_whitespace().take(2).collect::<Vec<_>>().join(" ").trim_end_matches(':').to_string(),
                        _ => String::new(),
                    };
                    // the known pass-count limit: a chain of definitions (locals, then possibly an input and the
                    // names its fields mention) 9 or more links deep - whichever mutators produced it
                    let long_chain = mutators.iter().any(|m| m == "local-chain->=9") || max_reference_depth(src, &prog) >= 9;
                    let sig = if cycle {
                        "lower-err:[reference-cycle]".to_string()
                    } else if matches!(e, tx3_lang::lowering::Error::MissingAnalyzePhase(_)) && policy_names_unresolved_policy(src, &prog) {
                        "lower-err:[policy-names-unresolved-policy]".to_string()
                    } else if long_chain && (matches!(e, tx3_lang::lowering::Error::MissingAnalyzePhase(_)) || matches!(&e, tx3_lang::lowering::Error::InvalidAst(m) if m.starts_with("unknown function"))) {
                        // (a call whose callee was left unresolved by the 9 passes is refused as an unknown function:
                        // lowering dispatches on the callee's symbol)
                        "lower-err:[local-chain>=9]".to_string()
                    } else {
                        format!("lower-err:{}:{}", lower_err_variant(&e), what)
                    };
                    ctx.violation(sig, detail(json!({"tx": name, "error": e.to_string().chars().take(300).collect::<String>()})));
                }
                Err(p) => {
                    ctx.count("lower/panic");
                    ctx.violation(format!("lower-{}", p.signature()), detail(json!({"tx": name, "panic": p.message, "location": p.location})));
                }
            }
        }
        // the facade that chains the three stages
        let r = crate::panics::catch(|| {
            let mut ws = tx3_lang::Workspace::from_string(src.to_string());
            ws.parse()?;
            ws.analyze()?;
            ws.lower()
        });
        match r {
            Ok(Ok(())) => ctx.count("facade/ok"),
            // the facade reports the same lowering error: one finding, already recorded above
            Ok(Err(tx3_lang::Error::Lowering(_))) => ctx.count("facade/lowering-error"),
            Ok(Err(e)) => ctx.violation(format!("facade-error:{}{}", e.to_string().split(':').next().unwrap_or(""), if cycle { "[reference-cycle]" } else { "" }), detail(json!({"error": e.to_string()}))),
            Err(p) => ctx.violation(format!("facade-{}{}", p.signature(), if cycle { "[reference-cycle]" } else { "" }), detail(json!({"panic": p.message, "location": p.location}))),
        }
        if !mutators.is_empty() {
            ctx.nontrivial(fnv64(src.as_bytes()));
        }
    }
}

impl Property for C13 {
    fn id(&self) -> &'static str {
        "C13"
    }
    fn rule(&self) -> String {
        "valid generated programs (all features) put through 1..2 semantic mutators on the generator's own tree (constructor: missing / duplicate / unknown field, implicit constructor on a variant, wrong-kind type name, spread of an Int, unknown case; calls: Ada / asset / AnyAsset / concat / time built-ins with 0, 1, 2, 3 arguments or without call; an identifier replaced by a name of every other symbol kind or an undefined one; odd hex literals and references; out-of-range numerals; property / index on a non-record; local chains of length 2..15 and cyclic locals; an input whose redeemer reads its own datum, two inputs reading each other; min_utxo of an undefined output; outputs without to / amount; withdrawal from a wrong-kind name; a parameter shadowing a record field; datum_is of a wrong-kind name) and optionally one token-level mutation; plus the unmutated programs and the examples; growth: 8 families of definition chains lowered for n = 4..40. Oracle: analyze(p).errors = {} implies lower(p, tx) = Ok for every tx and Workspace::{parse, analyze, lower} returns Ok without panicking; CPU time of lowering must not grow exponentially. Programs the analyzer rejects are counted, not judged. Non-trivial: mutated and accepted by the analyzer; distinct = distinct source texts.".into()
    }
    fn assumptions(&self) -> Vec<String> {
        vec!["only the implication is checked; whether the analyzer's verdict on a mutant is 'right' is not judged".into()]
    }
    fn hang_is_violation(&self) -> bool {
        true
    }
    fn phases(&self, tier: Tier) -> Vec<Phase> {
        match tier {
            Tier::Quick => vec![Phase::new("growth", CHAINS.len() as u64, Profile::Release).exhaustive().budget(120_000), Phase::new("mutants", 20_000, Profile::Checked), Phase::new("examples", 80, Profile::Checked)],
            Tier::Thorough => vec![Phase::new("growth", CHAINS.len() as u64, Profile::Release).exhaustive().budget(120_000), Phase::new("mutants", 800_000, Profile::Checked), Phase::new("examples", 80, Profile::Checked), Phase::new("mutants-release", 200_000, Profile::Release)],
        }
    }
    fn required_features(&self, _tier: Tier) -> Vec<String> {
        ["analyzer/accepted", "analyzer/rejected", "lower/ok", "facade/ok", "growth/probed", "rejected-by-analyzer/constructor-unknown-field", "accepted-by-analyzer/param-shadows-record-field", "rejected-by-analyzer/identifier-replaced-by-undefined"]
            .iter()
            .map(|s| s.to_string())
            .collect()
    }
    fn run_case(&self, ctx: &mut Ctx, phase: &str, idx: u64, rng: &mut Rng) {
        match phase {
            "growth" => {
                let c = &CHAINS[idx as usize];
                let (times, exponential) = growth_probe(|n| {
                    let src = (c.build)(n);
                    let _ = crate::panics::catch(|| {
                        let mut ws = tx3_lang::Workspace::from_string(src);
                        let _ = ws.lower();
                    });
                });
                ctx.eval();
                ctx.count("growth/probed");
                ctx.nontrivial_str(c.name);
                ctx.nontrivial_str(&format!("{}-max-n-{}", c.name, times.last().map(|t| t.0).unwrap_or(0)));
                if exponential {
                    ctx.violation(format!("exponential-lowering:{}", c.name), json!({"construct": c.name, "cpu_seconds_by_n": times, "example_n6": (c.build)(6)}));
                }
                ctx.sample(|| json!({"construct": c.name, "cpu_seconds_by_n": times}));
            }
            "examples" => {
                let ex = crate::props::c12::examples();
                if let Some((_, src)) = ex.get(idx as usize) {
                    self.judge(ctx, src, &[], phase, false);
                }
            }
            _ => {
                let cfg = Cfg { cardano_pct: 40, risky_pct: 30, min_utxo: true, ..Default::default() };
                let mut g = build::generate(rng, &cfg);
                let mut mutators = vec![];
                if idx % 10 != 0 {
                    for _ in 0..1 + rng.usize(2) {
                        if let Some(m) = mutate_semantic(&mut g.prog, rng) {
                            mutators.push(m);
                        }
                    }
                }
                let has_cycle = crate::gen::mutate::has_reference_cycle(&g.prog);
                if has_cycle {
                    ctx.count("mutants/with-reference-cycle");
                }
                let mut src = print_program(&g.prog, if rng.bool() { Layout::plain() } else { Layout::random(rng.next_u64()) });
                if rng.chance(1, 5) {
                    let (s, k) = crate::grammar::mutate(&src, &src.clone(), rng);
                    src = s;
                    mutators.push(format!("token:{k}"));
                }
                self.judge(ctx, &src, &mutators, phase, has_cycle);
                if idx % 2999 == 0 {
                    ctx.sample(|| json!({"mutators": mutators, "source": src.chars().take(1200).collect::<String>()}));
                }
            }
        }
    }
}
