//! C16 — JSON arguments are coerced faithfully and safely at the service boundary.

use crate::framework::*;
use crate::gen::ast::{print_program, Layout};
use crate::gen::build::{self, bech32_encode, Cfg};
use crate::pipeline::front;
use crate::rng::{fnv64, Rng};
use crate::tirgen::TirGen;
use base64::Engine as _;
use serde_json::{json, Map, Value};
use tx3_resolver::interop::{from_json, ArgValue};
use tx3_resolver::trp::{parse_resolve_request, ResolveParams};
use tx3_tir::model::core::{Type, UtxoRef};
use tx3_tir::reduce::find_params;

pub struct C16;

fn arg_eq(a: &ArgValue, b: &ArgValue) -> bool {
    match (a, b) {
        (ArgValue::Int(x), ArgValue::Int(y)) => x == y,
        (ArgValue::Bool(x), ArgValue::Bool(y)) => x == y,
        (ArgValue::String(x), ArgValue::String(y)) => x == y,
        (ArgValue::Bytes(x), ArgValue::Bytes(y)) => x == y,
        (ArgValue::Address(x), ArgValue::Address(y)) => x == y,
        (ArgValue::UtxoRef(x), ArgValue::UtxoRef(y)) => x == y,
        _ => false,
    }
}

fn hex_case(b: &[u8], rng: &mut Rng) -> String {
    let h = hex::encode(b);
    if rng.bool() {
        h.to_uppercase()
    } else {
        h
    }
}

/// (json, expected, encoding name) for a random value of the type
fn encode(ty: &Type, rng: &mut Rng) -> (Value, ArgValue, String) {
    match ty {
        Type::Int => {
            let n = rng.boundary_int();
            match rng.below(3) {
                0 => (json!(n.to_string()), ArgValue::Int(n), "decimal-string".into()),
                1 => {
                    // JSON numbers only where serde_json is exact: |n| < 2^64
                    let n = if n >= 0 { (n as u128 & u64::MAX as u128) as i128 } else { -((n.unsigned_abs() & (i64::MAX as u128)) as i128) };
                    let v = if n >= 0 { json!(n as u64) } else { json!(n as i64) };
                    (v, ArgValue::Int(n), "json-number".into())
                }
                _ => (json!(format!("0x{}", hex::encode(n.to_be_bytes()))), ArgValue::Int(n), "0x-16-bytes-be".into()),
            }
        }
        Type::Bool => {
            let b = rng.bool();
            match rng.below(3) {
                0 => (json!(b), ArgValue::Bool(b), "json-bool".into()),
                1 => (json!(b as u8), ArgValue::Bool(b), "0-1".into()),
                _ => (json!(b.to_string()), ArgValue::Bool(b), "string".into()),
            }
        }
        Type::Bytes => {
            let n = *rng.pick(&[0usize, 1, 2, 28, 32, 33, 64, 100]);
            let b = rng.bytes(n);
            match rng.below(6) {
                0 => (json!(hex_case(&b, rng)), ArgValue::Bytes(b), "hex".into()),
                1 => (json!(format!("0x{}", hex_case(&b, rng))), ArgValue::Bytes(b), "0x-hex".into()),
                2 => {
                    let key = *rng.pick(&["content", "bytecode", "payload"]);
                    let enc = *rng.pick(&["contentType", "encoding"]);
                    (json!({key: hex_case(&b, rng), enc: "hex"}), ArgValue::Bytes(b), format!("envelope-hex:{key}:{enc}"))
                }
                3 => {
                    let key = *rng.pick(&["content", "bytecode", "payload"]);
                    let enc = *rng.pick(&["contentType", "encoding"]);
                    (json!({key: base64::engine::general_purpose::STANDARD.encode(&b), enc: "base64"}), ArgValue::Bytes(b), format!("envelope-base64:{key}:{enc}"))
                }
                4 => (json!({"content": format!("0x{}", hex::encode(&b)), "contentType": "hex"}), ArgValue::Bytes(b), "envelope-0x-hex".into()),
                _ => (json!(hex::encode(&b)), ArgValue::Bytes(b), "hex".into()),
            }
        }
        Type::Address => {
            let mainnet = rng.bool();
            let a = build::rand_address(rng, mainnet, None);
            if rng.bool() {
                let hrp = match (a[0] >> 4 >= 14, a[0] & 1) {
                    (false, 1) => "addr",
                    (false, _) => "addr_test",
                    (true, 1) => "stake",
                    (true, _) => "stake_test",
                };
                (json!(bech32_encode(hrp, &a)), ArgValue::Address(a), "bech32".into())
            } else {
                (json!(hex::encode(&a)), ArgValue::Address(a), "hex".into())
            }
        }
        Type::UtxoRef => {
            let txid = rng.bytes(32);
            let index = *rng.pick(&[0u32, 1, 255, 65_535, u32::MAX]);
            (json!(format!("{}#{}", hex_case(&txid, rng), index)), ArgValue::UtxoRef(UtxoRef { txid, index }), "txid#index".into())
        }
        _ => match rng.below(3) {
            0 => {
                let b = rng.bool();
                (json!(b), ArgValue::Bool(b), "undefined:bool".into())
            }
            1 => {
                let n = rng.range(-1_000_000, 1_000_000);
                (json!(n), ArgValue::Int(n as i128), "undefined:number".into())
            }
            _ => {
                let s = ["", "hello", "0xff", "ünï"][rng.usize(4)].to_string();
                (json!(s), ArgValue::String(s), "undefined:string".into())
            }
        },
    }
}

/// The parameters a template declares, found by walking its *serialised* form (every `ExpectValue(name, type)`
/// node outside an applied `Set`): independent of the `params()` traversal that `parse_resolve_request` itself
/// relies on, so a parameter that traversal loses is seen as "declared, supplied, but dropped".
fn declared_by_walk(t: &tx3_tir::model::v1beta0::Tx) -> Vec<(String, Type)> {
    let v = crate::canon::to_value(t);
    let mut out: std::collections::BTreeMap<String, Type> = std::collections::BTreeMap::new();
    let mut path = vec![];
    crate::canon::walk(&v, &mut path, &mut |p, node| {
        if p.iter().any(|x| x == "Set") {
            return;
        }
        if let ciborium::Value::Map(m) = node {
            if m.len() == 1 {
                if let (ciborium::Value::Text(k), ciborium::Value::Array(a)) = (&m[0].0, &m[0].1) {
                    if k == "ExpectValue" && a.len() == 2 {
                        if let ciborium::Value::Text(name) = &a[0] {
                            let ty = match &a[1] {
                                ciborium::Value::Text(t) => match t.as_str() {
                                    "Int" => Some(Type::Int),
                                    "Bool" => Some(Type::Bool),
                                    "Bytes" => Some(Type::Bytes),
                                    "Address" => Some(Type::Address),
                                    "UtxoRef" => Some(Type::UtxoRef),
                                    "Undefined" => Some(Type::Undefined),
                                    "Unit" => Some(Type::Unit),
                                    "Utxo" => Some(Type::Utxo),
                                    "AnyAsset" => Some(Type::AnyAsset),
                                    "List" => Some(Type::List),
                                    "Map" => Some(Type::Map),
                                    _ => None,
                                },
                                ciborium::Value::Map(mm) if mm.len() == 1 => match (&mm[0].0, &mm[0].1) {
                                    (ciborium::Value::Text(k), ciborium::Value::Text(n)) if k == "Custom" => Some(Type::Custom(n.clone())),
                                    _ => None,
                                },
                                _ => None,
                            };
                            if let Some(ty) = ty {
                                // one name declared with two types: keep the first (such IRs come from random trees only)
                                out.entry(name.clone()).or_insert(ty);
                            }
                        }
                    }
                }
            }
        }
    });
    out.into_iter().collect()
}

/// strings whose multi-byte characters sit where a byte-offset slice would cut (after 0, 1, 2 ASCII bytes,
/// after a `0x`, around `#`)
const NON_ASCII: &[&str] = &["€", "1€", "0x€", "aé", "日本", "0xé1", "0X日", "é#1", "€#0", "#€", "0x1€", "𝄞", "a𝄞", "0€x", "ab€cd", "日本語日本語日本語日本語"];

/// ill-formed values the statement excludes
fn ill_formed(ty: &Type, rng: &mut Rng) -> (Value, String) {
    if matches!(ty, Type::Int | Type::Bytes | Type::Address | Type::UtxoRef | Type::Bool) && rng.chance(1, 6) {
        return (json!(*rng.pick(NON_ASCII)), "non-ascii-text".into());
    }
    match ty {
        Type::Int => match rng.below(10) {
            7 => (json!(1.5), "float".into()),
            8 => (json!(format!("0x0x{}", hex::encode(rng.bytes(16)))), "repeated-0x-prefix".into()),
            9 => (json!(format!("-0x{}", hex::encode(rng.bytes(16)))), "signed-0x".into()),
            0 => (json!(true), "wrong-json-type".into()),
            1 => (json!([1]), "wrong-json-type".into()),
            2 => (json!("12x"), "not-decimal".into()),
            3 => (json!("0x00ff"), "0x-not-16-bytes".into()),
            4 => (json!(format!("0x{}", "ab".repeat(17))), "0x-not-16-bytes".into()),
            5 => (Value::Null, "null".into()),
            _ => (json!(""), "empty-string".into()),
        },
        Type::Bool => match rng.below(8) {
            5 | 6 => {
                // JSON numbers that are not the integers 0 / 1 although their value is 0 or 1 (fraction,
                // exponent, sign), as a client's serialiser may write them
                let text = *rng.pick(&["1.0", "0.0", "-0", "-0.0", "1e0", "0e7", "10e-1", "1.00000000000000000001", "0.1e1", "1E0", "0.0e0", "100e-2"]);
                (serde_json::from_str(text).expect("a JSON number"), "number-0-or-1-not-integer".into())
            }
            7 => (json!(*rng.pick(&["True", "TRUE", " true", "false ", "0", "1.0", "t", "f", "on", ""])), "string-near-miss".into()),
            0 => (json!("1"), "string-1".into()),
            1 => (json!(2), "number-2".into()),
            2 => (json!("yes"), "string-yes".into()),
            3 => (Value::Null, "null".into()),
            _ => (json!([true]), "wrong-json-type".into()),
        },
        Type::Bytes => match rng.below(9) {
            7 => (json!(format!("0x0x{}", hex::encode(rng.bytes(4)))), "repeated-0x-prefix".into()),
            8 => (json!("0x0"), "odd-hex".into()),
            0 => (json!("abc"), "odd-hex".into()),
            1 => (json!("0xzz"), "non-hex".into()),
            2 => (json!({"content": "!!!", "contentType": "base64"}), "bad-base64".into()),
            3 => (json!({"content": "abc", "contentType": "hex"}), "odd-hex-envelope".into()),
            4 => (json!(12), "wrong-json-type".into()),
            5 => (json!({"content": "00", "contentType": "rot13"}), "unknown-encoding".into()),
            _ => (json!({"contentType": "hex"}), "envelope-without-content".into()),
        },
        Type::Address => match rng.below(4) {
            0 => (json!("addr1notbech32atall"), "bad-bech32-and-not-hex".into()),
            1 => (json!(5), "wrong-json-type".into()),
            2 => (json!("abc"), "odd-hex".into()),
            _ => (Value::Null, "null".into()),
        },
        Type::UtxoRef => match rng.below(6) {
            0 => (json!(hex::encode(rng.bytes(32))), "no-hash-sign".into()),
            1 => (json!(format!("{}#x", hex::encode(rng.bytes(32)))), "non-numeric-index".into()),
            2 => (json!(format!("zz#{}", 1)), "non-hex-txid".into()),
            3 => (json!(format!("{}#{}", hex::encode(rng.bytes(32)), u64::MAX)), "index-too-large".into()),
            4 => (json!(7), "wrong-json-type".into()),
            _ => (json!(format!("{}#-1", hex::encode(rng.bytes(32)))), "negative-index".into()),
        },
        _ => match rng.below(3) {
            0 => (Value::Null, "null".into()),
            1 => (json!([1, 2]), "array".into()),
            _ => (json!({"a": 1}), "object".into()),
        },
    }
}

fn random_json(rng: &mut Rng, depth: u32) -> Value {
    match rng.below(if depth > 3 { 5 } else { 8 }) {
        0 => Value::Null,
        1 => json!(rng.bool()),
        2 => json!(rng.range(-5, 1_000_000)),
        3 => {
            if rng.chance(1, 3) {
                json!(*rng.pick(NON_ASCII))
            } else {
                json!(["", "v1beta0", "hex", "base64", "00", "zz", "tir", "args"][rng.usize(8)])
            }
        }
        4 => json!(rng.next_u64() as f64 / 7.0),
        5 => Value::Array((0..rng.usize(3)).map(|_| random_json(rng, depth + 1)).collect()),
        _ => {
            let mut m = Map::new();
            for _ in 0..rng.usize(4) {
                let k = ["args", "tir", "env", "content", "encoding", "version", "bytecode", "payload", "x"][rng.usize(9)];
                m.insert(k.to_string(), random_json(rng, depth + 1));
            }
            Value::Object(m)
        }
    }
}

const TYPES: [Type; 6] = [Type::Int, Type::Bool, Type::Bytes, Type::Address, Type::UtxoRef, Type::Undefined];

fn type_name(t: &Type) -> &'static str {
    match t {
        Type::Int => "Int",
        Type::Bool => "Bool",
        Type::Bytes => "Bytes",
        Type::Address => "Address",
        Type::UtxoRef => "UtxoRef",
        _ => "Undefined",
    }
}

impl C16 {
    fn coercions(&self, ctx: &mut Ctx, idx: u64, rng: &mut Rng) {
        let ty = &TYPES[(idx % 6) as usize];
        // round trip
        let (j, expected, enc) = encode(ty, rng);
        ctx.eval();
        ctx.count(&format!("encoding/{}:{}", type_name(ty), enc.split(':').next().unwrap_or("")));
        let r = crate::panics::catch(|| from_json(j.clone(), ty));
        let detail = |what: Value| json!({"type": type_name(ty), "encoding": enc, "json": j, "expected": format!("{expected:?}").chars().take(200).collect::<String>(), "observed": what});
        match r {
            Ok(Ok(v)) => {
                if !arg_eq(&v, &expected) {
                    ctx.violation(format!("coercion:{}:{}", type_name(ty), enc.split(':').next().unwrap_or("")), detail(json!(format!("{v:?}").chars().take(200).collect::<String>())));
                }
            }
            Ok(Err(e)) => ctx.violation(format!("rejected-well-formed:{}:{}", type_name(ty), enc.split(':').next().unwrap_or("")), detail(json!(e.to_string()))),
            Err(p) => ctx.violation(format!("coercion-{}", p.signature()), detail(json!(p.message))),
        }
        ctx.nontrivial(fnv64(format!("{j}{}", type_name(ty)).as_bytes()));
        // ill-formed values must be refused
        let (bad, shape) = ill_formed(ty, rng);
        ctx.eval();
        ctx.count(&format!("ill-formed/{}:{shape}", type_name(ty)));
        match crate::panics::catch(|| from_json(bad.clone(), ty)) {
            Ok(Err(_)) => {}
            Ok(Ok(v)) => ctx.violation(format!("accepted-ill-formed:{}:{shape}", type_name(ty)), json!({"type": type_name(ty), "json": bad, "accepted_as": format!("{v:?}")})),
            Err(p) => ctx.violation(format!("coercion-{}", p.signature()), json!({"type": type_name(ty), "json": bad, "panic": p.message})),
        }
        // an integer beyond 64 bits written as a JSON *number*: the JSON parser holds it as a float, already
        // rounded - it must be refused, or come back exact, never come back as a neighbouring value
        if matches!(ty, Type::Int) {
            let v = {
                let base: i128 = *rng.pick(&[1i128 << 64, (1 << 64) + 1, (1 << 70) + 12345, i128::MAX / 3, -(1i128 << 64) - 1, -(1i128 << 90) - 7, (1 << 100) + 1]);
                base + rng.below(1000) as i128
            };
            if let Ok(j) = serde_json::from_str::<Value>(&v.to_string()) {
                ctx.eval();
                ctx.count("encoding/Int:json-number-beyond-64-bits");
                match crate::panics::catch(|| from_json(j.clone(), ty)) {
                    Ok(Ok(got)) => {
                        if !arg_eq(&got, &ArgValue::Int(v)) {
                            ctx.violation("coercion:Int:json-number-beyond-64-bits", json!({"json_text": v.to_string(), "accepted_as": format!("{got:?}")}));
                        }
                    }
                    Ok(Err(_)) => ctx.count("encoding/Int:json-number-beyond-64-bits:refused"),
                    Err(p) => ctx.violation(format!("coercion-{}", p.signature()), json!({"json_text": v.to_string(), "panic": p.message})),
                }
            }
        }
        // byte envelopes straight from the network: decoding is Ok or Err
        let env_doc = match rng.below(5) {
            0 => json!({"content": "abc", "contentType": "hex"}),
            1 => json!({"content": "!!", "contentType": "base64"}),
            2 => json!({"payload": hex::encode(rng.bytes(5)), "encoding": "hex"}),
            3 => json!({"bytecode": "0xZZ", "encoding": "hex"}),
            _ => random_json(rng, 0),
        };
        if let Ok(envelope) = serde_json::from_value::<tx3_resolver::interop::BytesEnvelope>(env_doc.clone()) {
            ctx.eval();
            ctx.count("envelope/decoded");
            // compiles against an infallible (From) or a fallible (TryFrom) conversion alike
            let r = crate::panics::catch(|| {
                let r: Result<Vec<u8>, _> = envelope.try_into();
                r.is_ok()
            });
            if let Err(p) = r {
                ctx.violation(format!("envelope-{}", p.signature()), json!({"envelope": env_doc, "panic": p.message}));
            }
        }
        // any JSON value against any type: Ok or Err
        let any = random_json(rng, 0);
        for t in TYPES.iter().chain([Type::List, Type::Custom("X".into()), Type::AnyAsset, Type::Unit, Type::Utxo, Type::Map].iter()) {
            ctx.eval();
            if let Err(p) = crate::panics::catch(|| from_json(any.clone(), t)) {
                ctx.violation(format!("coercion-{}", p.signature()), json!({"type": format!("{t:?}"), "json": any, "panic": p.message}));
            }
        }
        if idx % 9973 == 0 {
            ctx.sample(|| json!({"type": type_name(ty), "encoding": enc, "json": j}));
        }
    }

    fn requests(&self, ctx: &mut Ctx, idx: u64, rng: &mut Rng) {
        // a template: lowered from a generated program (declared types known) or a random tree
        let (tir_bytes, declared): (Vec<u8>, Vec<(String, Type)>) = if idx % 3 != 0 {
            let g = build::generate(rng, &Cfg::default());
            let src = print_program(&g.prog, Layout::plain());
            let name = g.prog.txs[0].name.clone();
            match front(&src, &name) {
                Ok(t) => {
                    let p = declared_by_walk(&t);
                    (tx3_tir::encoding::to_bytes(&t).0, p)
                }
                Err(_) => return,
            }
        } else {
            let mut gen = TirGen::new(3, false);
            let t = gen.tx(rng);
            let p = declared_by_walk(&t);
            (tx3_tir::encoding::to_bytes(&t).0, p)
        };
        // arguments for the declared parameters, split between `args` and `env`
        let mut args = Map::new();
        let mut env = Map::new();
        let mut expected: Vec<(String, ArgValue)> = vec![];
        for (name, ty) in &declared {
            if rng.chance(1, 8) {
                continue; // not supplied at all
            }
            let ty_eff = match ty {
                Type::Int | Type::Bool | Type::Bytes | Type::Address | Type::UtxoRef | Type::Undefined => ty.clone(),
                _ => continue, // types that cannot travel as JSON arguments
            };
            let (j, v, _) = encode(&ty_eff, rng);
            if rng.chance(1, 3) {
                env.insert(name.clone(), j);
                ctx.count("requests/param-via-env");
            } else {
                args.insert(name.clone(), j);
            }
            expected.push((name.clone(), v));
        }
        // now and then one supplied value is ill-formed for its declared type: the request must be refused,
        // whichever map carries it
        let mut poisoned: Option<(String, &'static str, String)> = None;
        if !expected.is_empty() && rng.chance(1, 5) {
            let (name, _) = expected[rng.usize(expected.len())].clone();
            let ty = declared.iter().find(|(d, _)| *d == name).map(|(_, t)| t.clone());
            if let Some(ty @ (Type::Int | Type::Bool | Type::Bytes | Type::Address | Type::UtxoRef)) = ty {
                let (bad, shape) = ill_formed(&ty, rng);
                let via = if env.contains_key(&name) { "env" } else { "args" };
                if via == "env" {
                    env.insert(name.clone(), bad);
                } else {
                    args.insert(name.clone(), bad);
                }
                ctx.count(&format!("requests/ill-formed-value-via-{via}"));
                poisoned = Some((name, via, format!("{}:{shape}", type_name(&ty))));
            }
        }
        // undeclared extras that differ from a declared, supplied name in letter case only, placed in the other
        // map: they name nothing, so the declared entry must still arrive
        if !expected.is_empty() && rng.chance(1, 4) {
            let (name, _) = expected[rng.usize(expected.len())].clone();
            let variant = if rng.bool() { name.to_uppercase() } else { let mut c = name.chars(); c.next().map(|f| f.to_uppercase().collect::<String>() + c.as_str()).unwrap_or_default() };
            if variant != name && !declared.iter().any(|(d, _)| *d == variant) {
                if env.contains_key(&name) {
                    args.insert(variant, random_json(rng, 2));
                } else {
                    env.insert(variant, random_json(rng, 2));
                }
                ctx.count("requests/case-variant-decoy-in-the-other-map");
            }
        }
        // undeclared extras
        for k in 0..rng.usize(3) {
            let target = if rng.bool() { &mut args } else { &mut env };
            target.insert(format!("undeclared_extra_{k}"), random_json(rng, 2));
            ctx.count("requests/undeclared-extra");
        }
        // envelope, possibly corrupted
        let corrupt = rng.below(20);
        let (content, encoding, version): (String, Value, Value) = match corrupt {
            0 => (hex::encode(&tir_bytes) + "z", json!("hex"), json!("v1beta0")),
            1 => (hex::encode(&tir_bytes)[1..].to_string(), json!("hex"), json!("v1beta0")),
            2 => ("!!not base64!!".into(), json!("base64"), json!("v1beta0")),
            3 => (hex::encode(&tir_bytes[..tir_bytes.len() / 2]), json!("hex"), json!("v1beta0")),
            4 => (hex::encode(&tir_bytes), json!("hex"), json!(["v1alpha8", "v2", "", "V1BETA0"][rng.usize(4)])),
            5 => (hex::encode(&tir_bytes), json!(["rot13", "HEX", ""][rng.usize(3)]), json!("v1beta0")),
            6 => (base64::engine::general_purpose::STANDARD.encode(&tir_bytes), json!("base64"), json!("v1beta0")),
            7 => (hex::encode(rng.bytes(40)), json!("hex"), json!("v1beta0")),
            _ => (hex::encode(&tir_bytes), json!("hex"), json!("v1beta0")),
        };
        let well_formed = matches!(corrupt, 6 | 8 | 9);
        let content_key = *rng.pick(&["content", "bytecode", "payload"]);
        let mut doc = json!({"args": args, "tir": {content_key: content, "encoding": encoding, "version": version}});
        if !env.is_empty() || rng.bool() {
            doc["env"] = Value::Object(env.clone());
        }
        if rng.chance(1, 10) {
            doc = random_json(rng, 0);
        }
        ctx.eval();
        ctx.count(if well_formed { "requests/well-formed-envelope" } else { "requests/corrupted-envelope" });
        let detail = |what: Value| json!({"request": doc.to_string().chars().take(3000).collect::<String>(), "declared": declared.iter().map(|(k, t)| (k.clone(), format!("{t:?}"))).collect::<Vec<_>>(), "observed": what});
        let r = crate::panics::catch(|| {
            let params: ResolveParams = serde_json::from_value(doc.clone()).map_err(|e| format!("deserialize: {e}"))?;
            parse_resolve_request(params).map_err(|e| format!("parse: {e}"))
        });
        match r {
            Err(p) => ctx.violation(format!("request-{}", p.signature()), detail(json!({"panic": p.message, "location": p.location}))),
            Ok(Err(_)) => ctx.count("requests/err"),
            Ok(Ok((_tir, map))) => {
                ctx.count("requests/ok");
                // exactly the declared parameters the request supplied, coerced by their declared types
                if doc.get("args").is_some() && doc["tir"].is_object() {
                    if let Some((name, via, shape)) = &poisoned {
                        ctx.violation(format!("request:ill-formed-value-accepted:{via}"), detail(json!({"parameter": name, "shape": shape, "in_returned_map": map.contains_key(name)})));
                    }
                    for (name, v) in &expected {
                        if matches!(&poisoned, Some((p, _, _)) if p == name) {
                            continue;
                        }
                        match map.get(name) {
                            None => {
                                let via = if env.contains_key(name) { "env" } else { "args" };
                                ctx.violation(format!("request:declared-parameter-dropped:{via}"), detail(json!({"parameter": name})));
                            }
                            Some(got) if !arg_eq(got, v) => ctx.violation("request:declared-parameter-miscoerced", detail(json!({"parameter": name, "got": format!("{got:?}").chars().take(200).collect::<String>(), "expected": format!("{v:?}").chars().take(200).collect::<String>()}))),
                            _ => {}
                        }
                    }
                    for k in map.keys() {
                        if !declared.iter().any(|(d, _)| d == k) {
                            ctx.violation("request:undeclared-key-kept", detail(json!({"key": k})));
                        }
                    }
                }
            }
        }
        // metamorphic: entries the template does not declare change nothing - the same request with 30..45 more
        // undeclared entries (spread over args and env), and with one declared parameter present in *both* maps,
        // must be accepted / refused alike and hand over the same map
        if doc.get("args").map(|a| a.is_object()).unwrap_or(false) && doc["tir"].is_object() && idx % 3 == 0 {
            let mut base = doc.clone();
            if let Some((name, _)) = expected.first() {
                if rng.bool() && args.contains_key(name) {
                    // the declared parameter also under env, with another well-formed value of its type
                    if let Some(ty @ (Type::Int | Type::Bool | Type::Bytes | Type::Address | Type::UtxoRef)) = declared.iter().find(|(d, _)| d == name).map(|(_, t)| t.clone()) {
                        let (j2, _, _) = encode(&ty, rng);
                        if !base["env"].is_object() {
                            base["env"] = json!({});
                        }
                        base["env"][name.as_str()] = j2;
                        ctx.count("requests/metamorphic-key-in-both-maps");
                    }
                }
            }
            let mut padded = base.clone();
            if !padded["env"].is_object() {
                padded["env"] = json!({});
            }
            let n_junk = 30 + rng.usize(16);
            for k in 0..n_junk {
                // keys that sort before, between and after the real ones
                let key = format!("{}_junk_{k}", *rng.pick(&["a", "m", "q", "zz", "0"]));
                let target = if rng.bool() { "args" } else { "env" };
                padded[target][key.as_str()] = random_json(rng, 3);
            }
            let run = |d: &Value| {
                crate::panics::catch(|| {
                    let params: ResolveParams = serde_json::from_value(d.clone()).map_err(|e| format!("deserialize: {e}"))?;
                    parse_resolve_request(params).map(|(_, m)| m).map_err(|e| format!("parse: {e}"))
                })
            };
            ctx.eval();
            ctx.count("requests/metamorphic-padded");
            match (run(&base), run(&padded)) {
                (Ok(Ok(a)), Ok(Ok(b))) => {
                    let same = a.len() == b.len() && a.iter().all(|(k, v)| b.get(k).map(|w| arg_eq(v, w)).unwrap_or(false));
                    if !same {
                        ctx.violation("request:undeclared-entries-change-the-result", json!({"request": base.to_string().chars().take(2500).collect::<String>(), "padded_with": n_junk, "plain_keys": a.keys().collect::<Vec<_>>(), "padded_keys": b.keys().collect::<Vec<_>>(),
                            "differing": a.iter().filter(|(k, v)| !b.get(*k).map(|w| arg_eq(v, w)).unwrap_or(false)).map(|(k, v)| json!({"key": k, "plain": format!("{v:?}").chars().take(120).collect::<String>(), "padded": format!("{:?}", b.get(k)).chars().take(120).collect::<String>()})).collect::<Vec<_>>()}));
                    }
                }
                (Ok(Err(_)), Ok(Err(_))) => {}
                (Ok(a), Ok(b)) => ctx.violation("request:undeclared-entries-change-the-outcome", json!({"request": base.to_string().chars().take(2500).collect::<String>(), "plain_ok": a.is_ok(), "padded_ok": b.is_ok()})),
                (Err(p), _) | (_, Err(p)) => ctx.violation(format!("request-{}", p.signature()), json!({"request": base.to_string().chars().take(2500).collect::<String>(), "panic": p.message})),
            }
        }
        ctx.nontrivial(fnv64(doc.to_string().as_bytes()));
        if idx % 1999 == 0 {
            ctx.sample(|| json!({"request_prefix": doc.to_string().chars().take(500).collect::<String>()}));
        }
    }
}

impl Property for C16 {
    fn id(&self) -> &'static str {
        "C16"
    }
    fn rule(&self) -> String {
        "coercions: for each argument type (Int, Bool, Bytes, Address, UtxoRef, Undefined) a random value v (ints from the i128 boundary set, byte strings of 0..100 bytes, every Shelley address kind, refs with index up to u32::MAX) and each admissible encoding e (decimal string, JSON number below 2^64, 0x + 32 hex digits two's complement; true/false, 0/1, \"true\"/\"false\"; hex with and without 0x in either case, {content|bytecode|payload, contentType|encoding: hex|base64}; bech32 / hex; txid#index): from_json(e(v), type) = v; per type 4..10 ill-formed shapes must be refused (for Bool also the JSON numbers 1.0, 0.0, -0, 1e0, 10e-1 ... parsed from text, and near-miss strings); random JSON against every type must not panic. deep requests: IR payloads with 11 kinds of expression wrapper nested 50..100000 deep in a typed position, wrapped into a request and handed to parse_resolve_request by an unoptimised probe binary on a 2 MiB thread. requests: templates lowered from generated programs (declared types known) or random IR trees, declared parameters split between `args` and `env`, some missing, undeclared extras, envelopes intact or corrupted in content / encoding / version (10 variants), or a random JSON document: serde_json::from_value::<ResolveParams> + parse_resolve_request must return Ok or Err and, when Ok, the argument map must equal the declared subset of args + env coerced by the declared types; one request in five carries an ill-formed value for a declared parameter (under args or env) and must be refused; metamorphic: the same request padded with 30..45 undeclared entries (and, half of the time, with one declared parameter present in both maps) must be accepted / refused alike and hand over the same argument map. Non-trivial: every case; distinct = distinct JSON documents.".into()
    }
    fn assumptions(&self) -> Vec<String> {
        vec![
            "a key is never placed in both args and env; JSON numbers stay below 2^64 in magnitude (larger integers travel as strings); address strings are bech32 or hex, never both".into(),
        ]
    }
    fn hang_is_violation(&self) -> bool {
        true
    }
    fn phases(&self, tier: Tier) -> Vec<Phase> {
        match tier {
            Tier::Quick => vec![Phase::new("coercions", 60_000, Profile::Checked), Phase::new("requests", 12_000, Profile::Checked)],
            Tier::Thorough => vec![Phase::new("coercions", 3_000_000, Profile::Checked), Phase::new("requests", 600_000, Profile::Checked), Phase::new("requests-release", 150_000, Profile::Release)],
        }
    }
    fn required_features(&self, _tier: Tier) -> Vec<String> {
        ["encoding/Int:0x-16-bytes-be", "encoding/Int:json-number", "encoding/Bytes:envelope-base64", "encoding/Address:bech32", "encoding/UtxoRef:txid#index", "requests/ok", "requests/err", "requests/param-via-env", "requests/undeclared-extra", "requests/corrupted-envelope", "requests/ill-formed-value-via-env", "requests/ill-formed-value-via-args", "requests/metamorphic-padded", "requests/metamorphic-key-in-both-maps", "requests/case-variant-decoy-in-the-other-map", "encoding/Int:json-number-beyond-64-bits", "stack-probe/err"]
            .iter()
            .map(|s| s.to_string())
            .collect()
    }
    fn supervisor_phase(&self, ctx: &mut Ctx, env: &Env) {
        // requests whose IR payload is nested deep in a typed position, handed to parse_resolve_request on a 2 MiB
        // thread of an unoptimised build (what a server built with `cargo run` executes): it has to answer with
        // an error, not die of a stack overflow
        {
            use crate::props::c11::{deep_payload, DEEP_DEPTHS, DEEP_WRAPPERS};
            let mut inputs: Vec<(String, Vec<u8>)> = vec![];
            for wi in 0..DEEP_WRAPPERS {
                for d in DEEP_DEPTHS {
                    let (w, b) = deep_payload(wi, d);
                    inputs.push((format!("{w}@{d}"), b));
                }
            }
            match stack_probe_mode(env, "C16", "request", &inputs) {
                None => ctx.inconclusive("stack-probe:unusable"),
                Some(results) => {
                    for (name, o) in results {
                        ctx.eval();
                        ctx.nontrivial_str(&format!("stack-probe:{name}"));
                        let depth: usize = name.split('@').nth(1).and_then(|d| d.parse().ok()).unwrap_or(0);
                        match o {
                            ProbeOutcome::Ok => ctx.count("stack-probe/ok"),
                            ProbeOutcome::Err => ctx.count("stack-probe/err"),
                            ProbeOutcome::Panic => {
                                ctx.count("stack-probe/panic");
                                ctx.violation("request-panic:dev-profile:2MiB-thread", json!({"payload": name}));
                            }
                            ProbeOutcome::Killed(sig) => {
                                ctx.count("stack-probe/abort");
                                ctx.violation(
                                    format!("abort:signal:{sig}:request:dev-profile:2MiB-thread:depth{}", if depth <= 256 { "<=256" } else { ">256" }),
                                    json!({"payload": name, "depth": depth, "what": "parse_resolve_request on a 2 MiB thread in an unoptimised build was killed by a signal (stack overflow)"}),
                                );
                            }
                        }
                    }
                }
            }
        }
        if ctx.tier == Tier::Thorough {
            // hex / base64 / bech32 / serde_json `unsafe` code reached with hostile strings: the same cases under Miri
            miri_cross_run(ctx, env, "C16", &[MiriPlan { phase: "coercions", cases: 320 }, MiriPlan { phase: "requests", cases: 64 }], 540);
        }
    }
    fn run_case(&self, ctx: &mut Ctx, phase: &str, idx: u64, rng: &mut Rng) {
        if phase == "coercions" {
            self.coercions(ctx, idx, rng)
        } else {
            self.requests(ctx, idx, rng)
        }
    }
}
