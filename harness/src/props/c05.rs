//! C05 — the fee written in the body is the fee reported and covers the final size.

use crate::decode::tx as txview;
use crate::env::{self, LoggedStore, MonitoredCompiler, PP};
use crate::framework::*;
use crate::gen::ast::*;
use crate::pipeline::front;
use crate::rng::{fnv64, Rng};
use num_bigint::BigInt;
use serde_json::json;
use std::collections::BTreeMap;
use tx3_resolver::resolve_tx;
use tx3_tir::encoding::AnyTir;
use tx3_tir::model::assets::CanonicalAssets;
use tx3_tir::model::core::{Utxo, UtxoRef};
use tx3_tir::reduce::ArgValue;

pub struct C05;

pub const TOK_POLICY: [u8; 28] = [0xc5; 28];

pub fn sender() -> Vec<u8> {
    let mut a = vec![0x60];
    a.extend([0x31; 28]);
    a
}

pub fn receiver() -> Vec<u8> {
    let mut a = vec![0x00];
    a.extend([0x32; 56]);
    a
}

#[derive(Clone, Debug)]
pub struct Shape {
    /// `fees` appears in the input's min_amount
    pub fees_in_min: bool,
    /// a change output `source - Ada(q) - fees`
    pub change: bool,
    /// number of extra fixed outputs (0..4)
    pub extra_outputs: usize,
    /// outputs whose amount is `min_utxo(self)` (by index among the extra outputs)
    pub min_utxo_on: Vec<usize>,
    /// the change output adds min_utxo of itself
    pub datum_on_change: bool,
    pub token_in_change: bool,
    pub metadata: bool,
    /// an optional output `output ? gift { amount: Ada(g) }` declared first; with g = 0 it is dropped from
    /// the body, so that the body has fewer outputs than the template
    pub gift: Option<i128>,
    /// attach a native script through cardano::native_witness (witness set only: the body is unaffected)
    pub native_witness: bool,
}

pub fn program(s: &Shape) -> Program {
    let q = || E::Ada(Box::new(E::Param("quantity".into())));
    let mut outputs = vec![];
    if let Some(g) = s.gift {
        outputs.push(Output { name: Some("gift".into()), to: Some(E::Party("Receiver".into())), amount: Some(E::Ada(Box::new(E::Int(g)))), optional: true, ..Default::default() });
    }
    outputs.push(Output { name: Some("target".into()), to: Some(E::Party("Receiver".into())), amount: Some(q()), ..Default::default() });
    for k in 0..s.extra_outputs {
        let name = format!("extra{k}");
        let amount = if s.min_utxo_on.contains(&k) { E::Add(Box::new(E::MinUtxo(name.clone())), Box::new(E::Ada(Box::new(E::Int(k as i128))))) } else { E::Ada(Box::new(E::Int(1_500_000 + k as i128))) };
        outputs.push(Output { name: Some(name), to: Some(E::Party("Receiver".into())), amount: Some(amount), datum: if k % 2 == 1 { Some(E::List(vec![E::Int(k as i128), E::Param("quantity".into())])) } else { None }, ..Default::default() });
    }
    if s.change {
        // change = source - q - extras - fees
        let mut e = E::Sub(Box::new(E::InputValue("source".into())), Box::new(q()));
        if let Some(g) = s.gift {
            e = E::Sub(Box::new(e), Box::new(E::Ada(Box::new(E::Int(g)))));
        }
        for k in 0..s.extra_outputs {
            let name = format!("extra{k}");
            let amount = if s.min_utxo_on.contains(&k) { E::Add(Box::new(E::MinUtxo(name)), Box::new(E::Ada(Box::new(E::Int(k as i128))))) } else { E::Ada(Box::new(E::Int(1_500_000 + k as i128))) };
            e = E::Sub(Box::new(e), Box::new(E::Paren(Box::new(amount))));
        }
        e = E::Sub(Box::new(e), Box::new(E::Fees));
        outputs.push(Output {
            name: Some("change".into()),
            to: Some(E::Party("Sender".into())),
            amount: Some(e),
            datum: if s.datum_on_change { Some(E::Hex(vec![7; 20])) } else { None },
            ..Default::default()
        });
    }
    let mut min = q();
    if s.fees_in_min {
        min = E::Add(Box::new(min), Box::new(E::Fees));
    }
    Program {
        parties: vec!["Sender".into(), "Receiver".into()],
        txs: vec![TxDef {
            name: "pay".into(),
            params: vec![("quantity".into(), Ty::Int)],
            inputs: vec![Input { name: "source".into(), from: Some(E::Party("Sender".into())), min_amount: Some(min), ..Default::default() }],
            outputs,
            metadata: if s.metadata { vec![(E::Int(674), E::Str("fee test".into()))] } else { vec![] },
            cardano: if s.native_witness {
                let mut script = vec![0x82, 0x00, 0x58, 0x1c];
                script.extend([0x5c; 28]);
                vec![Cardano::NativeWitness { script: E::Hex(script) }]
            } else {
                vec![]
            },
            ..Default::default()
        }],
        ..Default::default()
    }
}

pub fn single_utxo_store(lovelace: i128, token: i128, tag: u8) -> Vec<Utxo> {
    let mut assets = CanonicalAssets::from_naked_amount(lovelace);
    if token > 0 {
        assets = assets + CanonicalAssets::from_defined_asset(&TOK_POLICY, b"FEE", token);
    }
    vec![Utxo { r#ref: UtxoRef { txid: vec![tag; 32], index: 1 }, address: sender(), assets, datum: None, script: None }]
}

pub fn args(q: i128) -> BTreeMap<String, ArgValue> {
    BTreeMap::from([("sender".to_string(), ArgValue::Address(sender())), ("receiver".to_string(), ArgValue::Address(receiver())), ("quantity".to_string(), ArgValue::Int(q))])
}

pub const COEFFS: [u64; 9] = [0, 1, 43, 44, 100, 255, 256, 999, 1000];
pub const CONSTS: [u64; 3] = [0, 155_381, 1_000_000];
pub const BOUNDARIES: [i128; 10] = [0, 23, 24, 255, 256, 65_535, 65_536, 4_294_967_295, 4_294_967_296, 1_000_000_000];

impl C05 {
    /// Multi-UTxO input whose threshold depends on the fee, against a wallet of small UTxOs: the real fee can
    /// force the selection to reach for one more UTxO, which makes the transaction (and the fee) larger
    /// again. Whatever the loop returns must still be a fixed point, and the change must account for
    /// exactly the selected inputs.
    fn multi(&self, ctx: &mut Ctx, idx: u64, rng: &mut Rng) {
        let with_change = rng.chance(4, 5);
        let mut outputs = vec![Output { name: Some("target".into()), to: Some(E::Party("Receiver".into())), amount: Some(E::Ada(Box::new(E::Param("quantity".into())))), ..Default::default() }];
        if with_change {
            let e = E::Sub(Box::new(E::Sub(Box::new(E::InputValue("source".into())), Box::new(E::Ada(Box::new(E::Param("quantity".into())))))), Box::new(E::Fees));
            outputs.push(Output { name: Some("change".into()), to: Some(E::Party("Sender".into())), amount: Some(e), ..Default::default() });
        }
        let prog = Program {
            parties: vec!["Sender".into(), "Receiver".into()],
            txs: vec![TxDef {
                name: "pay".into(),
                params: vec![("quantity".into(), Ty::Int)],
                inputs: vec![Input { name: "source".into(), many: true, from: Some(E::Party("Sender".into())), min_amount: Some(E::Add(Box::new(E::Ada(Box::new(E::Param("quantity".into())))), Box::new(E::Fees))), ..Default::default() }],
                outputs,
                ..Default::default()
            }],
            ..Default::default()
        };
        let src = print_program(&prog, Layout::plain());
        let Ok(lowered) = front(&src, "pay") else {
            ctx.count("front/rejected");
            return;
        };
        let pp = PP { mainnet: rng.bool(), a: *rng.pick(&COEFFS), b: *rng.pick(&CONSTS), coins_per_utxo_byte: 4310, extra_fees: *rng.pick(&[None, Some(0), Some(77_777)]), cost_models: vec![0, 1, 2], cost_salt: 0 };
        let n = 2 + rng.usize(11);
        let unit = *rng.pick(&[50_000i128, 200_000, 1_000_000]);
        let store: Vec<Utxo> = (0..n)
            .map(|k| {
                let mut txid = rng.bytes(32);
                txid[0] = k as u8;
                Utxo { r#ref: UtxoRef { txid, index: rng.below(3) as u32 }, address: sender(), assets: CanonicalAssets::from_naked_amount(unit + rng.range(0, unit as i64) as i128), datum: None, script: None }
            })
            .collect();
        let total: i128 = store.iter().map(|u| u.assets.naked_amount().unwrap_or(0)).sum();
        // fee level from a roomy probe; the quantity is then placed so that q + fee sits near the total of k UTxOs
        let fee_level: i128 = pp.a as i128 * 300 + pp.b as i128 + pp.extra_fees.unwrap_or(200_000) as i128;
        let k = 1 + rng.usize(n);
        let mut amounts: Vec<i128> = store.iter().map(|u| u.assets.naked_amount().unwrap_or(0)).collect();
        amounts.sort();
        amounts.reverse();
        let sum_k: i128 = amounts.iter().take(k).sum();
        let q = (sum_k - fee_level + rng.range(-30_000, 30_000) as i128).max(1).min(total);
        let rounds_limit = *rng.pick(&[0usize, 1, 2, 3, 10]);
        let st = LoggedStore::new(store.clone());
        let mut mc = MonitoredCompiler::new(env::compiler(&pp));
        ctx.eval();
        let r = crate::panics::catch(|| pollster::block_on(resolve_tx(AnyTir::V1Beta0(lowered.clone()), &args(q), &mut mc, &st, rounds_limit)));
        let rounds = mc.rounds;
        let detail = |what: serde_json::Value| {
            json!({"phase": "multi", "source": src, "quantity": q.to_string(), "store": store.iter().map(|u| format!("{}#{}:{}", hex::encode(&u.r#ref.txid[..3]), u.r#ref.index, u.assets.naked_amount().unwrap_or(0))).collect::<Vec<_>>(),
                "pparams": {"a": pp.a, "b": pp.b, "extra_fees": pp.extra_fees}, "max_optimize_rounds": rounds_limit,
                "rounds": rounds.iter().map(|r| json!({"fee_applied": r.fee_applied.map(|x| x.to_string()), "payload_len": r.payload_len, "fee_reported": r.fee_reported, "ok": r.ok})).collect::<Vec<_>>(), "observed": what})
        };
        ctx.count(&format!("multi/rounds/{}", rounds.len().min(9)));
        match r {
            Err(p) => ctx.violation(format!("panic:{}", p.signature()), detail(json!({"panic": p.message}))),
            Ok(Err(_)) => ctx.count("multi/err"),
            Ok(Ok(c)) => {
                ctx.count("multi/ok");
                let margin = pp.extra_fees.unwrap_or(200_000);
                let formula = pp.a * c.payload.len() as u64 + pp.b + margin;
                if c.fee != formula {
                    ctx.violation("formula", detail(json!({"reported_fee": c.fee, "a*len+b+margin": formula, "len": c.payload.len()})));
                }
                let Ok(v) = txview::view(&c.payload) else {
                    ctx.violation("undecodable-payload", detail(json!({})));
                    return;
                };
                let body_fee = v.tx.fee.clone();
                if body_fee != BigInt::from(c.fee) {
                    let at_limit = rounds.len() >= rounds_limit.max(3) + 2;
                    ctx.violation(format!("nonfixpoint:{}", if at_limit { "oscillation-cut-at-round-limit" } else { "returned-before-convergence" }), detail(json!({"body_fee": body_fee.to_string(), "reported_fee": c.fee})));
                    return;
                }
                // the inputs of the body, looked up in the store
                let mut selected = BigInt::from(0);
                for i in &v.tx.inputs {
                    match store.iter().find(|u| u.r#ref.txid == i.0 && u.r#ref.index as u64 == i.1) {
                        Some(u) => selected += BigInt::from(u.assets.naked_amount().unwrap_or(0)),
                        None => ctx.violation("input-not-in-store", detail(json!({"input": format!("{}#{}", hex::encode(&i.0), i.1)}))),
                    }
                }
                if v.tx.inputs.len() >= 2 {
                    ctx.count("multi/selected>=2");
                }
                if rounds.windows(2).any(|w| w[0].payload_len != w[1].payload_len) {
                    ctx.count("multi/size-changed-between-rounds");
                }
                if selected < BigInt::from(q) + &body_fee {
                    ctx.violation("stale-fee:min-amount", detail(json!({"selected": selected.to_string(), "q + body fee": (BigInt::from(q) + &body_fee).to_string()})));
                }
                if with_change {
                    if let Some(change) = v.tx.outputs.get(1) {
                        let expect = &selected - BigInt::from(q) - &body_fee;
                        if change.lovelace != expect {
                            ctx.violation("stale-fee:change-output", detail(json!({"change": change.lovelace.to_string(), "selected inputs - q - body fee": expect.to_string()})));
                        }
                    } else if selected != BigInt::from(q) + &body_fee {
                        ctx.violation("stale-fee:change-output-missing", detail(json!({"selected": selected.to_string()})));
                    }
                }
                ctx.nontrivial(fnv64(format!("multi{idx}{q}{n}{:?}", (pp.a, pp.b)).as_bytes()));
                if idx % 499 == 0 {
                    ctx.sample(|| detail(json!({"fee": c.fee, "inputs": v.tx.inputs.len()})));
                }
            }
        }
    }
}

impl Property for C05 {
    fn id(&self) -> &'static str {
        "C05"
    }
    fn rule(&self) -> String {
        "templates 'pay' (input with min_amount Ada(q) [+ fees], target output, 0..4 extra outputs some sized with min_utxo, optional change output source - q - extras - fees with optional datum, optional metadata, in 2 of 7 cases an optional first output that is emitted or dropped) lowered from source text and resolved with the real resolve_tx against a single-UTxO store; protocol parameters over a in {0,1,43,44,100,255,256,999,1000} x b in {0,155381,10^6} x margin in {None,0,n} x max_optimize_rounds in {0,3,10}; the UTxO amount is placed so that the change (and therefore the fee) sits within +-1200 of a CBOR width boundary (23/24, 255/256, 2^16, 2^32) after a probe resolution. multi: a multi-UTxO input with a fee-dependent threshold against a wallet of 2..12 small UTxOs, the quantity placed so that quantity + fee sits within 30000 of the total of the k largest (the real fee forces one more UTxO, which makes the transaction larger again); the selected inputs are read from the decoded body and looked up in the store. Oracle: decoded body fee = CompiledTx.fee = a*len(payload)+b+margin; decoded change = input - q - extras - body fee; the selected input covers min_amount at that fee. The compiler wrapper's per-round log (fee applied, length, fee reported) classifies failures. Non-trivial: the resolution needed >= 2 rounds; distinct = distinct (shape, pparams, amount).".into()
    }
    fn assumptions(&self) -> Vec<String> {
        vec!["Err results are out of scope (the statement is about returned transactions)".into()]
    }
    fn phases(&self, tier: Tier) -> Vec<Phase> {
        match tier {
            Tier::Quick => vec![Phase::new("fees", 4_000, Profile::Release), Phase::new("multi", 3_000, Profile::Release)],
            Tier::Thorough => vec![Phase::new("fees", 250_000, Profile::Release), Phase::new("multi", 200_000, Profile::Release)],
        }
    }
    fn required_features(&self, _tier: Tier) -> Vec<String> {
        ["outcome/ok", "rounds/2", "rounds/3", "shape/min_utxo", "shape/change", "shape/fees-in-min", "boundary/crossed-width", "margin/none", "margin/zero", "shape/dropped-optional-output", "multi/ok", "multi/selected>=2", "multi/size-changed-between-rounds"].iter().map(|s| s.to_string()).collect()
    }
    fn run_case(&self, ctx: &mut Ctx, phase: &str, idx: u64, rng: &mut Rng) {
        if phase == "multi" {
            return self.multi(ctx, idx, rng);
        }
        let extra = rng.usize(5);
        let shape = Shape {
            fees_in_min: rng.chance(2, 3),
            change: rng.chance(4, 5),
            extra_outputs: extra,
            min_utxo_on: (0..extra).filter(|_| rng.chance(1, 3)).collect(),
            datum_on_change: rng.chance(1, 4),
            token_in_change: rng.chance(1, 4),
            metadata: rng.chance(1, 5),
            gift: match rng.below(7) {
                0 => Some(0),
                1 => Some(1_300_000),
                _ => None,
            },
            native_witness: false,
        };
        if shape.gift == Some(0) {
            ctx.count("shape/dropped-optional-output");
        }
        if !shape.min_utxo_on.is_empty() {
            ctx.count("shape/min_utxo");
        }
        if shape.change {
            ctx.count("shape/change");
        }
        if shape.fees_in_min {
            ctx.count("shape/fees-in-min");
        }
        let pp = PP {
            mainnet: rng.bool(),
            a: *rng.pick(&COEFFS),
            b: *rng.pick(&CONSTS),
            coins_per_utxo_byte: *rng.pick(&[4310u64, 1, 0, 34482]),
            extra_fees: match rng.below(3) {
                0 => None,
                1 => Some(0),
                _ => Some(rng.range(1, 500_000) as u64),
            },
            cost_models: vec![0, 1, 2],
            cost_salt: 0,
        };
        ctx.count(match pp.extra_fees {
            None => "margin/none",
            Some(0) => "margin/zero",
            _ => "margin/some",
        });
        let rounds_limit = *rng.pick(&[0usize, 1, 2, 3, 10]);
        let src = print_program(&program(&shape), Layout::plain());
        let Ok(lowered) = front(&src, "pay") else {
            ctx.count("front/rejected");
            return;
        };
        let q: i128 = rng.range(1_000_000, 3_000_000) as i128;
        let token = if shape.token_in_change { rng.range(1, 1_000_000) as i128 } else { 0 };
        let extras_fixed: i128 = (0..shape.extra_outputs).filter(|k| !shape.min_utxo_on.contains(k)).map(|k| 1_500_000 + k as i128).sum::<i128>() + shape.gift.unwrap_or(0);
        // position of the first extra output in the body (after `target`, and after `gift` when it is emitted)
        let first_extra = 1 + matches!(shape.gift, Some(g) if g > 0) as usize;

        let run = |lovelace: i128| {
            let store = LoggedStore::new(single_utxo_store(lovelace, token, 9));
            let mut mc = MonitoredCompiler::new(env::compiler(&pp));
            let r = crate::panics::catch(|| pollster::block_on(resolve_tx(AnyTir::V1Beta0(lowered.clone()), &args(q), &mut mc, &store, rounds_limit)));
            (r, mc.rounds)
        };
        // probe with a roomy amount to learn the fee level
        let (probe, _) = run(900_000_000_000);
        let fee_level: i128 = match &probe {
            Ok(Ok(c)) => c.fee as i128,
            _ => 400_000,
        };
        // min-utxo extras are worth about this much (197 or measured bytes * coins_per_byte): learn from the probe
        let extras_min_utxo: i128 = match &probe {
            Ok(Ok(c)) => txview::view(&c.payload).map(|v| shape.min_utxo_on.iter().map(|k| v.tx.outputs.get(first_extra + k).map(|o| (&o.lovelace).try_into().unwrap_or(0i128)).unwrap_or(0)).sum()).unwrap_or(0),
            _ => 0,
        };
        let boundary = *rng.pick(&BOUNDARIES);
        let delta = rng.range(-1200, 1200) as i128;
        let lovelace = q + extras_fixed + extras_min_utxo + fee_level + boundary + delta;
        ctx.eval();
        let (r, rounds) = run(lovelace.max(1));
        let detail = |what: serde_json::Value| {
            json!({
                "phase": phase, "source": src, "quantity": q.to_string(), "utxo_lovelace": lovelace.to_string(), "utxo_token": token.to_string(),
                "pparams": {"a": pp.a, "b": pp.b, "extra_fees": pp.extra_fees, "coins_per_utxo_byte": pp.coins_per_utxo_byte, "mainnet": pp.mainnet}, "max_optimize_rounds": rounds_limit,
                "rounds": rounds.iter().map(|r| json!({"fee_applied": r.fee_applied.map(|x| x.to_string()), "payload_len": r.payload_len, "fee_reported": r.fee_reported, "ok": r.ok})).collect::<Vec<_>>(),
                "observed": what,
            })
        };
        ctx.count(&format!("rounds/{}", rounds.len().min(9)));
        match r {
            Err(p) => {
                ctx.count("outcome/panic");
                ctx.violation(format!("panic:{}", p.signature()), detail(json!({"panic": p.message})));
            }
            Ok(Err(e)) => {
                ctx.count("outcome/err");
                ctx.count(&format!("err/{}", crate::props::c01::err_sig(&e.to_string())));
            }
            Ok(Ok(c)) => {
                ctx.count("outcome/ok");
                let margin = pp.extra_fees.unwrap_or(200_000);
                let formula = pp.a * c.payload.len() as u64 + pp.b + margin;
                if c.fee != formula {
                    ctx.violation("formula", detail(json!({"reported_fee": c.fee, "a*len+b+margin": formula, "len": c.payload.len()})));
                }
                let v = match txview::view(&c.payload) {
                    Ok(v) => v,
                    Err(e) => {
                        ctx.violation("undecodable-payload", detail(json!({"error": e})));
                        return;
                    }
                };
                let body_fee = v.tx.fee.clone();
                if body_fee != BigInt::from(c.fee) {
                    // classify with the round log
                    let fees: Vec<u64> = rounds.iter().map(|r| r.fee_reported).collect();
                    let n = fees.len();
                    // the loop runs max(limit, 3) + 2 passes before it gives up
                    let at_limit = n >= rounds_limit.max(3) + 2;
                    let period = (1..=4).find(|p| n > 2 * p && (0..*p).all(|k| fees[n - 1 - k] == fees[n - 1 - k - p]));
                    let class = if at_limit {
                        // no fee F satisfies F = a*len(tx(F)) + b + margin on this input: the fee and
                        // the change straddle CBOR width boundaries in opposite directions
                        "oscillation-cut-at-round-limit".to_string()
                    } else {
                        "returned-before-convergence".to_string()
                    };
                    let _ = period;
                    ctx.violation(format!("nonfixpoint:{class}"), detail(json!({"body_fee": body_fee.to_string(), "reported_fee": c.fee})));
                }
                // the same fee went into the change and into the threshold
                if shape.change {
                    if let Some(change) = v.tx.outputs.last() {
                        let others: BigInt = v.tx.outputs[..v.tx.outputs.len() - 1].iter().map(|o| o.lovelace.clone()).sum();
                        let expect = BigInt::from(lovelace) - others - &body_fee;
                        if expect >= BigInt::from(0) && change.lovelace != expect {
                            ctx.violation("stale-fee:change-output", detail(json!({"change": change.lovelace.to_string(), "input - other outputs - body fee": expect.to_string()})));
                        }
                        // did the change cross a CBOR width boundary between rounds?
                        if rounds.len() >= 3 && rounds.windows(2).any(|w| w[0].payload_len != w[1].payload_len) {
                            ctx.count("boundary/crossed-width");
                        }
                    }
                }
                if shape.fees_in_min && BigInt::from(lovelace) < BigInt::from(q) + &body_fee {
                    ctx.violation("stale-fee:min-amount", detail(json!({"input": lovelace.to_string(), "q + body fee": (BigInt::from(q) + &body_fee).to_string()})));
                }
                if rounds.len() >= 2 {
                    ctx.nontrivial(fnv64(format!("{src}{:?}{lovelace}{rounds_limit}", (pp.a, pp.b, pp.extra_fees)).as_bytes()));
                }
                if idx % 401 == 0 {
                    ctx.sample(|| detail(json!({"fee": c.fee, "payload_len": c.payload.len()})));
                }
            }
        }
    }
}
