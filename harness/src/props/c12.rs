//! C12 — the front end is total: any source text yields an AST or a diagnostic.

use crate::framework::*;
use crate::gen::ast::{print_program, Layout};
use crate::gen::build::{self, Cfg};
use crate::grammar::{mutate, Grammar};
use crate::rng::{fnv64, Rng};
use serde_json::json;
use std::num::NonZeroUsize;
use std::sync::OnceLock;

pub struct C12;

static GRAMMAR: OnceLock<Result<Grammar, String>> = OnceLock::new();
static EXAMPLES: OnceLock<Vec<(String, String)>> = OnceLock::new();

pub fn grammar() -> &'static Result<Grammar, String> {
    GRAMMAR.get_or_init(|| {
        let env = Env::from_env();
        Grammar::load(&env.repo_dir.join("crates/tx3-lang/src/tx3.pest"))
    })
}

pub fn examples() -> &'static Vec<(String, String)> {
    EXAMPLES.get_or_init(|| {
        let env = Env::from_env();
        crate::props::c11::example_files(&env)
            .into_iter()
            .filter_map(|p| std::fs::read_to_string(&p).ok().map(|s| (p.file_name().unwrap().to_string_lossy().to_string(), s)))
            .collect()
    })
}

/// logical step budget of the parser: far above what a linear-time parse needs (the valid corpus uses
/// about 5 calls per byte), so hitting it is a statement about growth, not about machine load
pub fn call_budget(len: usize) -> usize {
    2_000_000 + 5_000 * len
}

/// The trigger of the known finding `exponential-front-end:input-self-reference`: an input or local
/// that lies on a reference cycle and mentions inputs / locals of its tx four or more times (each of
/// the 9 analysis passes multiplies the size of its symbol by the number of mentions: 4^9 copies and
/// up). Such inputs are measured by the growth probe; in the random phases they are skipped so that
/// they do not take the worker down.
pub fn known_blowup_trigger(src: &str, prog: &tx3_lang::ast::Program) -> bool {
    use std::collections::{BTreeMap, BTreeSet};
    use tx3_lang::parsing::AstNode;
    for tx in &prog.txs {
        let mut text: BTreeMap<String, String> = BTreeMap::new();
        let slice = |span: &tx3_lang::ast::Span| crate::grammar::strip_comments(src.get(span.start..span.end).unwrap_or(""));
        if let Some(l) = &tx.locals {
            for a in &l.assigns {
                let t = slice(a.span());
                text.insert(a.name.value.clone(), t.splitn(2, ':').nth(1).unwrap_or("").to_string());
            }
        }
        for i in &tx.inputs {
            let t = slice(i.span());
            text.insert(i.name.clone(), t.splitn(2, '{').nth(1).unwrap_or("").to_string());
        }
        let names: BTreeSet<String> = text.keys().cloned().collect();
        let edges: BTreeMap<String, Vec<String>> = text.iter().map(|(n, t)| (n.clone(), crate::grammar::tokenize(t).into_iter().filter(|tok| names.contains(tok)).collect())).collect();
        // nodes that can reach themselves
        for n in &names {
            let mut seen: BTreeSet<&String> = BTreeSet::new();
            let mut stack: Vec<&String> = edges[n].iter().collect();
            let mut cyclic = false;
            while let Some(m) = stack.pop() {
                if m == n {
                    cyclic = true;
                    break;
                }
                if seen.insert(m) {
                    stack.extend(edges[m].iter());
                }
            }
            if cyclic && edges[n].len() >= 4 {
                return true;
            }
        }
    }
    false
}

#[derive(Debug, Clone)]
pub enum FrontOutcome {
    /// parsed, but analysis was not run (see `known_blowup_trigger`)
    SkippedKnownBlowup,
    Parsed { analysis_errors: usize },
    ParseError(String),
    BudgetExceeded,
    Panic(crate::panics::PanicInfo, &'static str),
}

/// parse (+ analyze when it parses) under the step budget; never panics itself
pub fn run_front(src: &str) -> (FrontOutcome, Option<tx3_lang::ast::Program>, Option<tx3_lang::parsing::Error>, Option<tx3_lang::analyzing::AnalyzeReport>) {
    pest::set_call_limit(NonZeroUsize::new(call_budget(src.len())));
    let parsed = crate::panics::catch(|| tx3_lang::parsing::parse_string(src));
    pest::set_call_limit(None);
    match parsed {
        Err(p) => (FrontOutcome::Panic(p, "parse"), None, None, None),
        Ok(Err(e)) => {
            if e.message.contains("call limit reached") {
                (FrontOutcome::BudgetExceeded, None, Some(e), None)
            } else {
                (FrontOutcome::ParseError(e.message.clone()), None, Some(e), None)
            }
        }
        Ok(Ok(prog)) if known_blowup_trigger(src, &prog) => (FrontOutcome::SkippedKnownBlowup, None, None, None),
        Ok(Ok(mut prog)) => match crate::panics::catch(|| tx3_lang::analyzing::analyze(&mut prog)) {
            Err(p) => (FrontOutcome::Panic(p, "analyze"), None, None, None),
            Ok(report) => (FrontOutcome::Parsed { analysis_errors: report.errors.len() }, Some(prog), None, Some(report)),
        },
    }
}

pub struct Nest {
    pub name: &'static str,
    pub build: fn(usize) -> String,
}

fn wrap_expr(e: String) -> String {
    format!("party A;\ntype T {{ f: Int, g: T, }}\ntx t(x: Int, xs: List<Int>) {{\n  output {{ to: A, amount: Ada(1), datum: {e}, }}\n}}\n")
}

pub const NESTS: &[Nest] = &[
    Nest { name: "paren", build: |d| wrap_expr(format!("{}x{}", "(".repeat(d), ")".repeat(d))) },
    Nest { name: "list", build: |d| wrap_expr(format!("{}1{}", "[".repeat(d), "]".repeat(d))) },
    Nest { name: "list-trailing-comma", build: |d| wrap_expr(format!("{}1{}", "[".repeat(d), ",]".repeat(d))) },
    Nest { name: "map", build: |d| wrap_expr(format!("{}1{}", "{1:".repeat(d), ",}".repeat(d))) },
    Nest { name: "map-key", build: |d| wrap_expr(format!("{}1{}", "{".repeat(d), ":1,}".repeat(d))) },
    Nest { name: "struct", build: |d| wrap_expr(format!("{}x{}", "T{f:1,g:".repeat(d), ",}".repeat(d))) },
    Nest { name: "struct-spread", build: |d| wrap_expr(format!("{}x{}", "T{f:1,...".repeat(d), "}".repeat(d))) },
    Nest { name: "call", build: |d| wrap_expr(format!("{}x{}", "f(".repeat(d), ")".repeat(d))) },
    Nest { name: "concat", build: |d| wrap_expr(format!("{}x{}", "concat(".repeat(d), ",x)".repeat(d))) },
    Nest { name: "concat-arity-1", build: |d| wrap_expr(format!("{}x{}", "concat(".repeat(d), ")".repeat(d))) },
    Nest { name: "anyasset", build: |d| wrap_expr(format!("{}x{}", "AnyAsset(".repeat(d), ",x,x)".repeat(d))) },
    Nest { name: "anyasset-arity-1", build: |d| wrap_expr(format!("{}x{}", "AnyAsset(".repeat(d), ")".repeat(d))) },
    Nest { name: "anyasset-arity-2", build: |d| wrap_expr(format!("{}x{}", "AnyAsset(".repeat(d), ",x)".repeat(d))) },
    Nest { name: "property-chain", build: |d| wrap_expr(format!("x{}", ".g".repeat(d))) },
    Nest { name: "index-chain", build: |d| wrap_expr(format!("xs{}", "[0]".repeat(d))) },
    Nest { name: "index-nest", build: |d| wrap_expr(format!("{}0{}", "xs[".repeat(d), "]".repeat(d))) },
    Nest { name: "negate", build: |d| wrap_expr(format!("{}x", "!".repeat(d))) },
    Nest { name: "infix-chain", build: |d| wrap_expr(format!("x{}", " - x".repeat(d))) },
    Nest { name: "paren-infix", build: |d| wrap_expr(format!("{}x{}", "(x + ".repeat(d), ")".repeat(d))) },
    Nest { name: "min_utxo", build: |d| wrap_expr(format!("{}x{}", "min_utxo(".repeat(d), ")".repeat(d))) },
    Nest { name: "list-type", build: |d| format!("type T {{ f: {}Int{}, }}\n", "List<".repeat(d), ">".repeat(d)) },
    Nest { name: "map-type", build: |d| format!("type T {{ f: {}Int{}, }}\n", "Map<Int,".repeat(d), ">".repeat(d)) },
    Nest { name: "map-type-key", build: |d| format!("type T {{ f: {}Int{}, }}\n", "Map<".repeat(d), ",Int>".repeat(d)) },
    Nest { name: "unclosed-list", build: |d| wrap_expr("[".repeat(d)) },
    Nest { name: "unclosed-paren", build: |d| wrap_expr("(".repeat(d)) },
    Nest { name: "unclosed-map", build: |d| wrap_expr("{1:".repeat(d)) },
    Nest { name: "unclosed-call", build: |d| wrap_expr("f(".repeat(d)) },
    Nest { name: "comment-nest", build: |d| format!("{} party A; {}", "/*".repeat(d), "*/".repeat(d)) },
    Nest { name: "struct-field-then-spread", build: |d| wrap_expr(format!("{}x{}", "T{f:".repeat(d), ",...b}".repeat(d))) },
    Nest { name: "variant-field-then-spread", build: |d| wrap_expr(format!("{}x{}", "T::C{f:".repeat(d), ",...b}".repeat(d))) },
    Nest { name: "struct-two-fields-then-spread", build: |d| wrap_expr(format!("{}x{}", "T{g:1,f:".repeat(d), ",...T{g:2,f:x,}}".repeat(d))) },
    Nest { name: "struct-without-trailing-comma", build: |d| wrap_expr(format!("{}x{}", "T{f:".repeat(d), "}".repeat(d))) },
    Nest { name: "unclosed-struct", build: |d| wrap_expr("T{g:1,f:".repeat(d)) },
    Nest { name: "unclosed-struct-after-spread-dots", build: |d| wrap_expr(format!("{}x{}", "T{f:".repeat(d), ",...".repeat(d))) },
    Nest { name: "list-of-struct", build: |d| wrap_expr(format!("{}1{}", "[T{f:".repeat(d), ",g:x,}]".repeat(d))) },
];

/// CPU time of the calling thread in seconds (independent of machine load)
pub fn thread_cpu_s() -> f64 {
    let mut ts = libc::timespec { tv_sec: 0, tv_nsec: 0 };
    // SAFETY: plain syscall writing into a local struct
    unsafe {
        libc::clock_gettime(libc::CLOCK_THREAD_CPUTIME_ID, &mut ts);
    }
    ts.tv_sec as f64 + ts.tv_nsec as f64 * 1e-9
}

pub struct Chain {
    pub name: &'static str,
    pub build: fn(usize) -> String,
}

/// programs whose *length* grows linearly with n (no deep nesting): chains of definitions that refer to
/// the previous one twice
pub const CHAINS: &[Chain] = &[
    Chain { name: "alias-chain-map", build: |n| {
        let mut s = String::from("type a0 { f: Int, }\n");
        for i in 1..=n { s.push_str(&format!("type a{i} = Map<a{}, a{}>;\n", i - 1, i - 1)); }
        s
    } },
    Chain { name: "alias-chain-single", build: |n| {
        let mut s = String::from("type a0 { f: Int, }\n");
        for i in 1..=n { s.push_str(&format!("type a{i} = a{};\n", i - 1)); }
        s
    } },
    Chain { name: "record-chain", build: |n| {
        let mut s = String::from("type a0 { f: Int, }\n");
        for i in 1..=n { s.push_str(&format!("type a{i} {{ x: a{}, y: a{}, }}\n", i - 1, i - 1)); }
        s
    } },
    Chain { name: "locals-doubling", build: |n| {
        let mut s = String::from("party A;\ntx t(q: Int) {\n  locals {\n    l0: q,\n");
        for i in 1..=n { s.push_str(&format!("    l{i}: l{} + l{},\n", i - 1, i - 1)); }
        s.push_str(&format!("  }}\n  output {{ to: A, amount: Ada(l{n}), }}\n}}\n"));
        s
    } },
    Chain { name: "input-chain", build: |n| {
        let mut s = String::from("party A;\ntype R { f: Int, }\ntx t(q: Int) {\n  input i0 { from: A, datum_is: R, }\n");
        for i in 1..=n { s.push_str(&format!("  input i{i} {{ from: A, datum_is: R, redeemer: R {{ f: i{}.f + i{}.f, }}, }}\n", i - 1, i - 1)); }
        s.push_str("  output { to: A, amount: Ada(q), }\n}\n");
        s
    } },
    Chain { name: "outputs-referencing-input", build: |n| {
        let mut s = String::from("party A;\ntype R { f: Int, }\ntx t(q: Int) {\n  input src { from: A, datum_is: R, redeemer: R { f: 1, }, }\n");
        for _ in 0..n { s.push_str("  output { to: A, amount: src - fees, datum: R { f: src.f, }, }\n"); }
        s.push_str("}\n");
        s
    } },
    // an input that mentions itself k = n/2 times in its own fields (each analysis pass copies the
    // previous symbol into every mention)
    Chain { name: "input-self-reference", build: |n| {
        let k = n / 2;
        let mentions: Vec<String> = (0..k).map(|_| "b".to_string()).collect();
        format!("party A;\ntx t(q: Int) {{\n  input b {{ from: A, min_amount: Ada(q) + {}, }}\n  output {{ to: A, amount: Ada(q), }}\n}}\n", mentions.join(" + "))
    } },
    Chain { name: "many-txs", build: |n| {
        let mut s = String::from("party A;\n");
        for i in 0..n { s.push_str(&format!("tx t{i}(q: Int) {{ input s {{ from: A, }} output {{ to: A, amount: s - fees, }} }}\n")); }
        s
    } },
];

/// Runs `f(n)` for growing n and reports exponential growth of thread CPU time: three consecutive steps of +2
/// in n that each multiply the time by >= 3, ending above 0.3 s. Linear or quadratic
/// behaviour gives ratios below 1.3 at these sizes. Returns the measurements.
pub fn growth_probe(mut f: impl FnMut(usize)) -> (Vec<(usize, f64)>, bool) {
    let mut times: Vec<(usize, f64)> = vec![];
    let mut n = 4;
    while n <= 40 {
        let t0 = thread_cpu_s();
        f(n);
        let dt = thread_cpu_s() - t0;
        times.push((n, dt));
        let k = times.len();
        // three consecutive steps that each at least triple the time, ending above 0.3 s
        let exponential = (k >= 4 && times[k - 1].1 > 0.3 && (1..=3).all(|j| times[k - j].1 >= 3.0 * times[k - j - 1].1))
            // or two consecutive steps that each multiply it by >= 8, ending above 1 s
            || (k >= 3 && times[k - 1].1 > 1.0 && (1..=2).all(|j| times[k - j].1 >= 8.0 * times[k - j - 1].1));
        if exponential {
            return (times, true);
        }
        if dt > 4.0 {
            // too slow to continue, but the ratios did not show doubling: leave it to the watchdog
            return (times, false);
        }
        n += 2;
    }
    (times, false)
}


/// A program with one literal slot in every position of the language that takes a literal; `@H@` hex,
/// `@N@` number, `@S@` string, `@R@` UTxO reference.
const LITERAL_TEMPLATE: &str = r#"party A;
policy P = @H@;
policy Q { hash: @H@, script: @H@, }
asset T = @H@.@H@;
asset U = @H@.@S@;
type R { f: Bytes, g: Int, }
tx t(p: Int, b: Bytes) {
  input s { from: A, min_amount: Ada(@N@), ref: @R@, redeemer: @H@, }
  reference r { ref: @R@, }
  output { to: A, amount: Ada(@N@) + AnyAsset(@H@, @H@, @N@) + T(@N@), datum: R { f: @H@, g: @N@, }, }
  output { to: @S@, amount: Ada(p), datum: [@H@, @S@, @N@], }
  mint { amount: T(@N@), redeemer: @H@, }
  burn { amount: U(@N@), redeemer: @N@, }
  validity { since_slot: @N@, until_slot: @N@, }
  signers { @H@, A, }
  metadata { @N@: @H@, @N@: @S@, @N@: @N@, }
  collateral { from: A, min_amount: Ada(@N@), }
  cardano::withdrawal { from: A, amount: @N@, redeemer: @H@, }
  cardano::plutus_witness { version: @N@, script: @H@, }
  cardano::treasury_donation { coin: @N@, }
}
"#;

const BENIGN: [(&str, &str); 4] = [("@H@", "0xabcd"), ("@N@", "7"), ("@S@", "\"txt\""), ("@R@", "0x00000000000000000000000000000000000000000000000000000000000000aa#0")];

fn extreme_literals(kind: &str) -> Vec<String> {
    match kind {
        "@H@" => vec![
            "0x".into(),
            "0xa".into(),
            "0xabc".into(),
            format!("0x{}", "ab".repeat(64)),
            format!("0x{}c", "ab".repeat(64)),
            format!("0x{}", "ab".repeat(65)),
            format!("0x{}c", "ab".repeat(65)),
            format!("0x{}", "ab".repeat(100)),
            format!("0x{}c", "ab".repeat(1000)),
            format!("0x{}", "ab".repeat(2048)),
            "0xABCDEFabcdef".into(),
        ],
        "@N@" => vec!["0".into(), "9223372036854775807".into(), "9223372036854775808".into(), "18446744073709551616".into(), "9".repeat(19), "1".repeat(40), "0".repeat(50), "-9223372036854775809".into(), "00007".into()],
        "@S@" => vec!["\"\"".into(), format!("\"{}\"", "a".repeat(64)), format!("\"{}\"", "a".repeat(65)), format!("\"{}\"", "\u{20ac}".repeat(22)), format!("\"{}\"", "a".repeat(5000)), "\"0xabc\"".into(), "\"\u{feff}\"".into()],
        _ => vec![
            "0xabc#0".into(),
            "0xaa#0".into(),
            format!("0x{}#18446744073709551615", "ab".repeat(32)),
            format!("0x{}#18446744073709551616", "ab".repeat(32)),
            format!("0x{}#0", "ab".repeat(33)),
            format!("0x{}c#1", "ab".repeat(32)),
            format!("0x{}#{}", "ab".repeat(32), "9".repeat(30)),
        ],
    }
}

/// (slot kind, byte offset) of every literal slot of the template, in order
fn literal_slots() -> Vec<(&'static str, usize)> {
    let mut out = vec![];
    for (k, _) in BENIGN {
        let mut from = 0;
        while let Some(i) = LITERAL_TEMPLATE[from..].find(k) {
            out.push((k, from + i));
            from += i + k.len();
        }
    }
    out.sort_by_key(|x| x.1);
    out
}

/// The template with slot `slot` holding `lit` and every other slot its benign literal.
fn fill_template(slot: usize, lit: &str) -> String {
    let slots = literal_slots();
    let mut out = String::new();
    let mut pos = 0;
    for (n, (k, at)) in slots.iter().enumerate() {
        out.push_str(&LITERAL_TEMPLATE[pos..*at]);
        out.push_str(if n == slot { lit } else { BENIGN.iter().find(|b| b.0 == *k).unwrap().1 });
        pos = at + k.len();
    }
    out.push_str(&LITERAL_TEMPLATE[pos..]);
    out
}

/// number of (slot, extreme literal) pairs
fn literal_cases() -> Vec<(usize, String)> {
    let mut out = vec![];
    for (n, (k, _)) in literal_slots().iter().enumerate() {
        for l in extreme_literals(k) {
            out.push((n, l));
        }
    }
    out
}

impl C12 {
    fn judge(&self, ctx: &mut Ctx, src: &str, origin: &str, construct: &str) {
        ctx.eval();
        let (o, _, _, _) = run_front(src);
        let detail = |what: serde_json::Value| json!({"origin": origin, "construct": construct, "source": src.chars().take(4000).collect::<String>(), "source_len": src.len(), "observed": what});
        match o {
            FrontOutcome::SkippedKnownBlowup => ctx.count("skipped/known-blowup-trigger"),
            FrontOutcome::Parsed { analysis_errors } => {
                ctx.count("outcome/parsed");
                if analysis_errors == 0 {
                    ctx.count("outcome/analysed-clean");
                }
            }
            FrontOutcome::ParseError(_) => ctx.count("outcome/parse-error"),
            FrontOutcome::BudgetExceeded => {
                ctx.count("outcome/budget-exceeded");
                ctx.violation(format!("superlinear-parse:{construct}"), detail(json!({"call_budget": call_budget(src.len())})));
            }
            FrontOutcome::Panic(p, stage) => {
                ctx.count("outcome/panic");
                ctx.violation(p.signature(), detail(json!({"stage": stage, "message": p.message, "location": p.location})));
            }
        }
    }
}

impl Property for C12 {
    fn id(&self) -> &'static str {
        "C12"
    }
    fn rule(&self) -> String {
        "growth: 8 families of programs whose length grows linearly with n (chains of aliases / records / locals / inputs that name the previous definition twice, many outputs reading one input, many txs) are parsed and analysed for n = 4, 6, .. 40 and the thread CPU time must not triple twice in a row per step of 2; grammar: random expansions (depth <= 12, implicit whitespace / comments between tokens of non-atomic rules) of tx3.pest itself, read with pest_meta at run time, so every rule the grammar accepts is exercised; mutation: 12 token-level mutators (delete, duplicate, swap, splice, numeral / hex stretching, multi-byte insertion, keyword / punctuation replacement, truncation, block duplication, renaming) applied 1..3 times to the example corpus and to generated programs; literal-positions (exhaustive): a program with a literal in every position that takes one (policy / asset definitions, thresholds, references, redeemers, datum fields, list elements, validity, signers, metadata keys and values, directive fields) x 7..11 extreme literals per kind (empty / odd / 128..4096-digit hex, numerals around 2^63 and 2^64 and of 40..50 digits, empty / 64 / 65 / 5000-byte and multi-byte strings, UTxO references with odd, short, long ids and indices around 2^64), one position at a time; long-flat (exhaustive): flat chains of 1000 / 4096 / 20000 / 100000 infix operators, property accesses or negations (no nesting in the text); many-diagnostics: one tx with 21..90 erroneous blocks of ten kinds (undefined names in every position, undefined types, implicit constructors of variants, ill-typed directive fields) in random order; nesting (exhaustive): 36 recursive constructs (incl. constructors nested through a field and closed by a spread, without trailing comma, unclosed) x depth 1..64 (and 4..9 of those depths once more through an unoptimised probe binary on a 2 MiB thread). Oracle: parse_string returns Ok or Err and analyze returns, observed through the panic hook / worker signals / watchdog; termination of the parser is decided on logical steps (pest call limit 2e6 + 5000 per input byte; the valid corpus needs ~5 calls per byte). Non-trivial: the input parses, or fails beyond its first line; distinct = distinct input texts.".into()
    }
    fn assumptions(&self) -> Vec<String> {
        vec![
            "a parse that exceeds the step budget on an input of nesting depth <= 64 is counted as non-termination (exponential backtracking), the budget being three orders of magnitude above linear behaviour".into(),
            "analyze has no step counter: its termination is observed by the wall-clock watchdog, reproduced alone with 3x budget".into(),
        ]
    }
    fn hang_is_violation(&self) -> bool {
        true
    }
    fn self_test(&self) -> Result<(), String> {
        grammar().as_ref().map(|_| ()).map_err(|e| e.clone())?;
        // calibration: the examples that parse must stay far below the budget
        let mut parsed = 0;
        for (name, src) in examples() {
            pest::set_call_limit(NonZeroUsize::new(call_budget(src.len()) / 100));
            let r = crate::panics::catch(|| tx3_lang::parsing::parse_string(src));
            pest::set_call_limit(None);
            if let Ok(Err(e)) = &r {
                if e.message.contains("call limit") {
                    return Err(format!("calibration: example {name} needs more than 1% of the step budget"));
                }
            }
            if matches!(r, Ok(Ok(_))) {
                parsed += 1;
            }
        }
        if parsed < 10 {
            return Err(format!("calibration: only {parsed} examples parse"));
        }
        Ok(())
    }
    fn phases(&self, tier: Tier) -> Vec<Phase> {
        let nest = (NESTS.len() * 64) as u64;
        match tier {
            Tier::Quick => vec![
                Phase::new("growth", CHAINS.len() as u64, Profile::Release).exhaustive().budget(120_000),
                Phase::new("nesting", nest, Profile::Checked).exhaustive().budget(30_000),
                Phase::new("grammar", 12_000, Profile::Checked),
                Phase::new("mutation", 25_000, Profile::Checked),
                Phase::new("many-diagnostics", 400, Profile::Checked),
                Phase::new("long-flat", 12, Profile::Release).exhaustive().budget(60_000),
                Phase::new("literal-positions", literal_cases().len() as u64, Profile::Checked).exhaustive(),
            ],
            Tier::Thorough => vec![
                Phase::new("growth", CHAINS.len() as u64, Profile::Release).exhaustive().budget(120_000),
                Phase::new("nesting", nest, Profile::Checked).exhaustive().budget(30_000),
                Phase::new("grammar", 600_000, Profile::Checked),
                Phase::new("mutation", 1_200_000, Profile::Checked),
                Phase::new("mutation-release", 300_000, Profile::Release),
                Phase::new("many-diagnostics", 20_000, Profile::Checked),
                Phase::new("long-flat", 12, Profile::Release).exhaustive().budget(60_000),
                Phase::new("literal-positions", literal_cases().len() as u64, Profile::Checked).exhaustive(),
            ],
        }
    }
    fn required_features(&self, _tier: Tier) -> Vec<String> {
        ["growth/probed", "outcome/parsed", "outcome/parse-error", "outcome/analysed-clean", "grammar/parsed", "mutator/stretch-number", "mutator/hex-literal", "mutator/multibyte", "rule/variant_case_tuple", "rule/bitcoin_block", "rule/cardano_stake_delegation_certificate", "rule/utxo_ref", "stack-probe/returned"]
            .iter()
            .map(|s| s.to_string())
            .collect()
    }
    fn supervisor_phase(&self, ctx: &mut Ctx, env: &Env) {
        // the nesting sweep once more through an *unoptimised* build on a 2 MiB thread (what `cargo test` /
        // a server's worker thread has): a stack overflow aborts the process there long before it does in
        // the optimised harness on the main thread
        let depths: &[usize] = if ctx.tier == Tier::Quick { &[8, 24, 40, 64] } else { &[4, 8, 16, 24, 32, 40, 48, 56, 64] };
        let mut inputs: Vec<(String, Vec<u8>)> = vec![];
        for n in NESTS {
            for d in depths {
                inputs.push((format!("{}@{d}", n.name), (n.build)(*d).into_bytes()));
            }
        }
        match stack_probe(env, "C12", true, &inputs) {
            None => ctx.inconclusive("stack-probe:unusable"),
            Some(results) => {
                for (name, o) in results {
                    ctx.eval();
                    ctx.nontrivial_str(&format!("stack-probe:{name}"));
                    match o {
                        ProbeOutcome::Ok | ProbeOutcome::Err => ctx.count("stack-probe/returned"),
                        ProbeOutcome::Panic => {
                            ctx.count("stack-probe/panic");
                            ctx.violation("front-end-panic:dev-profile:2MiB-thread", json!({"input": name}));
                        }
                        ProbeOutcome::Killed(sig) => {
                            ctx.count("stack-probe/abort");
                            let construct = name.split('@').next().unwrap_or("?").to_string();
                            ctx.violation(format!("abort:signal:{sig}:front-end:dev-profile:2MiB-thread:{construct}"), json!({"input": name, "what": "parse_string + analyze on a 2 MiB thread in an unoptimised build was killed by a signal (stack overflow) at nesting depth <= 64"}));
                        }
                    }
                }
            }
        }
        if ctx.tier == Tier::Thorough {
            // pest slices the input unchecked and the AST builders index into pairs: the same inputs under Miri
            miri_cross_run(ctx, env, "C12", &[MiriPlan { phase: "mutation", cases: 160 }, MiriPlan { phase: "nesting", cases: (NESTS.len() * 64) as u64 / 13 }, MiriPlan { phase: "grammar", cases: 48 }], 600);
        }
    }
    fn run_case(&self, ctx: &mut Ctx, phase: &str, idx: u64, rng: &mut Rng) {
        match phase {
            "growth" => {
                let c = &CHAINS[idx as usize];
                let (times, exponential) = growth_probe(|n| {
                    // unguarded: this phase is where the known blow-ups are measured
                    let src = (c.build)(n);
                    let _ = crate::panics::catch(|| {
                        if let Ok(mut prog) = tx3_lang::parsing::parse_string(&src) {
                            let _ = tx3_lang::analyzing::analyze(&mut prog);
                        }
                    });
                });
                ctx.eval();
                ctx.count("growth/probed");
                ctx.nontrivial_str(c.name);
                ctx.nontrivial_str(&format!("{}-max-n-{}", c.name, times.last().map(|t| t.0).unwrap_or(0)));
                if exponential {
                    ctx.violation(
                        format!("exponential-front-end:{}", c.name),
                        json!({"construct": c.name, "cpu_seconds_by_n": times, "example_n6": (c.build)(6)}),
                    );
                }
                ctx.sample(|| json!({"construct": c.name, "cpu_seconds_by_n": times}));
            }
            "nesting" => {
                let n = &NESTS[(idx / 64) as usize];
                let d = 1 + (idx % 64) as usize;
                let src = (n.build)(d);
                self.judge(ctx, &src, "nesting-sweep", &format!("{}@depth>={}", n.name, if d >= 24 { "24" } else { "1" }));
                ctx.nontrivial(fnv64(src.as_bytes()));
                if idx % 64 == 9 {
                    ctx.sample(|| json!({"construct": n.name, "depth": d, "source": src}));
                }
            }
            "long-flat" => {
                // flat chains (no nesting in the text at all) of thousands of operators: the parser builds a
                // left-deep tree out of them and everything downstream recurses over it
                let lens = [1_000usize, 4_096, 20_000, 100_000];
                let n = lens[(idx % 4) as usize];
                let (name, expr) = match idx / 4 {
                    0 => ("infix", format!("1{}", " + 1".repeat(n))),
                    1 => ("property", format!("x{}", ".b".repeat(n))),
                    _ => ("negate", format!("{}x", "!".repeat(n))),
                };
                let src = wrap_expr(expr);
                ctx.count(&format!("long-flat/{name}"));
                self.judge(ctx, &src, "long-flat", &format!("long-flat:{name}"));
                ctx.nontrivial(fnv64(src.as_bytes()));
            }
            "literal-positions" => {
                // one extreme literal (over-long, odd-length, out of range, empty, multi-byte) in one literal
                // position of a program that uses every position, all other positions benign
                let cases = literal_cases();
                let Some((slot, lit)) = cases.get(idx as usize) else { return };
                let src = fill_template(*slot, lit);
                ctx.count("feature/literal-positions");
                let kind = literal_slots()[*slot].0;
                self.judge(ctx, &src, "literal-positions", &format!("literal-position:{kind}"));
                ctx.nontrivial(fnv64(src.as_bytes()));
                if idx % 97 == 0 {
                    ctx.sample(|| json!({"origin": "literal-positions", "slot": slot, "literal_prefix": lit.chars().take(40).collect::<String>(), "literal_len": lit.len()}));
                }
            }
            "many-diagnostics" => {
                // one tx with 21..90 erroneous sites of different kinds (located and unlocated diagnostics) in a
                // random source order: whatever collects, orders or de-duplicates a tx's diagnostics sees many
                let n = 21 + rng.usize(70);
                let mut blocks: Vec<String> = (0..n)
                    .map(|k| match rng.below(10) {
                        0 => format!("output o{k} {{ to: Nope{k}, amount: Ada(1), }}"),
                        1 => format!("output {{ to: A, amount: Ada(nope{k}), }}"),
                        2 => format!("input i{k} {{ from: A, datum_is: Missing{k}, min_amount: Ada(1), }}"),
                        3 => format!("output {{ to: A, amount: Ada(1), datum: R {{ f: nope{k}, }}, }}"),
                        4 => format!("input j{k} {{ from: Nope{k}, min_amount: nope{k}b, }}"),
                        5 => format!("mint {{ amount: NoAsset{k}(1), }}"),
                        6 => format!("reference r{k} {{ ref: nope{k}, }}"),
                        7 => format!("output {{ to: A, amount: Ada(1), datum: V {{ f: 1, }}, }}"),
                        8 => format!("cardano::withdrawal {{ from: A, amount: true, redeemer: nope{k}, }}"),
                        _ => format!("output {{ to: A, amount: Ada(p), datum: Missing{k} {{ f: p, }}, }}"),
                    })
                    .collect();
                rng.shuffle(&mut blocks);
                let sep = if rng.bool() { "\n  " } else { " " };
                let src = format!("party A;\ntype R {{ f: Int, }}\ntype V {{ C1 {{ f: Int, }}, C2 {{ g: Int, }}, }}\ntx t(p: Int) {{{sep}{}{sep}}}\n", blocks.join(sep));
                ctx.count("feature/many-diagnostics");
                self.judge(ctx, &src, "many-diagnostics", "many-diagnostics");
                ctx.nontrivial(fnv64(src.as_bytes()));
                if idx % 199 == 0 {
                    ctx.sample(|| json!({"origin": "many-diagnostics", "sites": n, "source": src.chars().take(500).collect::<String>()}));
                }
            }
            "grammar" => {
                let Ok(g) = grammar() else { return };
                let src = g.program(rng, 6 + (idx % 7) as u32);
                // which rare rules did it touch?
                for (rule, needle) in [("variant_case_tuple", "("), ("bitcoin_block", "bitcoin"), ("cardano_stake_delegation_certificate", "stake_delegation_certificate"), ("utxo_ref", "#")] {
                    if src.contains(needle) {
                        ctx.count(&format!("rule/{rule}"));
                    }
                }
                let before = ctx.counters.get("outcome/parsed").copied().unwrap_or(0);
                self.judge(ctx, &src, "grammar-expansion", "grammar-expansion");
                if ctx.counters.get("outcome/parsed").copied().unwrap_or(0) > before {
                    ctx.count("grammar/parsed");
                    ctx.nontrivial(fnv64(src.as_bytes()));
                }
                if idx % 2999 == 0 {
                    ctx.sample(|| json!({"origin": "grammar-expansion", "source": src.chars().take(600).collect::<String>()}));
                }
            }
            _ => {
                let ex = examples();
                let base: String = if idx % 3 == 0 || ex.is_empty() {
                    let g = build::generate(rng, &Cfg { cardano_pct: 50, risky_pct: 30, ..Default::default() });
                    print_program(&g.prog, Layout::random(rng.next_u64()))
                } else {
                    ex[rng.usize(ex.len())].1.clone()
                };
                let other = if ex.is_empty() { base.clone() } else { ex[rng.usize(ex.len())].1.clone() };
                let mut src = base;
                let mut kinds = vec![];
                for _ in 0..1 + rng.usize(3) {
                    let (s, k) = mutate(&src, &other, rng);
                    src = s;
                    kinds.push(k);
                    ctx.count(&format!("mutator/{k}"));
                }
                if rng.chance(1, 16) {
                    src = format!("{}{}", *rng.pick(&["\u{feff}", "\u{200b}", "\r\n", "\u{2028}"]), src);
                    ctx.count("feature/invisible-prefix");
                }
                self.judge(ctx, &src, "token-mutation", &format!("mutated:{}", kinds[0]));
                ctx.nontrivial(fnv64(src.as_bytes()));
                if idx % 4999 == 0 {
                    ctx.sample(|| json!({"origin": "token-mutation", "mutators": kinds, "source": src.chars().take(500).collect::<String>()}));
                }
            }
        }
    }
}
