//! C17 — the published interface (TII) agrees with the IR it ships.
//!
//! The real `tx3c build <src> --emit tii` binary is run on generated programs whose declared names
//! (parameters, env vars, parties) are re-spelled in lower / UPPER / mixed case, with parameters the
//! body never uses, env vars, policies of every form and, in a share of the cases, two names made
//! equal up to case. The file it writes is read back as JSON and confronted with the IR it embeds.

use crate::framework::*;
use crate::gen::ast::{print_program, Layout, Ty};
use crate::gen::build::{self, bech32_encode, Cfg};
use crate::pipeline::{front, FrontErr};
use crate::rng::{fnv64, Rng};
use serde_json::{json, Map, Value};
use std::collections::{BTreeMap, BTreeSet};
use std::path::PathBuf;
use tx3_resolver::interop::ArgValue;
use tx3_resolver::trp::{parse_resolve_request, ResolveParams};
use tx3_tir::encoding::{AnyTir, TirVersion};
use tx3_tir::model::core::{Type, UtxoRef};
use tx3_tir::reduce::{apply_args, find_params};

pub struct C17;

fn is_ident_char(c: char) -> bool {
    c.is_ascii_alphanumeric() || c == '_'
}

/// whole-word replacement of an identifier in source text
pub fn rename_ident(src: &str, from: &str, to: &str) -> String {
    let mut out = String::with_capacity(src.len());
    let b = src.as_bytes();
    let mut i = 0;
    while i < src.len() {
        if src[i..].starts_with(from) {
            let before_ok = i == 0 || !is_ident_char(b[i - 1] as char);
            let after = i + from.len();
            let after_ok = after >= src.len() || !is_ident_char(b[after] as char);
            if before_ok && after_ok {
                out.push_str(to);
                i = after;
                continue;
            }
        }
        let ch = src[i..].chars().next().unwrap();
        out.push(ch);
        i += ch.len_utf8();
    }
    out
}

fn style_of(name: &str) -> &'static str {
    let letters: Vec<char> = name.chars().filter(|c| c.is_ascii_alphabetic()).collect();
    if letters.iter().all(|c| c.is_ascii_lowercase()) {
        "lower"
    } else if letters.iter().all(|c| c.is_ascii_uppercase()) {
        "upper"
    } else {
        "mixed"
    }
}

fn restyle(name: &str, rng: &mut Rng) -> String {
    match rng.below(4) {
        0 => name.to_lowercase(),
        1 => name.to_uppercase(),
        2 => name
            .chars()
            .map(|c| if rng.bool() { c.to_ascii_uppercase() } else { c.to_ascii_lowercase() })
            .collect(),
        _ => name.to_string(),
    }
}

/// a spelling of `name` that differs from it (only) in letter case, when the name has a letter
fn other_case(name: &str, rng: &mut Rng) -> String {
    for _ in 0..8 {
        let v = match rng.below(3) {
            0 => name.to_lowercase(),
            1 => name.to_uppercase(),
            _ => name.chars().map(|c| if rng.bool() { c.to_ascii_uppercase() } else { c.to_ascii_lowercase() }).collect(),
        };
        if v != name {
            return v;
        }
    }
    // flip the first letter
    let mut done = false;
    name.chars()
        .map(|c| {
            if !done && c.is_ascii_alphabetic() {
                done = true;
                if c.is_ascii_uppercase() {
                    c.to_ascii_lowercase()
                } else {
                    c.to_ascii_uppercase()
                }
            } else {
                c
            }
        })
        .collect()
}

/// the argument type a TII schema entry announces
fn schema_type(s: &Value) -> Option<Type> {
    if let Some(t) = s.get("type").and_then(|t| t.as_str()) {
        return match t {
            "integer" => Some(Type::Int),
            "boolean" => Some(Type::Bool),
            _ => None,
        };
    }
    let r = s.get("$ref").and_then(|t| t.as_str())?;
    match r.rsplit('#').next()? {
        "Bytes" => Some(Type::Bytes),
        "Address" => Some(Type::Address),
        "UtxoRef" => Some(Type::UtxoRef),
        _ => None,
    }
}

/// (json, expected value) of a random argument of the type, in a documented encoding
fn json_arg(ty: &Type, rng: &mut Rng) -> (Value, ArgValue) {
    match ty {
        Type::Int => {
            let n = rng.range(-1_000_000_000, 1_000_000_000) as i128;
            if rng.bool() {
                (json!(n as i64), ArgValue::Int(n))
            } else {
                (json!(n.to_string()), ArgValue::Int(n))
            }
        }
        Type::Bool => {
            let b = rng.bool();
            (json!(b), ArgValue::Bool(b))
        }
        Type::Bytes => {
            let n = *rng.pick(&[0usize, 1, 28, 32, 40]);
            let b = rng.bytes(n);
            (json!(hex::encode(&b)), ArgValue::Bytes(b))
        }
        Type::Address => {
            let a = build::rand_address(rng, false, Some(0));
            if rng.bool() {
                (json!(bech32_encode("addr_test", &a)), ArgValue::Address(a))
            } else {
                (json!(hex::encode(&a)), ArgValue::Address(a))
            }
        }
        _ => {
            let txid = rng.bytes(32);
            let index = rng.below(5) as u32;
            (json!(format!("{}#{}", hex::encode(&txid), index)), ArgValue::UtxoRef(UtxoRef { txid, index }))
        }
    }
}

fn arg_eq(a: &ArgValue, b: &ArgValue) -> bool {
    match (a, b) {
        (ArgValue::Int(x), ArgValue::Int(y)) => x == y,
        (ArgValue::Bool(x), ArgValue::Bool(y)) => x == y,
        (ArgValue::String(x), ArgValue::String(y)) => x == y,
        (ArgValue::Bytes(x), ArgValue::Bytes(y)) => x == y,
        (ArgValue::Address(x), ArgValue::Address(y)) => x == y,
        (ArgValue::UtxoRef(x), ArgValue::UtxoRef(y)) => x == y,
        _ => false,
    }
}

fn props_of(schema: &Value) -> BTreeMap<String, Value> {
    schema
        .get("properties")
        .and_then(|p| p.as_object())
        .map(|o| o.iter().map(|(k, v)| (k.clone(), v.clone())).collect())
        .unwrap_or_default()
}

pub fn scratch_dir(tag: &str) -> PathBuf {
    let env = Env::from_env();
    let d = env.target_dir.join("runs").join(format!("{tag}-files-{}", std::process::id()));
    let _ = std::fs::create_dir_all(&d);
    d
}

/// Declared-name bookkeeping of one generated program (source-level spellings)
struct Names {
    env: Vec<String>,
    parties: Vec<String>,
    /// per tx
    params: Vec<Vec<String>>,
}

impl C17 {
    fn gen_cfg() -> Cfg {
        Cfg { cardano_pct: 30, max_txs: 2, dup_tx_names: true, ..Default::default() }
    }

    fn one(&self, ctx: &mut Ctx, idx: u64, rng: &mut Rng, collide: bool) {
        let cfg = Self::gen_cfg();
        let mut g = build::generate(rng, &cfg);
        // declared-but-unused names (the statement allows a superset on the interface side)
        let arg_tys = [Ty::Int, Ty::Bytes, Ty::Bool, Ty::Address, Ty::UtxoRef];
        let ntx = g.prog.txs.len();
        if rng.bool() {
            let t = rng.usize(ntx);
            let n = format!("unusedParam{}", rng.below(1000));
            g.prog.txs[t].params.push((n, rng.pick(&arg_tys).clone()));
            ctx.count("feature/unused-param");
        }
        if rng.chance(1, 3) {
            let n = format!("unusedEnv{}", rng.below(1000));
            g.prog.env.push((n, rng.pick(&arg_tys).clone()));
            ctx.count("feature/unused-env");
        }
        // the cross-tx collision scenario (below) needs an env var and a parameter in each of two txs
        let cross = collide && ntx >= 2 && rng.chance(1, 4);
        if cross {
            if g.prog.env.is_empty() {
                g.prog.env.push((format!("crossEnv{}", rng.below(1000)), rng.pick(&arg_tys).clone()));
            }
            for t in 0..ntx {
                if g.prog.txs[t].params.is_empty() {
                    g.prog.txs[t].params.push((format!("crossParam{}x{t}", rng.below(1000)), rng.pick(&arg_tys).clone()));
                }
            }
        }
        if rng.chance(1, 4) {
            g.prog.parties.push(format!("UnusedParty{}", rng.below(1000)));
            ctx.count("feature/unused-party");
        }
        for p in &g.prog.policies {
            ctx.count(match &p.form {
                crate::gen::ast::PolicyForm::Assign => "feature/policy-assign",
                crate::gen::ast::PolicyForm::Ctor { script: Some(_), .. } => "feature/policy-with-script",
                crate::gen::ast::PolicyForm::Ctor { rf: Some(_), .. } => "feature/policy-with-ref",
                _ => "feature/policy-hash-only",
            });
        }
        if !g.prog.env.is_empty() {
            ctx.count("feature/env-vars");
        }
        let layout = if rng.chance(1, 3) { Layout::random(rng.next_u64()) } else { Layout::plain() };
        let mut src = print_program(&g.prog, layout);
        let mut names = Names {
            env: g.prog.env.iter().map(|(n, _)| n.clone()).collect(),
            parties: g.prog.parties.clone(),
            params: g.prog.txs.iter().map(|t| t.params.iter().map(|(n, _)| n.clone()).collect()).collect(),
        };
        // re-spell every declared name (declaration and uses alike)
        let mut all: Vec<(usize, usize, usize)> = vec![]; // (kind, tx, i)
        for i in 0..names.env.len() {
            all.push((0, 0, i));
        }
        for i in 0..names.parties.len() {
            all.push((1, 0, i));
        }
        for (t, ps) in names.params.iter().enumerate() {
            for i in 0..ps.len() {
                all.push((2, t, i));
            }
        }
        for (kind, t, i) in &all {
            let slot = match kind {
                0 => &mut names.env[*i],
                1 => &mut names.parties[*i],
                _ => &mut names.params[*t][*i],
            };
            let new = restyle(slot, rng);
            if new != *slot {
                src = rename_ident(&src, slot, &new);
                *slot = new;
            }
            let k = ["env", "party", "param"][*kind];
            ctx.count(&format!("style/{k}/{}", style_of(slot)));
        }
        // a local spelled like a parameter of its tx up to letter case: two distinct symbols for the analyzer (scope
        // resolution is case sensitive), and a local is not an argument - the parameter stays required
        if rng.chance(1, 3) {
            let cands: Vec<usize> = (0..g.prog.txs.len()).filter(|t| !g.prog.txs[*t].locals.is_empty() && !names.params[*t].is_empty()).collect();
            if !cands.is_empty() {
                let t = *rng.pick(&cands);
                let pname = rng.pick(&names.params[t]).clone();
                let lname = rng.pick(&g.prog.txs[t].locals).0.clone();
                let variant = other_case(&pname, rng);
                let taken = names.env.contains(&variant) || names.parties.contains(&variant) || names.params.iter().flatten().any(|x| *x == variant);
                if variant != pname && !taken {
                    src = rename_ident(&src, &lname, &variant);
                    ctx.count("feature/local-named-like-parameter-up-to-case");
                }
            }
        }
        // two declared names made equal up to case (or fully equal across kinds)
        let mut collision: Option<String> = None;
        if collide && !cross && all.len() >= 2 {
            let a = *rng.pick(&all);
            let cands: Vec<(usize, usize, usize)> = all.iter().copied().filter(|b| *b != a && !(a.0 == 2 && b.0 == 2 && a.1 != b.1)).collect();
            if !cands.is_empty() {
                let b = *rng.pick(&cands);
                let get = |n: &Names, x: (usize, usize, usize)| match x.0 {
                    0 => n.env[x.2].clone(),
                    1 => n.parties[x.2].clone(),
                    _ => n.params[x.1][x.2].clone(),
                };
                let (an, bn) = (get(&names, a), get(&names, b));
                let new = if (a.0 != b.0 && rng.chance(1, 4)) || rng.chance(1, 10) { an.clone() } else { other_case(&an, rng) };
                src = rename_ident(&src, &bn, &new);
                match b.0 {
                    0 => names.env[b.2] = new,
                    1 => names.parties[b.2] = new,
                    _ => names.params[b.1][b.2] = new,
                }
                let k = |x: usize| ["env", "party", "param"][x];
                let mut ks = [k(a.0), k(b.0)];
                ks.sort();
                collision = Some(format!("{}+{}", ks[0], ks[1]));
                ctx.count(&format!("collision-attempt/{}+{}", ks[0], ks[1]));
            }
        }

        // a third declaration of the same key: an env var and *two* parameters of one tx spelled exactly alike
        // (the first parameter is a legitimate shadow of the env var, the second is a duplicate parameter)
        if collide && !cross && rng.chance(1, 4) && !names.env.is_empty() {
            if let Some(ti) = (0..names.params.len()).find(|t| names.params[*t].len() >= 2) {
                let e = names.env[rng.usize(names.env.len())].clone();
                if !names.params[ti].contains(&e) {
                    for k in 0..2 {
                        let old = names.params[ti][k].clone();
                        src = rename_ident(&src, &old, &e);
                        names.params[ti][k] = e.clone();
                    }
                    collision = Some("env+param+param".into());
                    ctx.count("collision-attempt/env+param+param");
                }
            }
        }
        // the shadow exemption holds per (parameter, env var) pair: one tx shadows an env var legitimately (same
        // spelling), *another* tx declares the same key in another spelling
        if cross && !names.env.is_empty() {
            let with_params: Vec<usize> = (0..names.params.len()).filter(|t| !names.params[*t].is_empty()).collect();
            if with_params.len() >= 2 {
                let e = names.env[rng.usize(names.env.len())].clone();
                let variant = other_case(&e, rng);
                let t1 = with_params[rng.usize(with_params.len())];
                let t2 = *rng.pick(&with_params.iter().copied().filter(|t| *t != t1).collect::<Vec<_>>());
                let taken = |n: &Names, x: &String| n.params.iter().flatten().any(|p| p == x) || n.parties.contains(x);
                if variant != e && !taken(&names, &e) && !taken(&names, &variant) {
                    let (i1, i2) = (rng.usize(names.params[t1].len()), rng.usize(names.params[t2].len()));
                    let old1 = names.params[t1][i1].clone();
                    src = rename_ident(&src, &old1, &e);
                    names.params[t1][i1] = e.clone();
                    let old2 = names.params[t2][i2].clone();
                    src = rename_ident(&src, &old2, &variant);
                    names.params[t2][i2] = variant;
                    collision = Some("env+shadow+case-variant-in-another-tx".into());
                    ctx.count("collision-attempt/env+shadow+case-variant-in-another-tx");
                }
            }
        }
        // whatever the renames above produced: two declarations visible to one tx whose keys are equal up to
        // letter case must be refused, with one exception (a parameter spelled exactly like an env var shadows it)
        let mut forbidden: Option<String> = None;
        for (ti, ps) in names.params.iter().enumerate() {
            let mut decls: Vec<(&str, &String)> = names.env.iter().map(|n| ("env", n)).chain(names.parties.iter().map(|n| ("party", n))).chain(ps.iter().map(|n| ("param", n))).collect();
            decls.sort();
            for i in 0..decls.len() {
                for j in i + 1..decls.len() {
                    let (a, b) = (decls[i], decls[j]);
                    if a.1.to_lowercase() == b.1.to_lowercase() {
                        let shadow = a.0 == "env" && b.0 == "param" && a.1 == b.1 && ps.iter().filter(|p| *p == b.1).count() == 1;
                        if !shadow {
                            forbidden = Some(format!("{}+{}:tx{}", a.0, b.0, ti));
                        }
                    }
                }
            }
        }

        // what lowering produces (reference for "the embedded IR is the lowered IR")
        let mut lowered = vec![];
        for txd in &g.prog.txs {
            match front(&src, &txd.name) {
                Ok(t) => lowered.push((txd.name.clone(), t)),
                Err(FrontErr::Parse(_)) | Err(FrontErr::Analyze(_)) => {
                    ctx.count("front/rejected");
                    if let Some(c) = &collision {
                        ctx.count(&format!("collision-rejected-by-analyzer/{c}"));
                    }
                    return;
                }
                Err(e) => {
                    ctx.count(&format!("front/{}", e.class()));
                    return;
                }
            }
        }
        if let Some(c) = &collision {
            ctx.count(&format!("collision-accepted-by-analyzer/{c}"));
        }
        if let Some(f) = &forbidden {
            let kinds = f.split(':').next().unwrap_or("?").to_string();
            ctx.violation(format!("collision:{kinds}:accepted-by-analyzer"), json!({"source": src, "declarations_sharing_a_key": f}));
        }

        // run the CLI
        let dir = scratch_dir("C17");
        let base = dir.join(format!("p{idx}"));
        let src_path = base.with_extension("tx3");
        if std::fs::write(&src_path, &src).is_err() {
            ctx.inconclusive("cannot-write-source");
            return;
        }
        let env = Env::from_env();
        let mut cmd = std::process::Command::new(&env.tx3c);
        cmd.arg("build").arg(&src_path).arg("--emit").arg("tii");
        let explicit_out = rng.bool();
        let out_path = if explicit_out { base.with_extension("out.json") } else { base.with_extension("tii") };
        if explicit_out {
            cmd.arg("-o").arg(&out_path);
            ctx.count("cli/explicit-output");
        }
        // profiles: a forced one and one with a dotfile naming env vars / parties in the usual upper case
        let mut dotfile_path = None;
        if rng.chance(1, 3) {
            cmd.arg("--profile").arg("preview");
            ctx.count("cli/profile-flag");
        }
        if rng.chance(1, 3) {
            let p = base.with_extension("env");
            let mut text = String::new();
            for n in names.env.iter().chain(names.parties.iter()) {
                text.push_str(&format!("{}={}\n", n.to_uppercase(), rng.below(100)));
            }
            if std::fs::write(&p, text).is_ok() {
                cmd.arg("--profile-env-file").arg(format!("dev:{}", p.display()));
                ctx.count("cli/profile-env-file");
                dotfile_path = Some(p);
            }
        }
        let output = cmd.stdin(std::process::Stdio::null()).output();
        let cleanup = |extra: Option<&PathBuf>| {
            let _ = std::fs::remove_file(&src_path);
            let _ = std::fs::remove_file(&out_path);
            if let Some(p) = extra {
                let _ = std::fs::remove_file(p);
            }
            let _ = std::fs::remove_dir(&dir);
        };
        let output = match output {
            Ok(o) => o,
            Err(e) => {
                ctx.inconclusive(format!("cannot-run-tx3c:{}", e.kind()));
                cleanup(dotfile_path.as_ref());
                return;
            }
        };
        if !output.status.success() {
            let err = String::from_utf8_lossy(&output.stderr);
            let first = err.lines().find(|l| !l.trim().is_empty()).unwrap_or("").to_string();
            ctx.count("cli/failed-on-accepted-program");
            ctx.inconclusive(format!("tx3c-failed-on-accepted-program:{}", crate::props::c01::err_sig(&first)));
            cleanup(dotfile_path.as_ref());
            return;
        }
        let text = std::fs::read_to_string(&out_path);
        cleanup(dotfile_path.as_ref());
        let Ok(text) = text else {
            ctx.violation("no-file-written", json!({"source": src, "expected_path_kind": if explicit_out { "-o" } else { "source.with_extension(tii)" }}));
            return;
        };
        ctx.count("cli/ok");
        let detail = |what: Value| json!({"source": src, "tii": text.chars().take(6000).collect::<String>(), "observed": what});
        let tii: Value = match serde_json::from_str(&text) {
            Ok(v) => v,
            Err(e) => {
                ctx.violation("tii-not-json", detail(json!({"error": e.to_string()})));
                return;
            }
        };
        let env_decl = tii.get("environment").map(props_of).unwrap_or_default();
        let party_decl: BTreeSet<String> = tii.get("parties").and_then(|p| p.as_object()).map(|o| o.keys().cloned().collect()).unwrap_or_default();

        // profile entries use declared spellings
        if let Some(profiles) = tii.get("profiles").and_then(|p| p.as_object()) {
            for (pname, p) in profiles {
                for (section, declared) in [("environment", env_decl.keys().cloned().collect::<BTreeSet<_>>()), ("parties", party_decl.clone())] {
                    if let Some(o) = p.get(section).and_then(|x| x.as_object()) {
                        for k in o.keys() {
                            ctx.count("profile-entries");
                            if !declared.contains(k) {
                                ctx.violation(format!("profile-key-undeclared:{section}"), detail(json!({"profile": pname, "key": k})));
                            }
                        }
                    }
                }
            }
        }

        for (tx_name, low) in &lowered {
            ctx.eval();
            let Some(entry) = tii.get("transactions").and_then(|t| t.get(tx_name)) else {
                ctx.violation("transaction-missing", detail(json!({"tx": tx_name})));
                continue;
            };
            // the embedded IR
            let envl = &entry["tir"];
            let content = envl["content"].as_str().unwrap_or("");
            let bytes = match envl["encoding"].as_str() {
                Some("hex") => hex::decode(content).ok(),
                Some("base64") => {
                    use base64::Engine as _;
                    base64::engine::general_purpose::STANDARD.decode(content).ok()
                }
                _ => None,
            };
            let Some(bytes) = bytes else {
                ctx.violation("embedded-ir-undecodable:envelope", detail(json!({"tx": tx_name, "encoding": envl["encoding"]})));
                continue;
            };
            let version = envl["version"].as_str().unwrap_or("");
            let decoded = TirVersion::try_from(version).map_err(|e| e.to_string()).and_then(|v| tx3_tir::encoding::from_bytes(&bytes, v).map_err(|e| e.to_string()));
            let decoded = match decoded {
                Ok(AnyTir::V1Beta0(t)) => t,
                Err(e) => {
                    ctx.violation("embedded-ir-undecodable:tir", detail(json!({"tx": tx_name, "version": version, "error": e})));
                    continue;
                }
            };
            if crate::canon::canon_bytes(&decoded) != crate::canon::canon_bytes(low) {
                ctx.violation("embedded-ir-differs", detail(json!({"tx": tx_name})));
            } else {
                // the same two trees read field by field (a view that does not go through the model's own Serialize)
                let (sa, sb) = (crate::structural::tx(low), crate::structural::tx(&decoded));
                if sa != sb {
                    ctx.violation(format!("embedded-ir-differs:fields:{}", crate::structural::first_difference(&sa, &sb)), detail(json!({"tx": tx_name})));
                }
            }
            // names
            let param_decl = props_of(&entry["params"]);
            let ir_keys = find_params(&decoded);
            let sections = |k: &str| -> Vec<&'static str> {
                let mut v = vec![];
                if param_decl.contains_key(k) {
                    v.push("param");
                }
                if party_decl.contains(k) {
                    v.push("party");
                }
                if env_decl.contains_key(k) {
                    v.push("env");
                }
                v
            };
            let declared_all: Vec<(&'static str, String)> = param_decl
                .keys()
                .map(|k| ("param", k.clone()))
                .chain(party_decl.iter().map(|k| ("party", k.clone())))
                .chain(env_decl.keys().map(|k| ("env", k.clone())))
                .collect();
            ctx.add("declared-keys", declared_all.len() as u64);
            ctx.add("ir-keys", ir_keys.len() as u64);
            let mut clean = true;
            for k in ir_keys.keys() {
                let exact = sections(k);
                let ci: Vec<&(&'static str, String)> = declared_all.iter().filter(|(_, d)| d != k && d.to_lowercase() == k.to_lowercase()).collect();
                if exact.is_empty() {
                    clean = false;
                    if let Some((kind, d)) = ci.first() {
                        ctx.violation(format!("spelling:{kind}"), detail(json!({"tx": tx_name, "declared": d, "ir_requires": k})));
                    } else {
                        let kind = if k.ends_with("_script") { "policy-script" } else { "other" };
                        ctx.violation(format!("undeclared:{kind}"), detail(json!({"tx": tx_name, "ir_requires": k})));
                    }
                    continue;
                }
                if exact == ["param", "env"] {
                    // a parameter shadowing an env var of the very same spelling: the two travel in
                    // different maps of the request (args / env); whether the client can resolve
                    // is decided by the closure oracle below, not by the names alone
                    ctx.count("shadow/param-over-env-same-spelling");
                } else if exact.len() > 1 {
                    clean = false;
                    ctx.violation(format!("collision:{}", exact.join("+")), detail(json!({"tx": tx_name, "key": k})));
                }
                if let Some((kind, d)) = ci.first() {
                    clean = false;
                    let mut ks = [exact[0], *kind];
                    ks.sort();
                    ctx.violation(format!("collision:{}+{}:case", ks[0], ks[1]), detail(json!({"tx": tx_name, "ir_key": k, "also_declared": d})));
                }
            }
            // a client supplying precisely what the interface declares closes every value parameter
            let mut args = Map::new();
            let mut envm = Map::new();
            let mut supplied: BTreeMap<String, ArgValue> = BTreeMap::new();
            let mut unsupported: BTreeSet<String> = BTreeSet::new();
            for (k, s) in &param_decl {
                match schema_type(s) {
                    Some(t) => {
                        let (j, v) = json_arg(&t, rng);
                        args.insert(k.clone(), j);
                        supplied.insert(k.clone(), v);
                    }
                    None => {
                        unsupported.insert(k.clone());
                    }
                }
            }
            for k in &party_decl {
                let (j, v) = json_arg(&Type::Address, rng);
                args.insert(k.clone(), j);
                supplied.insert(k.clone(), v);
            }
            for (k, s) in &env_decl {
                match schema_type(s) {
                    Some(t) => {
                        let (j, v) = json_arg(&t, rng);
                        envm.insert(k.clone(), j);
                        // explicit arguments take precedence over the environment map
                        if !args.contains_key(k) {
                            supplied.insert(k.clone(), v);
                        }
                    }
                    None => {
                        unsupported.insert(k.clone());
                    }
                }
            }
            let doc = json!({"tir": envl, "args": args, "env": envm});
            let r = crate::panics::catch(|| {
                let p: ResolveParams = serde_json::from_value(doc.clone()).map_err(|e| format!("deserialize: {e}"))?;
                parse_resolve_request(p).map_err(|e| format!("parse: {e}"))
            });
            match r {
                Err(p) => ctx.violation(format!("closure:{}", p.signature()), detail(json!({"tx": tx_name, "panic": p.message}))),
                Ok(Err(e)) => {
                    if clean {
                        ctx.violation(format!("closure:request-refused:{}", crate::props::c01::err_sig(&e)), detail(json!({"tx": tx_name, "error": e, "request_args": doc["args"], "request_env": doc["env"]})));
                    } else {
                        ctx.count("closure/refused-after-name-violation");
                    }
                }
                Ok(Ok((tir, map))) => {
                    ctx.count("closure/request-accepted");
                    for (k, _) in ir_keys.iter() {
                        if unsupported.contains(k) {
                            ctx.count("closure/param-of-non-json-type");
                            continue;
                        }
                        match (map.get(k), supplied.get(k)) {
                            (Some(got), Some(want)) => {
                                if !arg_eq(got, want) && clean {
                                    ctx.violation("closure:value-differs", detail(json!({"tx": tx_name, "key": k, "got": format!("{got:?}").chars().take(200).collect::<String>(), "supplied": format!("{want:?}").chars().take(200).collect::<String>()})));
                                }
                            }
                            (None, _) if clean => ctx.violation("closure:required-key-not-supplied", detail(json!({"tx": tx_name, "key": k}))),
                            _ => {}
                        }
                    }
                    let after = crate::panics::catch(|| apply_args(tir, &map).map(|t| find_params(&t)));
                    match after {
                        Ok(Ok(rest)) => {
                            let rest: Vec<&String> = rest.keys().filter(|k| !unsupported.contains(*k)).collect();
                            if !rest.is_empty() && clean {
                                ctx.violation("closure:parameter-remains", detail(json!({"tx": tx_name, "remaining": rest})));
                            }
                            if rest.is_empty() {
                                ctx.count("closure/closed");
                            }
                        }
                        Ok(Err(e)) => {
                            if clean {
                                ctx.violation(format!("closure:apply-args-refused:{}", crate::props::c01::err_sig(&e.to_string())), detail(json!({"tx": tx_name, "error": e.to_string()})));
                            }
                        }
                        Err(p) => ctx.violation(format!("closure:{}", p.signature()), detail(json!({"tx": tx_name, "panic": p.message}))),
                    }
                }
            }
            if !ir_keys.is_empty() && declared_all.len() >= 2 {
                ctx.nontrivial(fnv64(format!("{tx_name}\n{src}").as_bytes()));
            }
            if idx % 37 == 0 {
                ctx.sample(|| json!({"source": src, "tx": tx_name, "declared": declared_all.iter().map(|(k, n)| format!("{k}:{n}")).collect::<Vec<_>>(), "ir_requires": ir_keys.keys().collect::<Vec<_>>()}));
            }
        }
    }
}

impl C17 {
    /// Parameters typed by records, variants and aliases of them (alone or next to aliases of primitive types):
    /// every key the embedded IR requires must be declared by the interface.
    fn typed_params(&self, ctx: &mut Ctx, idx: u64, rng: &mut Rng) {
        let mut src = String::from("party Owner;\ntype Proof { a: Int, b: Bytes, }\ntype Choice { Yes { n: Int, }, No, }\n");
        let chain = rng.usize(4); // 0 = no alias
        let base = *rng.pick(&["Proof", "Choice"]);
        let mut last = base.to_string();
        for k in 0..chain {
            src.push_str(&format!("type Alias{k}x = {last};\n"));
            last = format!("Alias{k}x");
        }
        if rng.bool() {
            src.push_str("type Lovelace = Int;\n");
        }
        if rng.chance(1, 3) {
            src.push_str("type Blob = Bytes;\ntype Blob2 = Blob;\n");
        }
        let pty = match rng.below(4) {
            0 => format!("List<{last}>"),
            1 => format!("Map<Int, {last}>"),
            _ => last.clone(),
        };
        let pname = *rng.pick(&["proof", "Proof2", "PROOF_X", "pr"]);
        let extra = if src.contains("Lovelace") && rng.bool() { ", tip: Lovelace" } else { "" };
        src.push_str(&format!("tx settle(q: Int, {pname}: {pty}{extra}) {{\n  input s {{ from: Owner, min_amount: Ada(q), }}\n  output {{ to: Owner, amount: s - fees{}, datum: {pname}, }}\n}}\n", if extra.is_empty() { "" } else { " - Ada(tip)" }));
        let Ok(low) = front(&src, "settle") else {
            ctx.count("typed-params/front-rejected");
            return;
        };
        let dir = scratch_dir("C17tp");
        let src_path = dir.join(format!("tp{idx}.tx3"));
        let out_path = dir.join(format!("tp{idx}.tii"));
        if std::fs::write(&src_path, &src).is_err() {
            return;
        }
        let env = Env::from_env();
        let o = std::process::Command::new(&env.tx3c).arg("build").arg(&src_path).arg("--emit").arg("tii").arg("-o").arg(&out_path).stdin(std::process::Stdio::null()).output();
        let text = std::fs::read_to_string(&out_path);
        let _ = std::fs::remove_file(&src_path);
        let _ = std::fs::remove_file(&out_path);
        let _ = std::fs::remove_dir(&dir);
        let (Ok(o), Ok(text)) = (o, text) else {
            ctx.count("typed-params/cli-failed");
            return;
        };
        if !o.status.success() {
            ctx.count("typed-params/cli-failed");
            return;
        }
        let Ok(tii) = serde_json::from_str::<Value>(&text) else {
            ctx.violation("tii-not-json", json!({"source": src}));
            return;
        };
        ctx.eval();
        ctx.count("typed-params/checked");
        ctx.nontrivial_str(&src);
        let declared: BTreeSet<String> = tii["transactions"]["settle"].get("params").map(props_of).unwrap_or_default().into_keys().chain(tii.get("parties").and_then(|p| p.as_object()).map(|o| o.keys().cloned().collect::<Vec<_>>()).unwrap_or_default()).chain(tii.get("environment").map(props_of).unwrap_or_default().into_keys()).collect();
        for k in find_params(&low).keys() {
            if !declared.contains(k) {
                ctx.violation("undeclared:param:typed-by-record-or-alias", json!({"source": src, "ir_requires": k, "declared": declared, "tii": text.chars().take(3000).collect::<String>()}));
            }
        }
    }
}

impl Property for C17 {
    fn id(&self) -> &'static str {
        "C17"
    }
    fn rule(&self) -> String {
        "the real `tx3c build <src> --emit tii` binary is run (one process per program) on generated programs whose parameters, env vars and parties are re-spelled in lower / UPPER / mixed case, with unused parameters / env vars / parties, locals spelled like a parameter up to letter case, policies of every form, optional --profile / --profile-env-file flags and, in the collision phase, two declared names made equal up to case; the file is read as JSON and for every tx: the envelope decodes (declared encoding and version) to an IR equal to lower(P, tx) computed in-process, both through the canonical serialisation and read field by field; every key of find_params(decoded IR) is declared as a parameter, party or environment entry under the identical spelling (a case-insensitive match only is `spelling`, none is `undeclared`), is declared in one section only and no other declared key equals it up to case (`collision`); a request built from exactly the declared keys (values typed by the declared schemas; parties and parameters in args, environment in env) passes parse_resolve_request, returns every required key with the supplied value and leaves no value parameter after apply_args. typed-params: hand-shaped programs whose tx takes a parameter typed by a record, a variant, a chain of 0..3 aliases of one, or a list / map of it (next to, or without, aliases of primitive types) and uses it as a datum: every key the embedded IR requires must be declared. In the collision phase any two declarations visible to one tx whose keys are equal up to letter case (incl. an env var plus two parameters spelled alike, and an env var shadowed exactly by a parameter of one tx while a parameter of another tx spells the key differently) must be refused by the analyzer, a parameter spelled exactly like an env var excepted. Non-trivial: the IR requires >= 1 key and >= 2 keys are declared; distinct = distinct (source, tx).".into()
    }
    fn assumptions(&self) -> Vec<String> {
        vec![
            "declared-but-unused keys are allowed (the statement asks for a superset on the interface side)".into(),
            "a collision counts only when the IR requires the collapsed key".into(),
            "a program the in-process front end accepts but tx3c refuses yields no file to judge: reported as inconclusive, not as a violation".into(),
            "parameters whose declared type has no JSON argument encoding (records, lists, maps) are not supplied and not required to close".into(),
        ]
    }
    fn phases(&self, tier: Tier) -> Vec<Phase> {
        match tier {
            Tier::Quick => vec![Phase::new("spelling", 8_000, Profile::Release).budget(60_000), Phase::new("collision", 4_000, Profile::Release).budget(60_000), Phase::new("typed-params", 400, Profile::Release).budget(60_000)],
            Tier::Thorough => vec![Phase::new("spelling", 400_000, Profile::Release).budget(60_000), Phase::new("collision", 200_000, Profile::Release).budget(60_000), Phase::new("typed-params", 20_000, Profile::Release).budget(60_000)],
        }
    }
    fn required_features(&self, _tier: Tier) -> Vec<String> {
        let mut v: Vec<String> = ["cli/ok", "closure/closed", "feature/unused-param", "feature/unused-env", "feature/env-vars", "feature/policy-assign", "feature/policy-hash-only", "feature/policy-with-script", "cli/profile-env-file", "cli/profile-flag", "typed-params/checked", "collision-attempt/env+param+param", "collision-attempt/env+shadow+case-variant-in-another-tx", "feature/local-named-like-parameter-up-to-case"].iter().map(|s| s.to_string()).collect();
        for k in ["env", "party", "param"] {
            for s in ["lower", "upper", "mixed"] {
                v.push(format!("style/{k}/{s}"));
            }
        }
        v
    }
    fn run_case(&self, ctx: &mut Ctx, phase: &str, idx: u64, rng: &mut Rng) {
        if phase == "typed-params" {
            return self.typed_params(ctx, idx, rng);
        }
        self.one(ctx, idx, rng, phase == "collision");
    }
}
