//! C18 — lowering and encoding are deterministic (within one process and across processes).
//!
//! Observed histories: 20 in-process repetitions of parse -> analyse -> lower -> to_bytes, three fresh
//! processes doing the same (each process draws new hash seeds), and three runs of the real
//! `tx3c build --emit tii` binary (different output paths, one of them from a copy of the source in
//! another directory). The monitor keeps the set of distinct byte strings per artifact; it must have
//! exactly one member.

use crate::framework::*;
use crate::gen::ast::{print_program, Layout};
use crate::gen::build::{self, Cfg};
use crate::rng::{fnv64, Rng};
use serde_json::json;
use std::collections::{BTreeMap, BTreeSet};
use std::path::{Path, PathBuf};

pub struct C18;

const REPS: usize = 20;

/// One pass of the front end: per tx (in source order) the encoded IR, or the class of the failure.
pub fn lower_all(src: &str) -> Result<Vec<(String, Vec<u8>)>, String> {
    let r = crate::panics::catch(|| {
        let mut prog = tx3_lang::parsing::parse_string(src).map_err(|_| "parse-error".to_string())?;
        let report = tx3_lang::analyzing::analyze(&mut prog);
        if !report.errors.is_empty() {
            return Err("analyze-error".to_string());
        }
        let mut out = vec![];
        for tx in &prog.txs {
            let name = tx.name.value.clone();
            let t = tx3_lang::lowering::lower(&prog, &name).map_err(|_| "lower-error".to_string())?;
            out.push((name, tx3_tir::encoding::to_bytes(&t).0));
        }
        Ok(out)
    });
    match r {
        Ok(x) => x,
        Err(p) => Err(p.signature()),
    }
}

/// `tx3-verif lower-bytes <file>`: one line per tx, "<name> <hex>", or "ERR <class>"
pub fn lower_bytes_cli(path: &str) {
    crate::panics::install_hook();
    let src = std::fs::read_to_string(path).unwrap_or_default();
    match lower_all(&src) {
        Ok(v) => {
            for (n, b) in v {
                println!("{n} {}", hex::encode(b));
            }
        }
        Err(e) => println!("ERR {e}"),
    }
}

/// path (text keys only) of the first difference between two CBOR documents
fn first_diff(a: &ciborium::Value, b: &ciborium::Value, path: &mut Vec<String>) -> Option<Vec<String>> {
    use ciborium::Value as V;
    match (a, b) {
        (V::Array(x), V::Array(y)) => {
            if x.len() != y.len() {
                return Some(path.clone());
            }
            for (p, q) in x.iter().zip(y) {
                if let Some(d) = first_diff(p, q, path) {
                    return Some(d);
                }
            }
            None
        }
        (V::Map(x), V::Map(y)) => {
            if x.len() != y.len() {
                return Some(path.clone());
            }
            for ((k1, v1), (k2, v2)) in x.iter().zip(y) {
                if k1 != k2 {
                    // the order (or the set) of keys differs
                    return Some(path.clone());
                }
                if let V::Text(t) = k1 {
                    path.push(t.clone());
                }
                let d = first_diff(v1, v2, path);
                if let V::Text(_) = k1 {
                    path.pop();
                }
                if d.is_some() {
                    return d;
                }
            }
            None
        }
        (V::Tag(t1, x), V::Tag(t2, y)) if t1 == t2 => first_diff(x, y, path),
        (x, y) => {
            if x == y {
                None
            } else {
                Some(path.clone())
            }
        }
    }
}

fn ir_diff_node(a: &[u8], b: &[u8]) -> String {
    let (Ok(x), Ok(y)) = (ciborium::from_reader::<ciborium::Value, _>(a), ciborium::from_reader::<ciborium::Value, _>(b)) else {
        return "undecodable".into();
    };
    match first_diff(&x, &y, &mut vec![]) {
        Some(p) => {
            let n = p.len();
            if n == 0 {
                "root".into()
            } else {
                p[n.saturating_sub(2)..].join(".")
            }
        }
        None => "encoding-only".into(),
    }
}

fn json_diff_path(a: &serde_json::Value, b: &serde_json::Value, path: &mut Vec<String>) -> Option<Vec<String>> {
    use serde_json::Value as V;
    match (a, b) {
        (V::Object(x), V::Object(y)) => {
            let kx: Vec<&String> = x.keys().collect();
            let ky: Vec<&String> = y.keys().collect();
            if kx != ky {
                return Some(path.clone());
            }
            for (k, v) in x {
                path.push(k.clone());
                let d = json_diff_path(v, &y[k], path);
                path.pop();
                if d.is_some() {
                    return d;
                }
            }
            None
        }
        (V::Array(x), V::Array(y)) => {
            if x.len() != y.len() {
                return Some(path.clone());
            }
            for (p, q) in x.iter().zip(y) {
                if let Some(d) = json_diff_path(p, q, path) {
                    return Some(d);
                }
            }
            None
        }
        (x, y) => {
            if x == y {
                None
            } else {
                Some(path.clone())
            }
        }
    }
}

/// generic description of where two TII files differ: top-level section + last key, names of
/// transactions / profiles / parameters replaced by `*`
fn tii_diff_node(a: &[u8], b: &[u8]) -> String {
    let (Ok(x), Ok(y)) = (serde_json::from_slice::<serde_json::Value>(a), serde_json::from_slice::<serde_json::Value>(b)) else {
        return "not-json".into();
    };
    match json_diff_path(&x, &y, &mut vec![]) {
        None => "formatting-or-key-order".into(),
        Some(p) if p.is_empty() => "root".into(),
        Some(p) => {
            let generic: Vec<String> = p
                .iter()
                .enumerate()
                .map(|(i, s)| {
                    let named_child = i > 0 && matches!(p[i - 1].as_str(), "transactions" | "profiles" | "parties" | "properties");
                    if named_child {
                        "*".to_string()
                    } else {
                        s.clone()
                    }
                })
                .collect();
            generic.join(".")
        }
    }
}

fn example_files(repo: &Path) -> Vec<PathBuf> {
    let mut v: Vec<PathBuf> = std::fs::read_dir(repo.join("examples"))
        .map(|d| d.filter_map(|e| e.ok()).map(|e| e.path()).filter(|p| p.extension().map(|x| x == "tx3").unwrap_or(false)).collect())
        .unwrap_or_default();
    v.sort();
    v
}

impl C18 {
    fn gen_cfg() -> Cfg {
        Cfg { cardano_pct: 85, max_txs: 3, mint_pct: 50, ..Default::default() }
    }

    /// The same source through the `Workspace` facade after a random history of its operations (parse,
    /// analyze, lower, ensure_tir, apply_args with type-correct arguments, repeated in any order): a final
    /// `lower()` must give, for every tx, the bytes a fresh front-end pass gives.
    fn facade_history(&self, ctx: &mut Ctx, src: &str, base: &[(String, Vec<u8>)], rng: &mut Rng) {
        use tx3_lang::Workspace;
        use tx3_tir::model::core::Type;
        use tx3_tir::reduce::ArgValue;
        let steps = 1 + rng.usize(6);
        let mut history: Vec<String> = vec![];
        let r = crate::panics::catch(|| {
            let mut w = Workspace::from_string(src.to_string());
            let mut log = vec![];
            for _ in 0..steps {
                match rng.below(6) {
                    0 => {
                        log.push(format!("parse:{}", w.parse().is_ok()));
                    }
                    1 => {
                        log.push(format!("analyze:{}", w.analyze().is_ok()));
                    }
                    2 => {
                        log.push(format!("lower:{}", w.lower().is_ok()));
                    }
                    3 => {
                        log.push(format!("ensure_tir:{}", w.ensure_tir().is_ok()));
                    }
                    _ => {
                        // arguments for the parameters the (currently held) IRs report
                        let _ = w.ensure_tir();
                        let mut args = std::collections::BTreeMap::new();
                        for (n, _) in base {
                            if let Some(t) = w.tir(n) {
                                for (k, ty) in tx3_tir::reduce::find_params(t) {
                                    if rng.chance(1, 4) {
                                        continue;
                                    }
                                    let v = match ty {
                                        Type::Int => ArgValue::Int(rng.range(0, 5_000_000) as i128),
                                        Type::Bool => ArgValue::Bool(rng.bool()),
                                        Type::Bytes => ArgValue::Bytes(rng.bytes(28)),
                                        Type::Address => {
                                            let mut a = vec![0x60];
                                            a.extend(rng.bytes(28));
                                            ArgValue::Address(a)
                                        }
                                        Type::UtxoRef => ArgValue::UtxoRef(tx3_tir::model::core::UtxoRef { txid: rng.bytes(32), index: rng.below(4) as u32 }),
                                        _ => continue,
                                    };
                                    args.insert(k, v);
                                }
                            }
                        }
                        let n = args.len();
                        log.push(format!("apply_args({n}):{}", w.apply_args(&args).is_ok()));
                    }
                }
            }
            let last = w.lower();
            log.push(format!("lower:{}", match &last { Ok(()) => "true".to_string(), Err(e) => format!("false({})", crate::props::c01::err_sig(&e.to_string())) }));
            let out: Vec<(String, Option<Vec<u8>>)> = base.iter().map(|(n, _)| (n.clone(), w.tir(n).map(|t| tx3_tir::encoding::to_bytes(t).0))).collect();
            (log, out)
        });
        ctx.eval();
        ctx.count("ir/facade-histories");
        match r {
            Err(p) => ctx.violation(format!("facade-{}", p.signature()), json!({"source": src, "panic": p.message})),
            Ok((log, out)) => {
                history = log;
                if history.iter().any(|h| h.starts_with("apply_args(") && !h.starts_with("apply_args(0)") && h.ends_with("true")) {
                    ctx.count("ir/facade-histories-with-applied-args");
                }
                if !history.last().map(|h| h == "lower:true").unwrap_or(false) {
                    // the program is accepted (a fresh pass lowered it): the facade must lower it too
                    ctx.violation("nondeterministic:outcome:facade-history:lower-failed", json!({"source": src, "history": history}));
                    return;
                }
                for ((n, b), (_, got)) in base.iter().zip(out.iter()) {
                    match got {
                        Some(g) if g == b => {}
                        Some(g) => ctx.violation(
                            format!("nondeterministic:ir:facade-history:{}", ir_diff_node(b, g)),
                            json!({"source": src, "tx": n, "history": history, "fresh": hex::encode(b), "after_history": hex::encode(g)}),
                        ),
                        None => ctx.violation("nondeterministic:ir:facade-history:tx-missing", json!({"source": src, "tx": n, "history": history})),
                    }
                }
            }
        }
    }

    fn check_source(&self, ctx: &mut Ctx, src: &str, origin: &str, idx: u64, rng: &mut Rng, with_processes: bool) {
        // --- in-process repetitions
        let first = lower_all(src);
        let base = match &first {
            Ok(v) => v.clone(),
            Err(e) => {
                ctx.count(&format!("front/{}/{}", origin, if e.starts_with("panic") { "panic" } else { e.as_str() }));
                // the outcome itself must be reproducible
                for _ in 0..3 {
                    if lower_all(src).as_ref().err() != Some(e) {
                        ctx.violation("nondeterministic:outcome:in-process", json!({"source": src, "first": e}));
                    }
                }
                return;
            }
        };
        if base.is_empty() {
            ctx.count("front/no-tx");
            return;
        }
        ctx.count(&format!("programs/{origin}"));
        let mut distinct: BTreeMap<String, BTreeSet<Vec<u8>>> = BTreeMap::new();
        for (n, b) in &base {
            distinct.entry(n.clone()).or_default().insert(b.clone());
        }
        for _ in 1..REPS {
            match lower_all(src) {
                Ok(v) => {
                    for (n, b) in v {
                        distinct.entry(n).or_default().insert(b);
                    }
                }
                Err(e) => ctx.violation("nondeterministic:outcome:in-process", json!({"source": src, "first": "ok", "later": e})),
            }
        }
        let mut adhoc_multi = false;
        for (n, b) in &base {
            ctx.eval();
            ctx.count("ir/in-process-histories");
            // does this IR hold an ad-hoc directive with >= 2 fields (the hash-map the anchors name)?
            if let Ok(tx3_tir::encoding::AnyTir::V1Beta0(t)) = tx3_tir::encoding::from_bytes(b, tx3_tir::encoding::TirVersion::V1Beta0) {
                let m = t.adhoc.iter().map(|d| d.data.len()).max().unwrap_or(0);
                if m >= 2 {
                    adhoc_multi = true;
                    ctx.count("feature/adhoc-directive-with>=2-fields");
                }
                if m >= 4 {
                    ctx.count("feature/adhoc-directive-with>=4-fields");
                }
                if t.adhoc.len() >= 2 {
                    ctx.count("feature/>=2-adhoc-directives");
                }
            }
            let set = &distinct[n];
            if set.len() != 1 {
                let other = set.iter().find(|x| *x != b).unwrap();
                ctx.violation(
                    format!("nondeterministic:ir:in-process:{}", ir_diff_node(b, other)),
                    json!({"source": src, "tx": n, "distinct_encodings": set.len(), "repetitions": REPS, "one": hex::encode(b), "another": hex::encode(other)}),
                );
            }
        }
        self.facade_history(ctx, src, &base, rng);
        if adhoc_multi || base.len() >= 2 {
            ctx.nontrivial(fnv64(src.as_bytes()));
        }
        if idx % 53 == 0 {
            ctx.sample(|| json!({"origin": origin, "source": src, "txs": base.iter().map(|(n, b)| json!({"tx": n, "ir_len": b.len()})).collect::<Vec<_>>(), "repetitions": REPS}));
        }
        if !with_processes {
            return;
        }

        // --- fresh processes
        let env = Env::from_env();
        let dir = crate::props::c17::scratch_dir("C18");
        let dir2 = dir.join(format!("copy{idx}"));
        let _ = std::fs::create_dir_all(&dir2);
        let src_path = dir.join(format!("p{idx}.tx3"));
        let src_copy = dir2.join(format!("p{idx}.tx3"));
        if std::fs::write(&src_path, src).is_err() || std::fs::write(&src_copy, src).is_err() {
            ctx.inconclusive("cannot-write-source");
            return;
        }
        let mut outs = vec![];
        for _ in 0..3 {
            let o = std::process::Command::new(env.worker_bin(Profile::Release))
                .arg("lower-bytes")
                .arg(&src_path)
                .stdin(std::process::Stdio::null())
                .stderr(std::process::Stdio::null())
                .output();
            match o {
                Ok(o) if o.status.success() => outs.push(String::from_utf8_lossy(&o.stdout).to_string()),
                _ => ctx.inconclusive("lower-bytes-process-failed"),
            }
        }
        if outs.len() == 3 {
            ctx.count("ir/process-histories");
            let mine: String = base.iter().map(|(n, b)| format!("{n} {}\n", hex::encode(b))).collect();
            for o in &outs {
                if *o != mine {
                    // find the tx and node
                    let parse = |s: &str| -> BTreeMap<String, Vec<u8>> { s.lines().filter_map(|l| l.split_once(' ')).filter_map(|(n, h)| Some((n.to_string(), hex::decode(h).ok()?))).collect() };
                    let theirs = parse(o);
                    let mut node = "outcome".to_string();
                    for (n, b) in &base {
                        if let Some(t) = theirs.get(n) {
                            if t != b {
                                node = ir_diff_node(b, t);
                                break;
                            }
                        }
                    }
                    ctx.violation(format!("nondeterministic:ir:across-processes:{node}"), json!({"source": src, "this_process": mine, "fresh_process": o}));
                    break;
                }
            }
        }

        // --- the CLI artifact
        let mut files: Vec<Vec<u8>> = vec![];
        // profile names (several spellings of one name on purpose) for --profile flags and env files; the env
        // files carry values for the program's real env vars and parties, so that what a profile holds matters
        const NAMES: [&str; 10] = ["preview", "Preview", "PREVIEW", "mainnet", "Mainnet", "zeta", "local", "Local", "dev", "Dev"];
        let profiles = rng.below(4);
        let flags: Vec<&str> = (0..profiles).map(|_| *rng.pick(&NAMES)).collect();
        let mut keys: Vec<String> = vec![];
        if let Ok(Ok(ast)) = crate::panics::catch(|| tx3_lang::parsing::parse_string(src)) {
            if let Some(e) = &ast.env {
                keys.extend(e.fields.iter().map(|f| f.name.clone()));
            }
            keys.extend(ast.parties.iter().map(|p| p.name.value.clone()));
        }
        let n_dot = if keys.is_empty() { 0 } else { rng.below(3) as usize };
        let mut dots: Vec<(String, std::path::PathBuf)> = vec![];
        for d in 0..n_dot {
            // the same base name as a flag, in another spelling, half of the time
            let name = if !flags.is_empty() && rng.bool() {
                let f = *rng.pick(&flags);
                (*rng.pick(&[f.to_lowercase(), f.to_uppercase(), f.to_string()])).clone()
            } else {
                rng.pick(&NAMES).to_string()
            };
            let path = dir.join(format!("p{idx}.{d}.env"));
            let mut text = String::new();
            for k in &keys {
                if rng.chance(2, 3) {
                    let spelled = if rng.bool() { k.to_uppercase() } else { k.clone() };
                    text.push_str(&format!("{spelled}={}\n", *rng.pick(&["1", "true", "addr_test1vq0000", "xyz", "42"])));
                }
            }
            text.push_str("UNRELATED=1\n");
            let _ = std::fs::write(&path, text);
            dots.push((name, path));
        }
        let use_dot = !dots.is_empty();
        if use_dot {
            ctx.count("tii/histories-with-env-file");
            let all: Vec<String> = flags.iter().map(|f| f.to_lowercase()).chain(dots.iter().map(|(n, _)| n.to_lowercase())).collect();
            let spellings: std::collections::BTreeSet<String> = flags.iter().map(|f| f.to_string()).chain(dots.iter().map(|(n, _)| n.clone())).collect();
            let lowered: std::collections::BTreeSet<&String> = all.iter().collect();
            if lowered.len() < spellings.len() {
                ctx.count("tii/histories-with-one-profile-in-two-spellings");
            }
        }
        for k in 0..3 {
            let out = dir.join(format!("p{idx}.run{k}.tii"));
            if k == 1 && !files.is_empty() && rng.bool() {
                // an incremental build directory: the output path already holds an older, longer artifact
                let mut stale = files[0].clone();
                stale.extend_from_slice(b"\n{\"stale\": \"tail of a previous, longer artifact\"}\n");
                let _ = std::fs::write(&out, stale);
                ctx.count("tii/histories-over-a-stale-longer-file");
            }
            let mut cmd = std::process::Command::new(&env.tx3c);
            cmd.arg("build").arg(if k == 2 { &src_copy } else { &src_path }).arg("--emit").arg("tii").arg("-o").arg(&out);
            for f in &flags {
                cmd.arg("--profile").arg(f);
            }
            for (n, pth) in &dots {
                cmd.arg("--profile-env-file").arg(format!("{n}:{}", pth.display()));
            }
            let o = cmd.stdin(std::process::Stdio::null()).stdout(std::process::Stdio::null()).stderr(std::process::Stdio::null()).status();
            match o {
                Ok(s) if s.success() => {
                    if let Ok(b) = std::fs::read(&out) {
                        files.push(b);
                    }
                }
                _ => {}
            }
            let _ = std::fs::remove_file(&out);
            if k == 0 && idx % 40 == 0 {
                // a clock with one-second resolution leaking into the artifact would show here
                std::thread::sleep(std::time::Duration::from_millis(1100));
                ctx.count("tii/histories-spanning-a-second");
            }
        }
        let _ = std::fs::remove_file(&src_path);
        let _ = std::fs::remove_file(&src_copy);
        for (_, pth) in &dots {
            let _ = std::fs::remove_file(pth);
        }
        let _ = std::fs::remove_dir(&dir2);
        let _ = std::fs::remove_dir(&dir);
        if files.len() == 3 {
            ctx.eval();
            ctx.count("tii/histories");
            if profiles >= 2 {
                ctx.count("tii/histories-with>=2-profiles");
            }
            for f in &files[1..] {
                if *f != files[0] {
                    ctx.violation(
                        format!("nondeterministic:tii:{}", tii_diff_node(&files[0], f)),
                        json!({"source": src, "run0": String::from_utf8_lossy(&files[0]).chars().take(4000).collect::<String>(), "other_run": String::from_utf8_lossy(f).chars().take(4000).collect::<String>()}),
                    );
                    break;
                }
            }
        } else if !files.is_empty() {
            ctx.violation("nondeterministic:tii:outcome", json!({"source": src, "successful_runs_of_3": files.len()}));
        } else {
            ctx.count("tii/cli-refused");
        }
    }
}

impl Property for C18 {
    fn id(&self) -> &'static str {
        "C18"
    }
    fn rule(&self) -> String {
        format!("for every example program of the repository and for generated programs weighted towards chain-specific directives with several fields (withdrawal, plutus_witness, publish, vote delegation, ...), 1-3 txs: the set of distinct byte strings of to_bytes(lower(analyze(parse(s)))) over {REPS} in-process repetitions and over 3 fresh processes (new hash seeds each) has one member per tx, and the .tii file written by 3 runs of the real tx3c binary (distinct output paths - one of them already holding an older, longer artifact in half of the histories -, one run from a copy of the source in another directory, 0-3 --profile flags and 0-2 --profile-env-file arguments whose profile names come in several spellings of one name and whose files give values to the program's real env vars and parties, some histories spanning more than a second) is one byte string. A difference is located by walking the two CBOR / JSON documents in parallel. Non-trivial: the program has an ad-hoc directive with >= 2 fields or >= 2 txs; distinct = distinct sources.")
    }
    fn assumptions(&self) -> Vec<String> {
        vec!["every process start draws fresh hash seeds (std RandomState), so three processes sample three seeds; in one process every new HashMap gets a new seed as well".into()]
    }
    fn phases(&self, tier: Tier) -> Vec<Phase> {
        match tier {
            Tier::Quick => vec![
                Phase::new("examples", 64, Profile::Release).budget(60_000),
                Phase::new("generated", 500, Profile::Release).budget(60_000),
                Phase::new("generated-in-process", 3_000, Profile::Release).budget(60_000),
            ],
            Tier::Thorough => vec![
                Phase::new("examples", 64, Profile::Release).budget(60_000),
                Phase::new("generated", 20_000, Profile::Release).budget(60_000),
                Phase::new("generated-in-process", 150_000, Profile::Release).budget(60_000),
            ],
        }
    }
    fn required_features(&self, _tier: Tier) -> Vec<String> {
        ["programs/example", "programs/generated", "ir/in-process-histories", "ir/facade-histories-with-applied-args", "ir/process-histories", "tii/histories", "tii/histories-with>=2-profiles", "tii/histories-with-env-file", "tii/histories-with-one-profile-in-two-spellings", "tii/histories-over-a-stale-longer-file", "feature/adhoc-directive-with>=2-fields", "feature/adhoc-directive-with>=4-fields", "feature/>=2-adhoc-directives"]
            .iter()
            .map(|s| s.to_string())
            .collect()
    }
    fn run_case(&self, ctx: &mut Ctx, phase: &str, idx: u64, rng: &mut Rng) {
        match phase {
            "examples" => {
                let env = Env::from_env();
                let files = example_files(&env.repo_dir);
                let Some(f) = files.get(idx as usize) else { return };
                let Ok(src) = std::fs::read_to_string(f) else { return };
                ctx.count("examples/read");
                self.check_source(ctx, &src, "example", idx, rng, true);
            }
            _ => {
                let g = build::generate(rng, &Self::gen_cfg());
                let layout = if rng.chance(1, 4) { Layout::random(rng.next_u64()) } else { Layout::plain() };
                let src = print_program(&g.prog, layout);
                self.check_source(ctx, &src, "generated", idx, rng, phase == "generated");
            }
        }
    }
}
