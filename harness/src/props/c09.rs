//! C09 — datums and redeemers are encoded as standard Plutus Data.

use crate::decode::tx as txview;
use crate::env::PP;
use crate::framework::*;
use crate::gen::ast::*;
use crate::gen::build::{self, Builder, Cfg, Decl, Generated, Role, TxMeta};
use crate::gen::sem::{Sem, PD};
use crate::pipeline::{back_assigned, front};
use crate::props::c01::{err_sig, world_json};
use crate::rng::{fnv64, Rng};
use num_bigint::BigInt;
use num_traits::Signed;
use serde_json::json;

pub struct C09;

fn index_class(i: u64) -> &'static str {
    match i {
        0..=6 => "0-6",
        7..=127 => "7-127",
        _ => ">=128",
    }
}

fn int_class(n: &BigInt) -> &'static str {
    let a = n.abs();
    if a < (BigInt::from(1u8) << 63usize) {
        "<2^63"
    } else if a <= (BigInt::from(1u8) << 64usize) {
        "2^63..2^64"
    } else {
        ">2^64"
    }
}

/// first difference between expected and decoded data, as a signature fragment
fn pd_diff(e: &PD, g: &PD) -> Option<String> {
    match (e, g) {
        (PD::Constr(i, fe), PD::Constr(j, fg)) => {
            if i != j {
                return Some(format!("constr-index:{}", index_class(*i)));
            }
            if fe.len() != fg.len() {
                return Some("field-count".into());
            }
            fe.iter().zip(fg).find_map(|(a, b)| pd_diff(a, b)).map(|s| if s.starts_with("constr") || s.starts_with("int") || s.starts_with("bytes") { s } else { format!("field-order-or-{s}") })
        }
        (PD::Int(a), PD::Int(b)) => {
            if a != b {
                Some(format!("int:{}", int_class(a)))
            } else {
                None
            }
        }
        (PD::Bytes(a), PD::Bytes(b)) => {
            if a != b {
                Some(format!("bytes:{}", if a.len() > 64 { ">64" } else { "<=64" }))
            } else {
                None
            }
        }
        (PD::List(a), PD::List(b)) => {
            if a.len() != b.len() {
                return Some("list-length".into());
            }
            a.iter().zip(b).find_map(|(x, y)| pd_diff(x, y))
        }
        (PD::Map(a), PD::Map(b)) => {
            if a.len() != b.len() {
                return Some("map-length".into());
            }
            a.iter().zip(b).find_map(|((k1, v1), (k2, v2))| pd_diff(k1, k2).or_else(|| pd_diff(v1, v2)))
        }
        _ => Some("shape".into()),
    }
}

fn max_index(p: &PD) -> u64 {
    match p {
        PD::Constr(i, f) => f.iter().map(max_index).max().unwrap_or(0).max(*i),
        PD::List(x) => x.iter().map(max_index).max().unwrap_or(0),
        PD::Map(x) => x.iter().map(|(k, v)| max_index(k).max(max_index(v))).max().unwrap_or(0),
        _ => 0,
    }
}

/// hand-built program: a variant type with `n` cases, case `k` (with `nf` Int/Bytes fields) used as an
/// output datum and as a spend redeemer
fn index_program(n: usize, k: usize, nf: usize) -> Generated {
    let mut cases = vec![];
    for i in 0..n {
        let fields = if i == k { (0..nf).map(|j| (format!("fld{i}x{j}"), if j % 2 == 0 { Ty::Int } else { Ty::Bytes })).collect() } else { vec![] };
        cases.push(Case { name: format!("Case{i}"), fields });
    }
    let def_fields: Vec<String> = cases[k].fields.iter().map(|(f, _)| f.clone()).collect();
    let value = || E::Struct {
        ty: "Big".into(),
        case: Some(format!("Case{k}")),
        case_index: k,
        def_fields: def_fields.clone(),
        fields: def_fields.iter().enumerate().map(|(j, f)| (f.clone(), if j % 2 == 0 { E::Param("q".into()) } else { E::Hex(vec![j as u8; j + 1]) })).collect(),
        spread: None,
    };
    let prog = Program {
        parties: vec!["Owner".into()],
        types: vec![TypeDef { name: "Big".into(), record: false, cases }],
        txs: vec![TxDef {
            name: "t".into(),
            params: vec![("q".into(), Ty::Int)],
            inputs: vec![Input { name: "src".into(), from: Some(E::Party("Owner".into())), redeemer: Some(value()), ..Default::default() }],
            outputs: vec![Output { to: Some(E::Party("Owner".into())), amount: Some(E::Ada(Box::new(E::Int(2_000_000)))), datum: Some(value()), ..Default::default() }],
            ..Default::default()
        }],
        tags: vec!["index-sweep".into()],
        ..Default::default()
    };
    Generated {
        prog,
        env: vec![],
        parties: vec![Decl { name: "Owner".into(), ty: Ty::Address, role: Role::Addr }],
        txs: vec![TxMeta { params: vec![Decl { name: "q".into(), ty: Ty::Int, role: Role::BigInt }], inputs: vec![("src".into(), None, false)], has_collateral: false }],
    }
}

impl C09 {
    fn check(&self, ctx: &mut Ctx, g: &Generated, rng: &mut Rng, cfg: &Cfg, worlds: usize, phase: &str) {
        let src = print_program(&g.prog, Layout::plain());
        for (ti, txd) in g.prog.txs.iter().enumerate() {
            let tir = match front(&src, &txd.name) {
                Ok(t) => t,
                Err(e) => {
                    ctx.count(&format!("front/rejected/{}", e.class()));
                    ctx.eval();
                    ctx.violation(format!("rejected-program:{}:{}", e.class(), err_sig(&e.text())), json!({"source": src, "error": e.text()}));
                    continue;
                }
            };
            for _ in 0..worlds {
                let w = build::world(g, ti, rng, cfg);
                let Ok(exp) = Sem::new(&g.prog, &w).tx(txd) else {
                    ctx.count("world/undefined-denotation");
                    continue;
                };
                ctx.eval();
                let detail = |what: serde_json::Value| json!({"source": src.chars().take(6000).collect::<String>(), "world": world_json(&w), "observed": what, "phase": phase});
                let expected_data: Vec<&PD> = exp.outputs.iter().filter_map(|o| o.datum.as_ref()).chain(exp.redeemers.values()).collect();
                for d in &expected_data {
                    ctx.count(&format!("expected-index/{}", index_class(max_index(d))));
                }
                match back_assigned(&tir, &w, &PP::default()) {
                    Err(e) if e.text().contains("arithmetic overflow") => {
                        // the exact value of some Int expression does not fit the language's 128-bit
                        // integers: an error is the right outcome
                        ctx.count("back/i128-overflow-error");
                    }
                    Err(e) => {
                        ctx.count(&format!("back/{}", e.class()));
                        ctx.violation(format!("no-encoding:{}:{}", e.class(), err_sig(&e.text())), detail(json!({"error": e.text()})));
                    }
                    Ok(c) => {
                        // datum by datum, straight from the bytes
                        let root = match crate::decode::cbor::decode_all(&c.payload) {
                            Ok(r) => r,
                            Err(e) => {
                                ctx.violation("undecodable-payload", detail(json!({"error": e})));
                                continue;
                            }
                        };
                        let view = txview::view(&c.payload);
                        match view {
                            Err(e) => {
                                // classify: which expected constructor range was involved
                                let worst = expected_data.iter().map(|d| max_index(d)).max().unwrap_or(0);
                                ctx.violation(format!("undecodable-data:{}:index {}", err_sig(&e), index_class(worst)), detail(json!({"decode_error": e, "payload": hex::encode(&c.payload)})));
                            }
                            Ok(v) => {
                                ctx.count("decoded");
                                for (i, (eo, go)) in exp.outputs.iter().zip(v.tx.outputs.iter()).enumerate() {
                                    match (&eo.datum, &go.datum) {
                                        (Some(e), Some(g2)) => {
                                            ctx.count("datums-compared");
                                            if let Some(d) = pd_diff(e, g2) {
                                                ctx.violation(format!("datum:{d}"), detail(json!({"output": i, "expected": format!("{e:?}"), "decoded": format!("{g2:?}"), "bytes": v.datum_bytes[i].as_ref().map(hex::encode)})));
                                            }
                                        }
                                        (None, None) => {}
                                        (Some(_), None) => ctx.violation("datum:dropped", detail(json!({"output": i}))),
                                        (None, Some(_)) => ctx.violation("datum:spurious", detail(json!({"output": i}))),
                                    }
                                }
                                // redeemer data as a multiset (attachment is C08's subject)
                                let mut e: Vec<&PD> = exp.redeemers.values().collect();
                                let mut g2: Vec<&PD> = v.tx.redeemers.values().collect();
                                e.sort();
                                e.dedup();
                                g2.sort();
                                g2.dedup();
                                for x in &e {
                                    ctx.count("redeemers-compared");
                                    if !g2.contains(x) {
                                        let near = g2.iter().find_map(|y| pd_diff(x, y)).unwrap_or_else(|| "missing".into());
                                        ctx.violation(format!("redeemer:{near}"), detail(json!({"expected": format!("{x:?}"), "decoded": format!("{g2:?}")})));
                                    }
                                }
                                let _ = root;
                                if expected_data.iter().any(|d| !matches!(d, PD::Int(_) | PD::Bytes(_))) {
                                    ctx.nontrivial(fnv64(format!("{expected_data:?}").as_bytes()));
                                }
                                ctx.sample(|| json!({"source": src.chars().take(1500).collect::<String>(), "expected_data": expected_data.iter().map(|d| format!("{d:?}").chars().take(300).collect::<String>()).collect::<Vec<_>>()}));
                            }
                        }
                    }
                }
            }
        }
    }
}

impl Property for C09 {
    fn id(&self) -> &'static str {
        "C09"
    }
    fn rule(&self) -> String {
        "indices (exhaustive): for every constructor index k in 0..139, a variant type with 140 cases (and with k+1 cases) whose case k has 0..6 Int/Bytes fields, used as inline datum and as spend redeemer, integer fields from the i128 boundary distribution; values: generated programs with 1..4 types (records and variants up to 12 cases, nested records, lists, maps, bool, unit, address), datums on 1..4 outputs and a redeemer, integers over the whole i128 range via parameters, byte strings of 0..100 bytes, spread and field access from an input datum. Oracle: the independent Plutus-Data reader applied to the emitted bytes must yield the denoted value. Non-trivial: some expected datum is not a bare int/bytes; distinct = distinct expected data.".into()
    }
    fn assumptions(&self) -> Vec<String> {
        vec![
            "constructor tags per the Plutus Data CDDL: 121-127, 1280-1400, 102 with explicit index; definite and indefinite containers and chunked or plain byte strings are all accepted".into(),
            "redeemer data are compared as a multiset (which item a redeemer is attached to is C08's subject)".into(),
        ]
    }
    fn self_test(&self) -> Result<(), String> {
        crate::props::selftest::plutus_data_self_test()
    }
    fn phases(&self, tier: Tier) -> Vec<Phase> {
        match tier {
            Tier::Quick => vec![Phase::new("indices", 280, Profile::Release).exhaustive(), Phase::new("values", 3_000, Profile::Release)],
            Tier::Thorough => vec![Phase::new("indices", 280, Profile::Release).exhaustive(), Phase::new("values", 200_000, Profile::Release), Phase::new("values-checked", 40_000, Profile::Checked)],
        }
    }
    fn required_features(&self, _tier: Tier) -> Vec<String> {
        ["expected-index/0-6", "expected-index/7-127", "expected-index/>=128", "datums-compared", "redeemers-compared", "feature/datum-bigint-param", "feature/spread", "feature/variant-struct-case", "feature/map-literal"]
            .iter()
            .map(|s| s.to_string())
            .collect()
    }
    fn run_case(&self, ctx: &mut Ctx, phase: &str, idx: u64, rng: &mut Rng) {
        let cfg = Cfg { datum_focus: true, max_cases: 12, risky_pct: 0, cardano_pct: 0, ..Default::default() };
        if phase == "indices" {
            let k = (idx % 140) as usize;
            let n = if idx < 140 { 140 } else { k + 1 };
            let nf = (k + idx as usize / 140) % 7;
            let g = index_program(n, k, nf);
            self.check(ctx, &g, rng, &cfg, 3, phase);
        } else {
            let g = Builder::new(rng, cfg.clone()).datum_program();
            for t in &g.prog.tags {
                ctx.count(&format!("feature/{t}"));
            }
            self.check(ctx, &g, rng, &cfg, 3, phase);
        }
    }
}
