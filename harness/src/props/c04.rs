//! C04 — a transaction never spends one UTxO through two input blocks.

use crate::decode::tx as txview;
use crate::env::{self, LoggedStore, PP};
use crate::framework::*;
use crate::gen::ast::*;
use crate::pipeline::front;
use crate::props::c03::bound_set;
use crate::rng::{fnv64, Rng};
use serde_json::json;
use std::collections::BTreeMap;
use tx3_resolver::{inputs, resolve_tx};
use tx3_tir::encoding::AnyTir;
use tx3_tir::model::assets::CanonicalAssets;
use tx3_tir::model::core::{Utxo, UtxoRef};
use tx3_tir::reduce::{apply_args, apply_fees, reduce, ArgValue};
use tx3_tir::Node as _;

pub struct C04;

const TOK_POLICY: [u8; 28] = [0xc4; 28];

fn owner() -> Vec<u8> {
    let mut a = vec![0x60];
    a.extend([0x11; 28]);
    a
}

fn dest() -> Vec<u8> {
    let mut a = vec![0x60];
    a.extend([0x22; 28]);
    a
}

struct Block {
    many: bool,
    lovelace: i64,
    token: i64,
    rf: Option<usize>, // index into the store
    no_from: bool,
    /// the threshold grows with the fee (`min_amount: Ada(n) + fees`): the selection of the first resolve round
    /// (fee 0) may not cover the later ones
    fee_dep: bool,
}

/// block names that sort on both sides of each other and of the name the resolver gives the
/// collateral query ("collateral"): blocks are visited in name order
const NAME_POOL: [&str; 14] = ["a_src", "blk", "bravo", "c", "collateral", "collateral_extra", "cz", "dust", "fee_payer", "main", "MAIN", "source", "x", "zeta"];

fn program(blocks: &[Block], store: &[Utxo], collateral: Option<i64>, names: &[String], refs: &[usize]) -> Program {
    let mut inputs = vec![];
    for (i, b) in blocks.iter().enumerate() {
        let mut min = E::Ada(Box::new(E::Int(b.lovelace as i128)));
        if b.token > 0 {
            min = E::Add(Box::new(min), Box::new(E::AssetCall("Tok".into(), Box::new(E::Int(b.token as i128)))));
        }
        if b.fee_dep {
            min = E::Add(Box::new(min), Box::new(E::Fees));
        }
        inputs.push(Input {
            name: names[i].clone(),
            many: b.many,
            from: if b.no_from { None } else { Some(E::Party("Owner".into())) },
            min_amount: Some(min),
            rf: b.rf.map(|k| E::UtxoRef(store[k].r#ref.txid.clone(), store[k].r#ref.index as u64)),
            ..Default::default()
        });
    }
    Program {
        parties: vec!["Owner".into(), "Dest".into()],
        assets: vec![Asset { name: "Tok".into(), policy: TOK_POLICY.to_vec(), asset_name: b"TK".to_vec(), name_as_string: true, raw_policy: None, raw_asset_name: None }],
        txs: vec![TxDef {
            name: "spend".into(),
            inputs,
            references: refs.iter().enumerate().map(|(i, k)| (format!("refin{i}"), E::UtxoRef(store[*k].r#ref.txid.clone(), store[*k].r#ref.index as u64))).collect(),
            collateral: collateral.map(|c| Collateral { from: Some(E::Party("Owner".into())), min_amount: Some(E::Ada(Box::new(E::Int(c as i128)))), rf: None }),
            outputs: vec![Output { to: Some(E::Party("Dest".into())), amount: Some(E::Ada(Box::new(E::Int(1_000_000)))), ..Default::default() }],
            ..Default::default()
        }],
        ..Default::default()
    }
}

impl Property for C04 {
    fn id(&self) -> &'static str {
        "C04"
    }
    fn rule(&self) -> String {
        "templates with k = 1..4 input blocks of one party whose queries overlap (same address, nested lovelace / token thresholds, single and multi-UTxO blocks, blocks naming the same reference, blocks without `from` that name a reference, thresholds that grow with the fee next to UTxOs that meet them exactly at fee 0 - so that the rounds of resolve_tx select differently -, optional collateral block), lowered from source text; stores of 0..60 UTxOs sized just below / at / above what the k blocks need. Oracles: (1) after tx3_resolver::inputs::resolve on the prepared template the UTxO sets bound to the non-collateral blocks are pairwise disjoint; (2) after resolve_tx the raw element list of body key 0 (independent CBOR reader) has no duplicate and at least k elements; (3) with fewer UTxOs than blocks resolution fails. Non-trivial: k >= 2 and the store holds at least one UTxO that satisfies two blocks; distinct = distinct (blocks, store).".into()
    }
    fn assumptions(&self) -> Vec<String> {
        vec!["collateral may overlap a regular input (the statement allows it)".into()]
    }
    fn phases(&self, tier: Tier) -> Vec<Phase> {
        match tier {
            Tier::Quick => vec![Phase::new("overlap", 6_000, Profile::Release)],
            Tier::Thorough => vec![Phase::new("overlap", 300_000, Profile::Release)],
        }
    }
    fn required_features(&self, _tier: Tier) -> Vec<String> {
        ["resolve/ok", "resolve/err", "resolve_tx/ok", "blocks/4", "shape/many", "shape/shared-ref", "shape/collateral", "shape/collateral-between-inputs", "shape/reference-to-wallet-utxo", "store/too-small", "store/exact", "shape/fee-dependent-threshold-met-exactly-at-fee-0"].iter().map(|s| s.to_string()).collect()
    }
    fn run_case(&self, ctx: &mut Ctx, phase: &str, idx: u64, rng: &mut Rng) {
        let k = 1 + rng.usize(4);
        ctx.count(&format!("blocks/{k}"));
        // store
        let fit = rng.below(4); // 0: fewer UTxOs than blocks, 1: exactly k, 2: k+1..k+3, 3: up to 60
        let n = match fit {
            0 => rng.usize(k),
            1 => k,
            2 => k + 1 + rng.usize(3),
            _ => k + rng.usize(60 - k),
        };
        ctx.count(match fit {
            0 => "store/too-small",
            1 => "store/exact",
            _ => "store/roomy",
        });
        let base = rng.range(2_000_000, 5_000_000);
        let mut store: Vec<Utxo> = (0..n)
            .map(|i| {
                let mut assets = CanonicalAssets::from_naked_amount((base + rng.range(-1_000_000, 3_000_000)) as i128);
                if rng.chance(1, 3) {
                    assets = assets + CanonicalAssets::from_defined_asset(&TOK_POLICY, b"TK", rng.range(1, 20) as i128);
                }
                let mut txid = rng.bytes(32);
                txid[0] = i as u8;
                Utxo { r#ref: UtxoRef { txid, index: rng.below(4) as u32 }, address: if rng.chance(1, 10) { dest() } else { owner() }, assets, datum: None, script: None }
            })
            .collect();
        let shared_ref = if n > 0 && rng.chance(1, 4) { Some(rng.usize(n)) } else { None };
        let blocks: Vec<Block> = (0..k)
            .map(|_| {
                let many = rng.chance(1, 3);
                let rf = match shared_ref {
                    Some(r) if rng.bool() => Some(r),
                    _ => {
                        if n > 0 && rng.chance(1, 8) {
                            Some(rng.usize(n))
                        } else {
                            None
                        }
                    }
                };
                Block { many, lovelace: if many { base * rng.range(1, 3) } else { base + rng.range(-1_500_000, 1_000_000) }, token: if rng.chance(1, 4) { rng.range(1, 10) } else { 0 }, rf, no_from: rf.is_some() && rng.chance(1, 3), fee_dep: rng.chance(1, 3) }
            })
            .collect();
        // a fee-dependent block finds, two times in three, a UTxO that covers its threshold at fee 0 exactly (or by
        // less than any fee): the first round picks it, a later round has to move on - to UTxOs other blocks hold
        for b in blocks.iter().filter(|b| b.fee_dep) {
            if n > 0 && rng.chance(2, 3) {
                let j = rng.usize(n);
                let lovelace = b.lovelace as i128 + *rng.pick(&[0i128, 0, 1, 1_000, 150_000]);
                let mut assets = CanonicalAssets::from_naked_amount(lovelace);
                if b.token > 0 || rng.chance(1, 3) {
                    assets = assets + CanonicalAssets::from_defined_asset(&TOK_POLICY, b"TK", b.token.max(1) as i128 + rng.range(0, 3) as i128);
                }
                store[j].assets = assets;
                store[j].address = owner();
                ctx.count("shape/fee-dependent-threshold-met-exactly-at-fee-0");
            }
        }
        if blocks.iter().any(|b| b.many) {
            ctx.count("shape/many");
        }
        if blocks.iter().filter(|b| b.rf.is_some() && b.rf == shared_ref).count() >= 2 {
            ctx.count("shape/shared-ref");
        }
        let collateral = if rng.chance(1, 2) { Some(base + rng.range(-1_500_000, 500_000)) } else { None };
        if collateral.is_some() {
            ctx.count("shape/collateral");
        }
        // distinct names in random order relative to the declaration order and to "collateral"
        let mut pool: Vec<&str> = NAME_POOL.to_vec();
        let mut names: Vec<String> = vec![];
        for i in 0..k {
            let j = rng.usize(pool.len());
            names.push(format!("{}{}", pool.remove(j), if rng.bool() { i.to_string() } else { String::new() }));
        }
        if collateral.is_some() && names.iter().any(|n| n.as_str() < "collateral") && names.iter().any(|n| n.as_str() > "collateral") {
            ctx.count("shape/collateral-between-inputs");
        }
        // reference inputs that name UTxOs of the same wallet (a UTxO may be read and spent in one template:
        // it still has to appear among the spent inputs)
        let refs: Vec<usize> = if n > 0 && rng.chance(1, 3) { (0..1 + rng.usize(2)).map(|_| rng.usize(n)).collect() } else { vec![] };
        if !refs.is_empty() {
            ctx.count("shape/reference-to-wallet-utxo");
        }
        let prog = program(&blocks, &store, collateral, &names, &refs);
        let src = print_program(&prog, Layout::plain());
        let Ok(lowered) = front(&src, "spend") else {
            ctx.count("front/rejected");
            return;
        };
        let args: BTreeMap<String, ArgValue> = BTreeMap::from([("owner".to_string(), ArgValue::Address(owner())), ("dest".to_string(), ArgValue::Address(dest()))]);
        let detail = |what: serde_json::Value| {
            json!({"phase": phase, "source": src, "store": store.iter().map(|u| json!({"ref": format!("{}#{}", hex::encode(&u.r#ref.txid[..4]), u.r#ref.index), "owner": u.address == owner(), "assets": format!("{}", u.assets)})).collect::<Vec<_>>(), "observed": what})
        };
        let could_share = k >= 2 && store.iter().any(|u| blocks.iter().filter(|b| !b.many && u.address == owner() && u.assets.naked_amount().unwrap_or(0) >= b.lovelace as i128).count() >= 2);

        // (1) inputs::resolve on the prepared template
        let pp = PP::default();
        let prepared = crate::panics::catch(|| {
            let mut compiler = env::compiler(&pp);
            let t = AnyTir::V1Beta0(lowered.clone());
            let t = apply_args(t, &args).map_err(|e| e.to_string())?;
            let t = apply_fees(t, 300_000).map_err(|e| e.to_string())?;
            let t = t.apply(&mut compiler).map_err(|e| e.to_string())?;
            reduce(t).map_err(|e| e.to_string())
        });
        let Ok(Ok(prepared)) = prepared else {
            ctx.count("prepare/failed");
            return;
        };
        let st = LoggedStore::new(store.clone());
        ctx.eval();
        match crate::panics::catch(|| pollster::block_on(inputs::resolve(prepared, &st))) {
            Err(p) => ctx.violation(format!("panic:{}", p.signature()), detail(json!({"panic": p.message}))),
            Ok(Err(_)) => {
                ctx.count("resolve/err");
            }
            Ok(Ok(AnyTir::V1Beta0(out))) => {
                ctx.count("resolve/ok");
                let sets: Vec<Vec<Utxo>> = out.inputs.iter().filter_map(|i| bound_set(&i.utxos)).collect();
                if sets.len() != k {
                    ctx.violation("unbound-block", detail(json!({"bound": sets.len(), "blocks": k})));
                }
                let mut seen: BTreeMap<(Vec<u8>, u32), usize> = BTreeMap::new();
                for (bi, s) in sets.iter().enumerate() {
                    if s.is_empty() {
                        ctx.violation("empty-selection", detail(json!({"block": bi})));
                    }
                    for u in s {
                        if let Some(prev) = seen.insert((u.r#ref.txid.clone(), u.r#ref.index), bi) {
                            let kinds = format!("{}+{}", if blocks[prev].many { "many" } else { "single" }, if blocks[bi].many { "many" } else { "single" });
                            let via = if blocks[prev].rf.is_some() || blocks[bi].rf.is_some() { "by-ref" } else { "by-address" };
                            ctx.violation(format!("shared-utxo:{kinds}:{via}"), detail(json!({"blocks": [prev, bi], "utxo": format!("{}#{}", hex::encode(&u.r#ref.txid[..4]), u.r#ref.index)})));
                        }
                    }
                }
                if n < k {
                    ctx.violation("resolved-with-too-few-utxos", detail(json!({"utxos": n, "blocks": k})));
                }
            }
        }

        // (2) end to end
        let st = LoggedStore::new(store.clone());
        let mut compiler = env::compiler(&pp);
        ctx.eval();
        match crate::panics::catch(|| pollster::block_on(resolve_tx(AnyTir::V1Beta0(lowered.clone()), &args, &mut compiler, &st, 6))) {
            Err(p) => ctx.violation(format!("panic:{}", p.signature()), detail(json!({"panic": p.message}))),
            Ok(Err(_)) => ctx.count("resolve_tx/err"),
            Ok(Ok(c)) => {
                ctx.count("resolve_tx/ok");
                match txview::view(&c.payload) {
                    Err(e) => ctx.violation("undecodable-payload", detail(json!({"error": e}))),
                    Ok(v) => {
                        if v.facts.duplicates.iter().any(|d| d == "inputs") {
                            ctx.violation("duplicate-body-input", detail(json!({"raw_inputs": v.facts.raw_input_count, "distinct": v.tx.inputs.len()})));
                        }
                        if v.tx.inputs.len() < k {
                            ctx.violation("count-mismatch", detail(json!({"distinct_body_inputs": v.tx.inputs.len(), "blocks": k})));
                        }
                        for i in &v.tx.inputs {
                            if !store.iter().any(|u| u.r#ref.txid == i.0 && u.r#ref.index as u64 == i.1) {
                                ctx.violation("input-not-in-store", detail(json!({"input": format!("{}#{}", hex::encode(&i.0), i.1)})));
                            }
                        }
                        if n < k {
                            ctx.violation("resolved-with-too-few-utxos", detail(json!({"utxos": n, "blocks": k})));
                        }
                    }
                }
            }
        }
        if could_share {
            ctx.nontrivial(fnv64(format!("{idx}{src}{n}").as_bytes()));
        }
        if idx % 499 == 0 {
            ctx.sample(|| json!({"source": src, "store_size": n, "blocks": k}));
        }
    }
}
