//! C15 — multi-asset values obey the algebra that balance computations assume.

use crate::framework::*;
use crate::rng::{fnv64, Rng};
use serde_json::{json, Value};
use std::collections::{BTreeMap, HashMap};
use tx3_tir::model::assets::{AssetClass, CanonicalAssets};
use tx3_tir::model::v1beta0::{AssetExpr, BuiltInOp, Expression};
use tx3_tir::reduce::Apply;

pub struct C15;

type Sem = BTreeMap<AssetClass, i128>;

fn sem(a: &CanonicalAssets) -> Sem {
    a.iter().filter(|(_, v)| **v != 0).map(|(k, v)| (k.clone(), *v)).collect()
}

fn sem_add(a: &Sem, b: &Sem) -> Option<Sem> {
    let mut out = a.clone();
    for (k, v) in b {
        let e = out.entry(k.clone()).or_insert(0);
        *e = e.checked_add(*v)?;
    }
    out.retain(|_, v| *v != 0);
    Some(out)
}

fn sem_neg(a: &Sem) -> Option<Sem> {
    let mut out = Sem::new();
    for (k, v) in a {
        out.insert(k.clone(), v.checked_neg()?);
    }
    Some(out)
}

fn sem_sub(a: &Sem, b: &Sem) -> Option<Sem> {
    sem_add(a, &sem_neg(b)?)
}

fn classes3() -> [AssetClass; 3] {
    [
        AssetClass::Naked,
        AssetClass::Defined(vec![0xaa; 28], b"TOK1".to_vec()),
        AssetClass::Defined(vec![0xbb; 28], b"tok2".to_vec()),
    ]
}

/// How a value was constructed.
#[derive(Clone, Copy, Debug, PartialEq, Eq)]
enum Path {
    /// sum (via `+`) of single-class constructor results with non-zero amounts, starting from `empty()`
    SumOfSingles,
    /// one public single-class constructor, amount possibly 0 (class index)
    Single(usize),
    /// deserialised map holding an explicit entry for every class (zero ones included)
    DeserialisedFull,
    /// `-(x)` where x was built by Single with the negated amount (keeps a zero entry)
    NegOfSingle(usize),
}

#[derive(Clone, Debug)]
struct Rep {
    amounts: [i128; 3],
    path: Path,
}

fn single(class: &AssetClass, amount: i128) -> CanonicalAssets {
    match class {
        AssetClass::Naked => CanonicalAssets::from_naked_amount(amount),
        AssetClass::Named(n) => CanonicalAssets::from_named_asset(n, amount),
        AssetClass::Defined(p, n) => CanonicalAssets::from_asset(Some(p), Some(n), amount),
    }
}

fn deserialise(map: &HashMap<AssetClass, i128>) -> CanonicalAssets {
    let mut buf = vec![];
    ciborium::into_writer(map, &mut buf).unwrap();
    ciborium::from_reader(buf.as_slice()).expect("CanonicalAssets deserialises from its own map encoding")
}

fn build(rep: &Rep) -> CanonicalAssets {
    let cl = classes3();
    match rep.path {
        Path::SumOfSingles => {
            let mut acc = CanonicalAssets::empty();
            for i in 0..3 {
                if rep.amounts[i] != 0 {
                    acc = acc + single(&cl[i], rep.amounts[i]);
                }
            }
            acc
        }
        Path::Single(i) => single(&cl[i], rep.amounts[i]),
        Path::NegOfSingle(i) => -single(&cl[i], -rep.amounts[i]),
        Path::DeserialisedFull => {
            let m: HashMap<_, _> = (0..3).map(|i| (cl[i].clone(), rep.amounts[i])).collect();
            deserialise(&m)
        }
    }
}

fn reps(lo: i128, hi: i128) -> Vec<Rep> {
    let mut out = vec![];
    let r: Vec<i128> = (lo..=hi).collect();
    for &a in &r {
        for &b in &r {
            for &c in &r {
                let amounts = [a, b, c];
                out.push(Rep { amounts, path: Path::SumOfSingles });
                out.push(Rep { amounts, path: Path::DeserialisedFull });
                let nz: Vec<usize> = (0..3).filter(|i| amounts[*i] != 0).collect();
                if nz.is_empty() {
                    for i in 0..3 {
                        out.push(Rep { amounts, path: Path::Single(i) });
                        out.push(Rep { amounts, path: Path::NegOfSingle(i) });
                    }
                } else if nz.len() == 1 {
                    out.push(Rep { amounts, path: Path::Single(nz[0]) });
                    out.push(Rep { amounts, path: Path::NegOfSingle(nz[0]) });
                }
            }
        }
    }
    out
}

fn path_tag(p: Path) -> &'static str {
    match p {
        Path::SumOfSingles => "sum",
        Path::Single(_) => "single",
        Path::DeserialisedFull => "deser",
        Path::NegOfSingle(_) => "neg-single",
    }
}

fn has_zero_entry(a: &CanonicalAssets) -> bool {
    a.iter().any(|(_, v)| *v == 0)
}

fn show(a: &CanonicalAssets) -> Value {
    let mut m: Vec<(String, String)> = a.iter().map(|(k, v)| (k.to_string(), v.to_string())).collect();
    m.sort();
    json!(m)
}

fn to_expr(a: &CanonicalAssets) -> Expression {
    Expression::Assets(Vec::<AssetExpr>::from(a.clone()))
}

fn expr_sem(e: &Expression) -> Option<Sem> {
    match e {
        Expression::Assets(x) => Some(sem(&CanonicalAssets::from(x.clone()))),
        Expression::None => Some(Sem::new()),
        _ => None,
    }
}

fn nonneg(s: &Sem) -> bool {
    s.values().all(|v| *v >= 0)
}

fn zero_kind(a: &CanonicalAssets, b: &CanonicalAssets) -> &'static str {
    if has_zero_entry(a) || has_zero_entry(b) {
        "zero-entry"
    } else {
        "no-zero-entry"
    }
}

impl C15 {
    fn binary_checks(&self, ctx: &mut Ctx, a: &CanonicalAssets, b: &CanonicalAssets, tag: &str, reducer: bool) {
        let sa = sem(a);
        let sb = sem(b);
        let detail = |law: &str, a: &CanonicalAssets, b: &CanonicalAssets, got: Value| json!({"law": law, "a": show(a), "b": show(b), "got": got, "construction": tag});
        let (Some(s_add), Some(s_sub), Some(s_negb)) = (sem_add(&sa, &sb), sem_sub(&sa, &sb), sem_neg(&sb)) else {
            ctx.count("skipped/overflow");
            return;
        };
        // overflow of the round trip (a-b)+b is impossible when a-b fits
        let add = a.clone() + b.clone();
        let add_r = b.clone() + a.clone();
        let sub = a.clone() - b.clone();
        let negb = -b.clone();
        let a_plus_negb = a.clone() + negb.clone();
        let back = sub.clone() + b.clone();
        ctx.eval();

        // operations agree with the reference
        if sem(&add) != s_add {
            ctx.violation("op:add", detail("add vs reference", a, b, show(&add)));
        }
        if sem(&sub) != s_sub {
            ctx.violation("op:sub", detail("sub vs reference", a, b, show(&sub)));
        }
        if sem(&negb) != s_negb {
            ctx.violation("op:neg", detail("neg vs reference", a, b, show(&negb)));
        }
        // laws with the code's own equality
        let zk = zero_kind(a, b);
        if add != add_r {
            ctx.violation(format!("law:commutativity:{zk}"), detail("a+b == b+a", a, b, json!([show(&add), show(&add_r)])));
        }
        if sub != a_plus_negb {
            ctx.violation(format!("law:sub-is-add-neg:{zk}"), detail("a-b == a+(-b)", a, b, json!([show(&sub), show(&a_plus_negb)])));
        }
        if back != *a {
            ctx.violation(format!("law:sub-then-add:{zk}"), detail("(a-b)+b == a", a, b, show(&back)));
        }
        // equality is semantic
        let code_eq = a == b;
        let sem_eq = sa == sb;
        if code_eq != sem_eq {
            ctx.violation(format!("law:eq-semantic:{zk}"), detail("(a == b) <=> same non-zero entries", a, b, json!({"code_eq": code_eq, "semantic_eq": sem_eq})));
        }
        // predicates
        if nonneg(&sa) && nonneg(&sb) {
            let expect = sb.iter().all(|(k, v)| sa.get(k).copied().unwrap_or(0) >= *v);
            if a.contains_total(b) != expect {
                ctx.violation("predicate:contains_total", detail("contains_total == componentwise >=", a, b, json!({"got": a.contains_total(b), "expected": expect})));
            }
            let expect_some = sb.is_empty() || sb.iter().any(|(k, v)| *v > 0 && sa.get(k).copied().unwrap_or(0) > 0);
            if a.contains_some(b) != expect_some {
                ctx.violation("predicate:contains_some", detail("contains_some == shares a positive class (or b empty)", a, b, json!({"got": a.contains_some(b), "expected": expect_some})));
            }
            ctx.count("feature/predicates-nonneg");
        }
        if a.is_empty() != sa.is_empty() {
            ctx.violation("predicate:is_empty", detail("is_empty", a, b, json!(a.is_empty())));
        }
        let en = sa.values().all(|v| *v <= 0);
        if a.is_empty_or_negative() != en {
            ctx.violation("predicate:is_empty_or_negative", detail("is_empty_or_negative", a, b, json!(a.is_empty_or_negative())));
        }
        // expression round trip
        let rt = CanonicalAssets::from(Vec::<AssetExpr>::from(a.clone()));
        if sem(&rt) != sa {
            let kind = if sa.keys().any(|k| matches!(k, AssetClass::Defined(p, _) if p.is_empty())) {
                "defined-empty-policy"
            } else if sa.keys().any(|k| matches!(k, AssetClass::Named(n) if n.is_empty())) {
                "named-empty-name"
            } else if sa.keys().any(|k| k.is_named()) {
                "named"
            } else {
                "defined"
            };
            ctx.violation(format!("expr-roundtrip:{kind}"), detail("assets -> Vec<AssetExpr> -> assets", a, b, show(&rt)));
        }
        if has_zero_entry(a) || has_zero_entry(b) {
            ctx.count("feature/zero-entry-operand");
        }
        // the reducer's Add / Sub / Negate over Assets expressions
        if reducer {
            let ea = to_expr(a);
            let eb = to_expr(b);
            for (name, op, want) in [
                ("add", BuiltInOp::Add(ea.clone(), eb.clone()), &s_add),
                ("sub", BuiltInOp::Sub(ea.clone(), eb.clone()), &s_sub),
                ("neg", BuiltInOp::Negate(eb.clone()), &s_negb),
            ] {
                let r = crate::panics::catch(|| Expression::EvalBuiltIn(Box::new(op)).reduce());
                ctx.count("feature/reducer-op");
                match r {
                    Ok(Ok(e)) => match expr_sem(&e) {
                        Some(s) if s == *want => {}
                        other => ctx.violation(
                            format!("reducer:{name}"),
                            detail("reduce(op) vs reference", a, b, json!(format!("{other:?}"))),
                        ),
                    },
                    Ok(Err(e)) => ctx.violation(format!("reducer-error:{name}"), detail("reduce(op) errored", a, b, json!(e.to_string()))),
                    Err(p) => ctx.violation(format!("reducer-{}", p.signature()), detail("reduce(op) panicked", a, b, json!(p.message))),
                }
            }
        }
    }

    fn random_value(&self, rng: &mut Rng, pool: &[AssetClass], small: bool) -> CanonicalAssets {
        let n = rng.usize(4);
        let mut acc = CanonicalAssets::empty();
        for _ in 0..n {
            let class = rng.pick(pool).clone();
            let amount = if small {
                rng.range(-3, 3) as i128
            } else {
                // stay clear of overflow: |x| < 2^125
                rng.boundary_int() >> 3
            };
            // `from_class_and_amount` bypasses the normalisation the other constructors apply
            // (empty policy => Named, empty name => Naked); a class in non-normal form is a key no
            // other constructor can produce and is therefore only fed through the normalising ones
            let canonical = match &class {
                AssetClass::Naked => true,
                AssetClass::Named(n) => !n.is_empty(),
                AssetClass::Defined(p, _) => !p.is_empty(),
            };
            let v = match rng.below(4) {
                0 if canonical => CanonicalAssets::from_class_and_amount(class, amount),
                _ => single(&class, amount),
            };
            // the first summand may be used alone (keeps explicit zero entries)
            acc = if acc.iter().count() == 0 && rng.bool() { v } else { acc + v };
        }
        acc
    }
}

impl Property for C15 {
    fn id(&self) -> &'static str {
        "C15"
    }

    fn rule(&self) -> String {
        "pairs/triples: every pair (triple) of representations of values over 3 asset classes (lovelace, two tokens) with amounts in the phase's range, where a representation = amounts x construction path (sum of singles, single constructor incl. amount 0, negation of a single, deserialised map with explicit zero entries); random: 0..3 summands over a pool of classes with policies/names of length 0..40 (Naked, Named, Defined), amounts across the i128 range kept below 2^125 so that no sum overflows. A case is non-trivial when both operands are semantically non-empty or one carries an explicit zero entry; distinct = distinct (a, b[, c]) entry lists incl. zero entries.".into()
    }

    fn assumptions(&self) -> Vec<String> {
        vec![
            "reference arithmetic: BTreeMap<AssetClass,i128> with checked i128 ops; overflowing cases are skipped as the statement excludes overflow".into(),
            "contains_some is compared with 'b is empty, or a and b share a class in which both are positive'; the statement itself only pins contains (= contains_total)".into(),
        ]
    }

    fn phases(&self, tier: Tier) -> Vec<Phase> {
        let full = reps(-2, 2).len() as u64;
        let small = reps(-1, 1).len() as u64;
        match tier {
            Tier::Quick => vec![
                Phase::new("pairs", full * full, Profile::Release).exhaustive(),
                Phase::new("triples-small", small * small, Profile::Release).exhaustive(),
                Phase::new("random", 60_000, Profile::Release),
            ],
            Tier::Thorough => vec![
                Phase::new("pairs", full * full, Profile::Release).exhaustive(),
                Phase::new("triples", full * full, Profile::Release).exhaustive(),
                Phase::new("random", 3_000_000, Profile::Release),
                Phase::new("random-checked", 300_000, Profile::Checked),
            ],
        }
    }

    fn required_features(&self, _tier: Tier) -> Vec<String> {
        vec![
            "feature/zero-entry-operand".into(),
            "feature/predicates-nonneg".into(),
            "feature/reducer-op".into(),
            "feature/assoc-triple".into(),
            "feature/random-named-class".into(),
            "feature/random-empty-policy".into(),
        ]
    }

    fn run_case(&self, ctx: &mut Ctx, phase: &str, idx: u64, rng: &mut Rng) {
        match phase {
            "pairs" => {
                let r = reps(-2, 2);
                let n = r.len() as u64;
                let (i, j) = ((idx / n) as usize, (idx % n) as usize);
                let a = build(&r[i]);
                let b = build(&r[j]);
                let tag = format!("{}|{}", path_tag(r[i].path), path_tag(r[j].path));
                self.binary_checks(ctx, &a, &b, &tag, true);
                if (!sem(&a).is_empty() && !sem(&b).is_empty()) || has_zero_entry(&a) || has_zero_entry(&b) {
                    ctx.nontrivial(fnv64(format!("{:?}{:?}", show(&a), show(&b)).as_bytes()));
                }
                if idx % 9973 == 0 {
                    ctx.sample(|| json!({"phase": "pairs", "a": show(&a), "b": show(&b), "construction": tag}));
                }
            }
            "triples" | "triples-small" => {
                let r = if phase == "triples" { reps(-2, 2) } else { reps(-1, 1) };
                let n = r.len() as u64;
                let (i, j) = ((idx / n) as usize, (idx % n) as usize);
                let a = build(&r[i]);
                let b = build(&r[j]);
                let ab = a.clone() + b.clone();
                for rc in &r {
                    let c = build(rc);
                    let l = ab.clone() + c.clone();
                    let rr = a.clone() + (b.clone() + c.clone());
                    ctx.eval();
                    ctx.count("feature/assoc-triple");
                    if l != rr {
                        let zk = if has_zero_entry(&a) || has_zero_entry(&b) || has_zero_entry(&c) { "zero-entry" } else { "no-zero-entry" };
                        ctx.violation(
                            format!("law:associativity:{zk}"),
                            json!({"law": "(a+b)+c == a+(b+c)", "a": show(&a), "b": show(&b), "c": show(&c), "got": [show(&l), show(&rr)]}),
                        );
                    }
                    let want = sem_add(&sem_add(&sem(&a), &sem(&b)).unwrap(), &sem(&c)).unwrap();
                    if sem(&l) != want || sem(&rr) != want {
                        ctx.violation("op:add3", json!({"a": show(&a), "b": show(&b), "c": show(&c), "got": [show(&l), show(&rr)]}));
                    }
                    if !sem(&a).is_empty() && !sem(&b).is_empty() && !sem(&c).is_empty() {
                        ctx.nontrivial(fnv64(format!("{:?}{:?}{:?}", show(&a), show(&b), show(&c)).as_bytes()));
                    }
                }
                if idx % 4999 == 0 {
                    ctx.sample(|| json!({"phase": phase, "a": show(&a), "b": show(&b), "c": "every representation"}));
                }
            }
            _ => {
                // random
                let mut pool: Vec<AssetClass> = vec![AssetClass::Naked];
                if idx % 3 == 0 {
                    // classes over a two-letter alphabet with policy and name of 0..2 bytes: different classes
                    // whose policy ++ name concatenations, lengths or bytes coincide (Defined("ab","c") /
                    // Defined("a","bc") / Named("abc"), Defined(p,"") / Named(p)) - anything that identifies a
                    // class by less than (kind, policy, name) merges them
                    ctx.count("feature/colliding-class-family");
                    for _ in 0..4 {
                        let mut word = |rng: &mut Rng| -> Vec<u8> { (0..rng.usize(3)).map(|_| b'a' + rng.below(2) as u8).collect() };
                        let (p, n) = (word(rng), word(rng));
                        pool.push(match rng.below(3) {
                            0 => AssetClass::Named([p, n].concat()),
                            _ => AssetClass::Defined(p, n),
                        });
                    }
                }
                for _ in 0..3 {
                    let pl = *rng.pick(&[0usize, 1, 28, 28, 28, 32, 40]);
                    let nl = *rng.pick(&[0usize, 1, 4, 8, 32, 40]);
                    let p = rng.bytes(pl);
                    let nm = rng.bytes(nl);
                    if pl == 0 {
                        ctx.count("feature/random-empty-policy");
                    }
                    pool.push(match rng.below(4) {
                        0 => {
                            ctx.count("feature/random-named-class");
                            AssetClass::Named(nm)
                        }
                        _ => AssetClass::Defined(p, nm),
                    });
                }
                let small = rng.chance(1, 4);
                let a = self.random_value(rng, &pool, small);
                let b = self.random_value(rng, &pool, small);
                let c = self.random_value(rng, &pool, small);
                self.binary_checks(ctx, &a, &b, "random", idx % 4 == 0);
                // associativity
                let (sa, sb, sc) = (sem(&a), sem(&b), sem(&c));
                if let Some(want) = sem_add(&sa, &sb).and_then(|x| sem_add(&x, &sc)) {
                    if sem_add(&sb, &sc).is_some() {
                        let l = (a.clone() + b.clone()) + c.clone();
                        let r = a.clone() + (b.clone() + c.clone());
                        ctx.eval();
                        ctx.count("feature/assoc-triple");
                        if l != r {
                            ctx.violation(
                                format!("law:associativity:{}", if has_zero_entry(&a) || has_zero_entry(&b) || has_zero_entry(&c) { "zero-entry" } else { "no-zero-entry" }),
                                json!({"a": show(&a), "b": show(&b), "c": show(&c), "got": [show(&l), show(&r)]}),
                            );
                        }
                        if sem(&l) != want {
                            ctx.violation("op:add3", json!({"a": show(&a), "b": show(&b), "c": show(&c), "got": show(&l)}));
                        }
                    }
                }
                if (!sa.is_empty() && !sb.is_empty()) || has_zero_entry(&a) || has_zero_entry(&b) {
                    ctx.nontrivial(fnv64(format!("{:?}{:?}{:?}", show(&a), show(&b), show(&c)).as_bytes()));
                }
                if idx % 20011 == 0 {
                    ctx.sample(|| json!({"phase": phase, "a": show(&a), "b": show(&b), "c": show(&c)}));
                }
            }
        }
    }
}
