//! C15 — multi-asset values obey the algebra that balance computations assume.

use crate::framework::*;
use crate::rng::{fnv64, Rng};
use serde_json::{json, Value};
use std::collections::{BTreeMap, HashMap};
use tx3_tir::model::assets::{AssetClass, CanonicalAssets};
use tx3_tir::model::v1beta0::{AssetExpr, BuiltInOp, Expression};
use tx3_tir::reduce::Apply;

pub struct C15;

type Sem = BTreeMap<AssetClass, i128>;

fn sem(a: &CanonicalAssets) -> Sem {
    a.iter().filter(|(_, v)| **v != 0).map(|(k, v)| (k.clone(), *v)).collect()
}

fn sem_add(a: &Sem, b: &Sem) -> Option<Sem> {
    let mut out = a.clone();
    for (k, v) in b {
        let e = out.entry(k.clone()).or_insert(0);
        *e = e.checked_add(*v)?;
    }
    out.retain(|_, v| *v != 0);
    Some(out)
}

fn sem_neg(a: &Sem) -> Option<Sem> {
    let mut out = Sem::new();
    for (k, v) in a {
        out.insert(k.clone(), v.checked_neg()?);
    }
    Some(out)
}

fn sem_sub(a: &Sem, b: &Sem) -> Option<Sem> {
    sem_add(a, &sem_neg(b)?)
}

fn classes3() -> [AssetClass; 3] {
    [
        AssetClass::Naked,
        AssetClass::Defined(vec![0xaa; 28], b"TOK1".to_vec()),
        AssetClass::Defined(vec![0xbb; 28], b"tok2".to_vec()),
    ]
}

/// How a value was constructed.
#[derive(Clone, Copy, Debug, PartialEq, Eq)]
enum Path {
    /// sum (via `+`) of single-class constructor results with non-zero amounts, starting from `empty()`
    SumOfSingles,
    /// one public single-class constructor, amount possibly 0 (class index)
    Single(usize),
    /// deserialised map holding an explicit entry for every class (zero ones included)
    DeserialisedFull,
    /// `-(x)` where x was built by Single with the negated amount (keeps a zero entry)
    NegOfSingle(usize),
    /// deserialised map holding the non-zero entries plus an explicit zero entry for the zero classes in the
    /// mask (a proper, non-empty subset of them): values of one meaning padded on different classes
    DeserialisedPadded(u8),
}

#[derive(Clone, Debug)]
struct Rep {
    amounts: [i128; 3],
    path: Path,
}

fn single(class: &AssetClass, amount: i128) -> CanonicalAssets {
    match class {
        AssetClass::Naked => CanonicalAssets::from_naked_amount(amount),
        AssetClass::Named(n) => CanonicalAssets::from_named_asset(n, amount),
        AssetClass::Defined(p, n) => CanonicalAssets::from_asset(Some(p), Some(n), amount),
    }
}

fn deserialise(map: &HashMap<AssetClass, i128>) -> CanonicalAssets {
    let mut buf = vec![];
    ciborium::into_writer(map, &mut buf).unwrap();
    ciborium::from_reader(buf.as_slice()).expect("CanonicalAssets deserialises from its own map encoding")
}

fn build(rep: &Rep) -> CanonicalAssets {
    let cl = classes3();
    match rep.path {
        Path::SumOfSingles => {
            let mut acc = CanonicalAssets::empty();
            for i in 0..3 {
                if rep.amounts[i] != 0 {
                    acc = acc + single(&cl[i], rep.amounts[i]);
                }
            }
            acc
        }
        Path::Single(i) => single(&cl[i], rep.amounts[i]),
        Path::NegOfSingle(i) => -single(&cl[i], -rep.amounts[i]),
        Path::DeserialisedFull => {
            let m: HashMap<_, _> = (0..3).map(|i| (cl[i].clone(), rep.amounts[i])).collect();
            deserialise(&m)
        }
        Path::DeserialisedPadded(mask) => {
            let m: HashMap<_, _> = (0..3).filter(|i| rep.amounts[*i] != 0 || mask & (1 << i) != 0).map(|i| (cl[i].clone(), rep.amounts[i])).collect();
            deserialise(&m)
        }
    }
}

fn reps(lo: i128, hi: i128) -> Vec<Rep> {
    let mut out = vec![];
    let r: Vec<i128> = (lo..=hi).collect();
    for &a in &r {
        for &b in &r {
            for &c in &r {
                let amounts = [a, b, c];
                out.push(Rep { amounts, path: Path::SumOfSingles });
                out.push(Rep { amounts, path: Path::DeserialisedFull });
                let zero_mask: u8 = (0..3).filter(|i| amounts[*i] == 0).map(|i| 1u8 << i).sum();
                for mask in 0..8u8 {
                    // subsets of the zero classes other than all of them (= DeserialisedFull); the empty subset is
                    // the deserialised value without any zero entry
                    if mask & !zero_mask == 0 && mask != zero_mask {
                        out.push(Rep { amounts, path: Path::DeserialisedPadded(mask) });
                    }
                }
                let nz: Vec<usize> = (0..3).filter(|i| amounts[*i] != 0).collect();
                if nz.is_empty() {
                    for i in 0..3 {
                        out.push(Rep { amounts, path: Path::Single(i) });
                        out.push(Rep { amounts, path: Path::NegOfSingle(i) });
                    }
                } else if nz.len() == 1 {
                    out.push(Rep { amounts, path: Path::Single(nz[0]) });
                    out.push(Rep { amounts, path: Path::NegOfSingle(nz[0]) });
                }
            }
        }
    }
    out
}

fn path_tag(p: Path) -> &'static str {
    match p {
        Path::SumOfSingles => "sum",
        Path::Single(_) => "single",
        Path::DeserialisedFull => "deser",
        Path::NegOfSingle(_) => "neg-single",
        Path::DeserialisedPadded(_) => "deser-padded",
    }
}

fn has_zero_entry(a: &CanonicalAssets) -> bool {
    a.iter().any(|(_, v)| *v == 0)
}

fn show(a: &CanonicalAssets) -> Value {
    let mut m: Vec<(String, String)> = a.iter().map(|(k, v)| (k.to_string(), v.to_string())).collect();
    m.sort();
    json!(m)
}

fn to_expr(a: &CanonicalAssets) -> Expression {
    Expression::Assets(Vec::<AssetExpr>::from(a.clone()))
}

fn expr_sem(e: &Expression) -> Option<Sem> {
    match e {
        Expression::Assets(x) => Some(sem(&CanonicalAssets::from(x.clone()))),
        Expression::None => Some(Sem::new()),
        _ => None,
    }
}

fn nonneg(s: &Sem) -> bool {
    s.values().all(|v| *v >= 0)
}

fn zero_kind(a: &CanonicalAssets, b: &CanonicalAssets) -> &'static str {
    if has_zero_entry(a) || has_zero_entry(b) {
        "zero-entry"
    } else {
        "no-zero-entry"
    }
}


/// Component-wise a - b with checked arithmetic (representable even when -b is not).
fn sem_sub_direct(a: &Sem, b: &Sem) -> Option<Sem> {
    let mut out = a.clone();
    for (k, v) in b {
        let e = out.entry(k.clone()).or_insert(0);
        *e = e.checked_sub(*v)?;
    }
    out.retain(|_, v| *v != 0);
    Some(out)
}

const EXTREMES: [i128; 14] = [
    i128::MIN,
    i128::MIN + 1,
    i128::MIN + 2,
    i128::MAX,
    i128::MAX - 1,
    i128::MAX - 2,
    i128::MAX / 2,
    i128::MAX / 2 + 1,
    i128::MIN / 2,
    i128::MIN / 2 - 1,
    0,
    1,
    -1,
    2,
];

fn extreme_amount(rng: &mut Rng) -> i128 {
    match rng.below(4) {
        0 => rng.range(-9, 9) as i128,
        1 => {
            let e = *rng.pick(&EXTREMES);
            e.checked_add(rng.range(-7, 7) as i128).unwrap_or(e)
        }
        _ => *rng.pick(&EXTREMES),
    }
}

/// The independent reading of one asset-expression entry: which class it denotes (None: the amount is
/// not a constant).
fn entry_class(e: &AssetExpr) -> AssetClass {
    let policy: Option<Vec<u8>> = match &e.policy {
        Expression::Bytes(x) | Expression::Hash(x) => Some(x.clone()),
        _ => None,
    };
    let name: Option<Vec<u8>> = match &e.asset_name {
        Expression::Bytes(x) => Some(x.clone()),
        Expression::String(x) => Some(x.as_bytes().to_vec()),
        _ => None,
    };
    let policy = policy.filter(|p| !p.is_empty());
    let name = name.filter(|n| !n.is_empty());
    match (policy, name) {
        (Some(p), n) => AssetClass::Defined(p, n.unwrap_or_default()),
        (None, Some(n)) => AssetClass::Named(n),
        (None, None) => AssetClass::Naked,
    }
}

fn list_sem(list: &[AssetExpr]) -> Option<Sem> {
    let mut out = Sem::new();
    for e in list {
        let Expression::Number(n) = &e.amount else { return None };
        let slot = out.entry(entry_class(e)).or_insert(0);
        *slot = slot.checked_add(*n)?;
    }
    out.retain(|_, v| *v != 0);
    Some(out)
}

fn show_list(list: &[AssetExpr]) -> Value {
    json!(list.iter().map(|e| format!("{:?}/{:?}/{:?}", e.policy, e.asset_name, e.amount)).collect::<Vec<_>>())
}

fn show_sem(s: &Sem) -> Value {
    json!(s.iter().map(|(k, v)| (k.to_string(), v.to_string())).collect::<Vec<_>>())
}

impl C15 {
    fn binary_checks(&self, ctx: &mut Ctx, a: &CanonicalAssets, b: &CanonicalAssets, tag: &str, reducer: bool) {
        let sa = sem(a);
        let sb = sem(b);
        let detail = |law: &str, a: &CanonicalAssets, b: &CanonicalAssets, got: Value| json!({"law": law, "a": show(a), "b": show(b), "got": got, "construction": tag});
        let (Some(s_add), Some(s_sub), Some(s_negb)) = (sem_add(&sa, &sb), sem_sub(&sa, &sb), sem_neg(&sb)) else {
            ctx.count("skipped/overflow");
            return;
        };
        // overflow of the round trip (a-b)+b is impossible when a-b fits
        let add = a.clone() + b.clone();
        let add_r = b.clone() + a.clone();
        let sub = a.clone() - b.clone();
        let negb = -b.clone();
        let a_plus_negb = a.clone() + negb.clone();
        let back = sub.clone() + b.clone();
        ctx.eval();

        // operations agree with the reference
        if sem(&add) != s_add {
            ctx.violation("op:add", detail("add vs reference", a, b, show(&add)));
        }
        if sem(&sub) != s_sub {
            ctx.violation("op:sub", detail("sub vs reference", a, b, show(&sub)));
        }
        if sem(&negb) != s_negb {
            ctx.violation("op:neg", detail("neg vs reference", a, b, show(&negb)));
        }
        // laws with the code's own equality
        let zk = zero_kind(a, b);
        if add != add_r {
            ctx.violation(format!("law:commutativity:{zk}"), detail("a+b == b+a", a, b, json!([show(&add), show(&add_r)])));
        }
        if sub != a_plus_negb {
            ctx.violation(format!("law:sub-is-add-neg:{zk}"), detail("a-b == a+(-b)", a, b, json!([show(&sub), show(&a_plus_negb)])));
        }
        if back != *a {
            ctx.violation(format!("law:sub-then-add:{zk}"), detail("(a-b)+b == a", a, b, show(&back)));
        }
        // equality is semantic
        let code_eq = a == b;
        let sem_eq = sa == sb;
        if sem_eq && !sa.is_empty() && a.len() == b.len() && has_zero_entry(a) && a.keys().any(|k| !b.contains_key(k)) {
            ctx.count("feature/equal-values-padded-on-different-classes");
        }
        if code_eq != sem_eq {
            ctx.violation(format!("law:eq-semantic:{zk}"), detail("(a == b) <=> same non-zero entries", a, b, json!({"code_eq": code_eq, "semantic_eq": sem_eq})));
        }
        // predicates
        if nonneg(&sa) && nonneg(&sb) {
            let expect = sb.iter().all(|(k, v)| sa.get(k).copied().unwrap_or(0) >= *v);
            if a.contains_total(b) != expect {
                ctx.violation("predicate:contains_total", detail("contains_total == componentwise >=", a, b, json!({"got": a.contains_total(b), "expected": expect})));
            }
            let expect_some = sb.is_empty() || sb.iter().any(|(k, v)| *v > 0 && sa.get(k).copied().unwrap_or(0) > 0);
            if a.contains_some(b) != expect_some {
                ctx.violation("predicate:contains_some", detail("contains_some == shares a positive class (or b empty)", a, b, json!({"got": a.contains_some(b), "expected": expect_some})));
            }
            ctx.count("feature/predicates-nonneg");
        }
        if a.is_empty() != sa.is_empty() {
            ctx.violation("predicate:is_empty", detail("is_empty", a, b, json!(a.is_empty())));
        }
        let en = sa.values().all(|v| *v <= 0);
        if a.is_empty_or_negative() != en {
            ctx.violation("predicate:is_empty_or_negative", detail("is_empty_or_negative", a, b, json!(a.is_empty_or_negative())));
        }
        // expression round trip
        let rt = CanonicalAssets::from(Vec::<AssetExpr>::from(a.clone()));
        if sem(&rt) != sa {
            let kind = if sa.keys().any(|k| matches!(k, AssetClass::Defined(p, _) if p.is_empty())) {
                "defined-empty-policy"
            } else if sa.keys().any(|k| matches!(k, AssetClass::Named(n) if n.is_empty())) {
                "named-empty-name"
            } else if sa.keys().any(|k| k.is_named()) {
                "named"
            } else {
                "defined"
            };
            ctx.violation(format!("expr-roundtrip:{kind}"), detail("assets -> Vec<AssetExpr> -> assets", a, b, show(&rt)));
        }
        if has_zero_entry(a) || has_zero_entry(b) {
            ctx.count("feature/zero-entry-operand");
        }
        // the reducer's Add / Sub / Negate over Assets expressions
        if reducer {
            let ea = to_expr(a);
            let eb = to_expr(b);
            for (name, op, want) in [
                ("add", BuiltInOp::Add(ea.clone(), eb.clone()), &s_add),
                ("sub", BuiltInOp::Sub(ea.clone(), eb.clone()), &s_sub),
                ("neg", BuiltInOp::Negate(eb.clone()), &s_negb),
            ] {
                let r = crate::panics::catch(|| Expression::EvalBuiltIn(Box::new(op)).reduce());
                ctx.count("feature/reducer-op");
                match r {
                    Ok(Ok(e)) => match expr_sem(&e) {
                        Some(s) if s == *want => {}
                        other => ctx.violation(
                            format!("reducer:{name}"),
                            detail("reduce(op) vs reference", a, b, json!(format!("{other:?}"))),
                        ),
                    },
                    Ok(Err(e)) => ctx.violation(format!("reducer-error:{name}"), detail("reduce(op) errored", a, b, json!(e.to_string()))),
                    Err(p) => ctx.violation(format!("reducer-{}", p.signature()), detail("reduce(op) panicked", a, b, json!(p.message))),
                }
            }
        }
    }


    /// Operands whose amounts sit on and next to the ends of the i128 range, built without arithmetic
    /// (deserialised maps), in correlated pairs so that exact results land on i128::MIN / i128::MAX;
    /// every operation whose exact result is representable must produce it, in either profile.
    fn extreme_case(&self, ctx: &mut Ctx, rng: &mut Rng) {
        let pool = [
            AssetClass::Naked,
            AssetClass::Named(b"n".to_vec()),
            AssetClass::Defined(vec![0xaa; 28], b"TOK1".to_vec()),
            AssetClass::Defined(vec![0xbb; 28], vec![]),
        ];
        let mut ma: HashMap<AssetClass, i128> = HashMap::new();
        let mut mb: HashMap<AssetClass, i128> = HashMap::new();
        for class in pool.iter() {
            match rng.below(8) {
                0 => {}
                1 => {
                    ma.insert(class.clone(), extreme_amount(rng));
                }
                2 => {
                    mb.insert(class.clone(), extreme_amount(rng));
                }
                3 | 4 => {
                    // a - b lands on r
                    let (r, b) = (extreme_amount(rng), extreme_amount(rng));
                    if let Some(a) = r.checked_add(b) {
                        ma.insert(class.clone(), a);
                        mb.insert(class.clone(), b);
                    }
                }
                5 => {
                    // a + b lands on r
                    let (r, b) = (extreme_amount(rng), extreme_amount(rng));
                    if let Some(a) = r.checked_sub(b) {
                        ma.insert(class.clone(), a);
                        mb.insert(class.clone(), b);
                    }
                }
                _ => {
                    ma.insert(class.clone(), extreme_amount(rng));
                    mb.insert(class.clone(), extreme_amount(rng));
                }
            }
        }
        let (a, b) = (deserialise(&ma), deserialise(&mb));
        let (sa, sb) = (sem(&a), sem(&b));
        let s_add = sem_add(&sa, &sb);
        let s_sub = sem_sub_direct(&sa, &sb);
        let s_negb = sem_neg(&sb);
        let detail = |law: &str, got: Value| json!({"law": law, "a": show(&a), "b": show(&b), "got": got, "construction": "extremes"});
        let at_edge = |s: &Option<Sem>| s.as_ref().is_some_and(|s| s.values().any(|v| *v == i128::MIN || *v == i128::MAX));
        if at_edge(&s_add) {
            ctx.count("feature/extreme-sum-on-edge");
        }
        if at_edge(&s_sub) {
            ctx.count("feature/extreme-difference-on-edge");
            if a.len() < b.len() {
                ctx.count("feature/extreme-difference-on-edge-smaller-left");
            }
        }
        ctx.eval();
        ctx.nontrivial(fnv64(format!("{:?}{:?}", show(&a), show(&b)).as_bytes()));
        // a plain operator may panic (checked profile) or wrap (release) only when the exact result does
        // not fit; a checked operator says None exactly then
        let run = |f: &dyn Fn() -> CanonicalAssets| crate::panics::catch(|| f());
        if let Some(want) = &s_add {
            for (name, r) in [("a+b", run(&|| a.clone() + b.clone())), ("b+a", run(&|| b.clone() + a.clone()))] {
                match r {
                    Ok(v) if sem(&v) == *want => {}
                    Ok(v) => ctx.violation("extreme:add", detail(name, show(&v))),
                    Err(p) => ctx.violation(format!("extreme:add:{}", p.signature()), detail(name, json!(p.message))),
                }
            }
        }
        match (crate::panics::catch(|| a.clone().checked_add(b.clone())), &s_add) {
            (Ok(Some(v)), Some(want)) if sem(&v) == *want => {}
            (Ok(None), None) => ctx.count("feature/extreme-checked-none"),
            (Ok(got), _) => ctx.violation("extreme:checked_add", detail("checked_add vs reference", json!(got.map(|v| show(&v))))),
            (Err(p), _) => ctx.violation(format!("extreme:checked_add:{}", p.signature()), detail("checked_add", json!(p.message))),
        }
        if let Some(want) = &s_sub {
            match run(&|| a.clone() - b.clone()) {
                Ok(v) if sem(&v) == *want => {
                    // (a - b) + b == a always fits
                    match run(&|| v.clone() + b.clone()) {
                        Ok(back) if back == a && sem(&back) == sa => {}
                        Ok(back) => ctx.violation("extreme:sub-then-add", detail("(a-b)+b == a", show(&back))),
                        Err(p) => ctx.violation(format!("extreme:sub-then-add:{}", p.signature()), detail("(a-b)+b", json!(p.message))),
                    }
                    if s_negb.is_some() {
                        match run(&|| a.clone() + (-b.clone())) {
                            Ok(w) if w == v => {}
                            Ok(w) => ctx.violation("extreme:sub-is-add-neg", detail("a-b == a+(-b)", json!([show(&v), show(&w)]))),
                            Err(p) => ctx.violation(format!("extreme:add-neg:{}", p.signature()), detail("a+(-b)", json!(p.message))),
                        }
                    }
                }
                Ok(v) => ctx.violation("extreme:sub", detail("a-b vs reference", show(&v))),
                Err(p) => ctx.violation(format!("extreme:sub:{}", p.signature()), detail("a-b", json!(p.message))),
            }
        }
        match (crate::panics::catch(|| a.clone().checked_sub(b.clone())), &s_sub, &s_negb) {
            (Ok(Some(v)), Some(want), _) if sem(&v) == *want => {}
            (Ok(None), None, _) | (Ok(None), _, None) => ctx.count("feature/extreme-checked-none"),
            (Ok(got), _, _) => ctx.violation("extreme:checked_sub", detail("checked_sub vs reference", json!(got.map(|v| show(&v))))),
            (Err(p), _, _) => ctx.violation(format!("extreme:checked_sub:{}", p.signature()), detail("checked_sub", json!(p.message))),
        }
        match (crate::panics::catch(|| b.clone().checked_neg()), &s_negb) {
            (Ok(Some(v)), Some(want)) if sem(&v) == *want => {}
            (Ok(None), None) => ctx.count("feature/extreme-checked-none"),
            (Ok(got), _) => ctx.violation("extreme:checked_neg", detail("checked_neg vs reference", json!(got.map(|v| show(&v))))),
            (Err(p), _) => ctx.violation(format!("extreme:checked_neg:{}", p.signature()), detail("checked_neg", json!(p.message))),
        }
        if let Some(want) = &s_negb {
            match run(&|| -b.clone()) {
                Ok(v) if sem(&v) == *want => {}
                Ok(v) => ctx.violation("extreme:neg", detail("-b vs reference", show(&v))),
                Err(p) => ctx.violation(format!("extreme:neg:{}", p.signature()), detail("-b", json!(p.message))),
            }
        }
        // the reducer: a representable result (for sub: with -b representable, which is how it computes)
        // is produced; otherwise an error, never another value
        let (ea, eb) = (to_expr(&a), to_expr(&b));
        let sub_want = if s_negb.is_some() { s_sub.clone() } else { None };
        for (name, op, want, must) in [
            ("add", BuiltInOp::Add(ea.clone(), eb.clone()), &s_add, true),
            ("sub", BuiltInOp::Sub(ea.clone(), eb.clone()), &sub_want, s_negb.is_some() || s_sub.is_none()),
            ("neg", BuiltInOp::Negate(eb.clone()), &s_negb, true),
        ] {
            let r = crate::panics::catch(|| Expression::EvalBuiltIn(Box::new(op)).reduce());
            ctx.count("feature/reducer-op");
            match (r, want) {
                (Ok(Ok(e)), Some(w)) if expr_sem(&e).as_ref() == Some(w) => {}
                (Ok(Err(_)), None) => {}
                (Ok(Err(_)), Some(_)) if !must => {}
                (Ok(Ok(e)), None) if !must && s_sub.is_some() && expr_sem(&e) == s_sub => {}
                (Ok(Ok(e)), _) => ctx.violation(format!("extreme:reducer:{name}"), detail("reduce(op) vs reference", json!(format!("{:?}", expr_sem(&e))))),
                (Ok(Err(e)), _) => ctx.violation(format!("extreme:reducer-error:{name}"), detail("reduce(op) errored on a representable result", json!(e.to_string()))),
                (Err(p), _) => ctx.violation(format!("extreme:reducer-{}:{name}", p.signature()), detail("reduce(op) panicked", json!(p.message))),
            }
        }
    }

    /// Asset-expression lists as the lowering and the argument application produce them - one class in
    /// several spellings (absent / empty bytes / empty hash / empty string parts, Bytes vs Hash vs String),
    /// repeated classes, zero amounts - converted as a whole, entry by entry, and through the reducer.
    fn list_case(&self, ctx: &mut Ctx, rng: &mut Rng) {
        let policies: Vec<Vec<u8>> = vec![vec![0xaa; 28], vec![0xbb; 28], vec![0xaa]];
        let names: Vec<Vec<u8>> = vec![b"TOK".to_vec(), b"t".to_vec(), vec![0xaa; 28]];
        let mut entry = |rng: &mut Rng| -> AssetExpr {
            let policy = match rng.below(7) {
                0 => Expression::None,
                1 => Expression::Bytes(vec![]),
                2 => Expression::Hash(vec![]),
                3 | 4 => Expression::Bytes(rng.pick(&policies).clone()),
                _ => Expression::Hash(rng.pick(&policies).clone()),
            };
            let asset_name = match rng.below(7) {
                0 => Expression::None,
                1 => Expression::Bytes(vec![]),
                2 => Expression::String(String::new()),
                3 | 4 => Expression::Bytes(rng.pick(&names).clone()),
                _ => {
                    let n = rng.pick(&names).clone();
                    match String::from_utf8(n.clone()) {
                        Ok(s) => Expression::String(s),
                        Err(_) => Expression::Bytes(n),
                    }
                }
            };
            let amount = if rng.chance(1, 5) { rng.boundary_int() >> 4 } else { rng.range(-3, 9) as i128 };
            AssetExpr { policy, asset_name, amount: Expression::Number(amount) }
        };
        let la: Vec<AssetExpr> = (0..rng.usize(5)).map(|_| entry(rng)).collect();
        let lb: Vec<AssetExpr> = (0..rng.usize(4)).map(|_| entry(rng)).collect();
        let (Some(sa), Some(sb)) = (list_sem(&la), list_sem(&lb)) else {
            ctx.count("skipped/overflow");
            return;
        };
        let empty_spelling = |l: &[AssetExpr]| {
            l.iter().any(|e| {
                matches!(&e.policy, Expression::Bytes(x) | Expression::Hash(x) if x.is_empty())
                    || matches!(&e.asset_name, Expression::Bytes(x) if x.is_empty())
                    || matches!(&e.asset_name, Expression::String(x) if x.is_empty())
            })
        };
        if empty_spelling(&la) || empty_spelling(&lb) {
            ctx.count("feature/list-empty-part-spelling");
        }
        if la.len() > sa.len() {
            ctx.count("feature/list-class-repeated");
        }
        ctx.eval();
        ctx.nontrivial(fnv64(format!("{:?}{:?}", show_list(&la), show_list(&lb)).as_bytes()));
        let detail = |law: &str, got: Value| json!({"law": law, "a": show_list(&la), "b": show_list(&lb), "got": got, "construction": "lists"});
        let whole = match crate::panics::catch(|| CanonicalAssets::from(la.clone())) {
            Ok(v) => v,
            Err(p) => {
                ctx.violation(format!("list:{}", p.signature()), detail("From<Vec<AssetExpr>>", json!(p.message)));
                return;
            }
        };
        let mut by_entry = CanonicalAssets::empty();
        for e in &la {
            by_entry = by_entry + CanonicalAssets::from(e.clone());
        }
        if whole != by_entry {
            ctx.violation("list:whole-vs-entries", detail("from(list) == sum of from(entry)", json!([show(&whole), show(&by_entry)])));
        }
        if sem(&whole) != sa {
            ctx.violation("list:whole-vs-reference", detail("from(list) vs reference", json!([show(&whole), show_sem(&sa)])));
        }
        // the value survives value -> list -> value
        let rt = CanonicalAssets::from(Vec::<AssetExpr>::from(whole.clone()));
        if rt != whole {
            ctx.violation("list:roundtrip", detail("from(list) -> list -> value", json!([show(&whole), show(&rt)])));
        }
        // the reducer over the lists as written
        let (Some(s_add), Some(s_sub), Some(s_neg)) = (sem_add(&sa, &sb), sem_sub(&sa, &sb), sem_neg(&sb)) else {
            ctx.count("skipped/overflow");
            return;
        };
        for (name, op, want) in [
            ("add", BuiltInOp::Add(Expression::Assets(la.clone()), Expression::Assets(lb.clone())), &s_add),
            ("sub", BuiltInOp::Sub(Expression::Assets(la.clone()), Expression::Assets(lb.clone())), &s_sub),
            ("neg", BuiltInOp::Negate(Expression::Assets(lb.clone())), &s_neg),
            ("sub-self", BuiltInOp::Sub(Expression::Assets(la.clone()), Expression::Assets(la.clone())), &Sem::new()),
        ] {
            let r = crate::panics::catch(|| Expression::EvalBuiltIn(Box::new(op)).reduce());
            ctx.count("feature/reducer-op");
            match r {
                Ok(Ok(e)) => match &e {
                    Expression::Assets(out) if list_sem(out).as_ref() == Some(want) => {}
                    Expression::None if want.is_empty() => {}
                    other => ctx.violation(format!("list:reducer:{name}"), detail("reduce(op) over lists vs reference", json!(format!("{other:?}")))),
                },
                Ok(Err(e)) => ctx.violation(format!("list:reducer-error:{name}"), detail("reduce(op) errored", json!(e.to_string()))),
                Err(p) => ctx.violation(format!("list:reducer-{}:{name}", p.signature()), detail("reduce(op) panicked", json!(p.message))),
            }
        }
    }

    fn random_value(&self, rng: &mut Rng, pool: &[AssetClass], small: bool) -> CanonicalAssets {
        let n = rng.usize(4);
        let mut acc = CanonicalAssets::empty();
        for _ in 0..n {
            let class = rng.pick(pool).clone();
            let amount = if small {
                rng.range(-3, 3) as i128
            } else {
                // stay clear of overflow: |x| < 2^125
                rng.boundary_int() >> 3
            };
            // `from_class_and_amount` bypasses the normalisation the other constructors apply
            // (empty policy => Named, empty name => Naked); a class in non-normal form is a key no
            // other constructor can produce and is therefore only fed through the normalising ones
            let canonical = match &class {
                AssetClass::Naked => true,
                AssetClass::Named(n) => !n.is_empty(),
                AssetClass::Defined(p, _) => !p.is_empty(),
            };
            let v = match rng.below(4) {
                0 if canonical => CanonicalAssets::from_class_and_amount(class, amount),
                _ => single(&class, amount),
            };
            // the first summand may be used alone (keeps explicit zero entries)
            acc = if acc.iter().count() == 0 && rng.bool() { v } else { acc + v };
        }
        acc
    }
}

impl Property for C15 {
    fn id(&self) -> &'static str {
        "C15"
    }

    fn rule(&self) -> String {
        "pairs/triples: every pair (triple) of representations of values over 3 asset classes (lovelace, two tokens) with amounts in the phase's range, where a representation = amounts x construction path (sum of singles, single constructor incl. amount 0, negation of a single, deserialised map with explicit zero entries for all, some or none of the zero classes); random: 0..3 summands over a pool of classes with policies/names of length 0..40 (Naked, Named, Defined), amounts across the i128 range kept below 2^125 so that no sum overflows; extremes: operands built without arithmetic (deserialised maps) over 4 classes with amounts on and next to i128::MIN / i128::MAX / half-range, in correlated pairs so that exact sums and differences land on the range ends, left operand smaller or larger than the right, in the release and the overflow-checking profile - every plain, checked and reducer operation whose exact result is representable must produce it and a checked one says None exactly otherwise; lists: asset-expression lists of 0..4 entries with one class in several spellings (absent / empty Bytes / empty Hash / empty String parts, Bytes vs Hash vs String), repeated classes and zero amounts, converted as a whole, entry by entry, against an independent reading, and through the reducer's Add/Sub/Negate. A case is non-trivial when both operands are semantically non-empty or one carries an explicit zero entry; distinct = distinct (a, b[, c]) entry lists incl. zero entries.".into()
    }

    fn assumptions(&self) -> Vec<String> {
        vec![
            "reference arithmetic: BTreeMap<AssetClass,i128> with checked i128 ops; overflowing cases are skipped as the statement excludes overflow".into(),
            "contains_some is compared with 'b is empty, or a and b share a class in which both are positive'; the statement itself only pins contains (= contains_total)".into(),
        ]
    }

    fn phases(&self, tier: Tier) -> Vec<Phase> {
        let full = reps(-2, 2).len() as u64;
        let small = reps(-1, 1).len() as u64;
        match tier {
            Tier::Quick => vec![
                Phase::new("pairs", full * full, Profile::Release).exhaustive(),
                Phase::new("triples-small", small * small, Profile::Release).exhaustive(),
                Phase::new("random", 60_000, Profile::Release),
                Phase::new("extremes", 40_000, Profile::Release),
                Phase::new("extremes-checked", 40_000, Profile::Checked),
                Phase::new("lists", 40_000, Profile::Release),
            ],
            Tier::Thorough => vec![
                Phase::new("pairs", full * full, Profile::Release).exhaustive(),
                Phase::new("triples", full * full, Profile::Release).exhaustive(),
                Phase::new("random", 3_000_000, Profile::Release),
                Phase::new("random-checked", 300_000, Profile::Checked),
                Phase::new("extremes", 1_000_000, Profile::Release),
                Phase::new("extremes-checked", 1_000_000, Profile::Checked),
                Phase::new("lists", 1_000_000, Profile::Release),
                Phase::new("lists-checked", 200_000, Profile::Checked),
            ],
        }
    }

    fn required_features(&self, _tier: Tier) -> Vec<String> {
        vec![
            "feature/zero-entry-operand".into(),
            "feature/predicates-nonneg".into(),
            "feature/reducer-op".into(),
            "feature/assoc-triple".into(),
            "feature/random-named-class".into(),
            "feature/random-empty-policy".into(),
            "feature/extreme-sum-on-edge".into(),
            "feature/extreme-difference-on-edge".into(),
            "feature/extreme-difference-on-edge-smaller-left".into(),
            "feature/extreme-checked-none".into(),
            "feature/list-empty-part-spelling".into(),
            "feature/list-class-repeated".into(),
            "feature/equal-values-padded-on-different-classes".into(),
        ]
    }

    fn run_case(&self, ctx: &mut Ctx, phase: &str, idx: u64, rng: &mut Rng) {
        match phase {
            "pairs" => {
                let r = reps(-2, 2);
                let n = r.len() as u64;
                let (i, j) = ((idx / n) as usize, (idx % n) as usize);
                let a = build(&r[i]);
                let b = build(&r[j]);
                let tag = format!("{}|{}", path_tag(r[i].path), path_tag(r[j].path));
                self.binary_checks(ctx, &a, &b, &tag, true);
                if (!sem(&a).is_empty() && !sem(&b).is_empty()) || has_zero_entry(&a) || has_zero_entry(&b) {
                    ctx.nontrivial(fnv64(format!("{:?}{:?}", show(&a), show(&b)).as_bytes()));
                }
                if idx % 9973 == 0 {
                    ctx.sample(|| json!({"phase": "pairs", "a": show(&a), "b": show(&b), "construction": tag}));
                }
            }
            "extremes" | "extremes-checked" => self.extreme_case(ctx, rng),
            "lists" | "lists-checked" => self.list_case(ctx, rng),
            "triples" | "triples-small" => {
                let r = if phase == "triples" { reps(-2, 2) } else { reps(-1, 1) };
                let n = r.len() as u64;
                let (i, j) = ((idx / n) as usize, (idx % n) as usize);
                let a = build(&r[i]);
                let b = build(&r[j]);
                let ab = a.clone() + b.clone();
                for rc in &r {
                    let c = build(rc);
                    let l = ab.clone() + c.clone();
                    let rr = a.clone() + (b.clone() + c.clone());
                    ctx.eval();
                    ctx.count("feature/assoc-triple");
                    if l != rr {
                        let zk = if has_zero_entry(&a) || has_zero_entry(&b) || has_zero_entry(&c) { "zero-entry" } else { "no-zero-entry" };
                        ctx.violation(
                            format!("law:associativity:{zk}"),
                            json!({"law": "(a+b)+c == a+(b+c)", "a": show(&a), "b": show(&b), "c": show(&c), "got": [show(&l), show(&rr)]}),
                        );
                    }
                    let want = sem_add(&sem_add(&sem(&a), &sem(&b)).unwrap(), &sem(&c)).unwrap();
                    if sem(&l) != want || sem(&rr) != want {
                        ctx.violation("op:add3", json!({"a": show(&a), "b": show(&b), "c": show(&c), "got": [show(&l), show(&rr)]}));
                    }
                    if !sem(&a).is_empty() && !sem(&b).is_empty() && !sem(&c).is_empty() {
                        ctx.nontrivial(fnv64(format!("{:?}{:?}{:?}", show(&a), show(&b), show(&c)).as_bytes()));
                    }
                }
                if idx % 4999 == 0 {
                    ctx.sample(|| json!({"phase": phase, "a": show(&a), "b": show(&b), "c": "every representation"}));
                }
            }
            _ => {
                // random
                let mut pool: Vec<AssetClass> = vec![AssetClass::Naked];
                if idx % 3 == 0 {
                    // classes over a two-letter alphabet with policy and name of 0..2 bytes: different classes
                    // whose policy ++ name concatenations, lengths or bytes coincide (Defined("ab","c") /
                    // Defined("a","bc") / Named("abc"), Defined(p,"") / Named(p)) - anything that identifies a
                    // class by less than (kind, policy, name) merges them
                    ctx.count("feature/colliding-class-family");
                    for _ in 0..4 {
                        let mut word = |rng: &mut Rng| -> Vec<u8> { (0..rng.usize(3)).map(|_| b'a' + rng.below(2) as u8).collect() };
                        let (p, n) = (word(rng), word(rng));
                        pool.push(match rng.below(3) {
                            0 => AssetClass::Named([p, n].concat()),
                            _ => AssetClass::Defined(p, n),
                        });
                    }
                }
                for _ in 0..3 {
                    let pl = *rng.pick(&[0usize, 1, 28, 28, 28, 32, 40]);
                    let nl = *rng.pick(&[0usize, 1, 4, 8, 32, 40]);
                    let p = rng.bytes(pl);
                    let nm = rng.bytes(nl);
                    if pl == 0 {
                        ctx.count("feature/random-empty-policy");
                    }
                    pool.push(match rng.below(4) {
                        0 => {
                            ctx.count("feature/random-named-class");
                            AssetClass::Named(nm)
                        }
                        _ => AssetClass::Defined(p, nm),
                    });
                }
                let small = rng.chance(1, 4);
                let a = self.random_value(rng, &pool, small);
                let b = self.random_value(rng, &pool, small);
                let c = self.random_value(rng, &pool, small);
                self.binary_checks(ctx, &a, &b, "random", idx % 4 == 0);
                if idx % 3 == 1 {
                    // one value, deserialised twice with explicit zero entries on (possibly) different classes
                    let mut pad = |v: &CanonicalAssets| {
                        let mut m: HashMap<AssetClass, i128> = v.iter().map(|(k, x)| (k.clone(), *x)).collect();
                        for _ in 0..1 + rng.usize(2) {
                            m.entry(rng.pick(&pool).clone()).or_insert(0);
                        }
                        deserialise(&m)
                    };
                    let (a1, a2) = (pad(&a), pad(&a));
                    self.binary_checks(ctx, &a1, &a2, "random-padded", false);
                    self.binary_checks(ctx, &a1, &a, "random-padded", false);
                }
                // associativity
                let (sa, sb, sc) = (sem(&a), sem(&b), sem(&c));
                if let Some(want) = sem_add(&sa, &sb).and_then(|x| sem_add(&x, &sc)) {
                    if sem_add(&sb, &sc).is_some() {
                        let l = (a.clone() + b.clone()) + c.clone();
                        let r = a.clone() + (b.clone() + c.clone());
                        ctx.eval();
                        ctx.count("feature/assoc-triple");
                        if l != r {
                            ctx.violation(
                                format!("law:associativity:{}", if has_zero_entry(&a) || has_zero_entry(&b) || has_zero_entry(&c) { "zero-entry" } else { "no-zero-entry" }),
                                json!({"a": show(&a), "b": show(&b), "c": show(&c), "got": [show(&l), show(&r)]}),
                            );
                        }
                        if sem(&l) != want {
                            ctx.violation("op:add3", json!({"a": show(&a), "b": show(&b), "c": show(&c), "got": show(&l)}));
                        }
                    }
                }
                if (!sa.is_empty() && !sb.is_empty()) || has_zero_entry(&a) || has_zero_entry(&b) {
                    ctx.nontrivial(fnv64(format!("{:?}{:?}{:?}", show(&a), show(&b), show(&c)).as_bytes()));
                }
                if idx % 20011 == 0 {
                    ctx.sample(|| json!({"phase": phase, "a": show(&a), "b": show(&b), "c": show(&c)}));
                }
            }
        }
    }
}
