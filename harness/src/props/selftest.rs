//! Self-tests of the instruments (a failure is a harness error, never a verdict).

use crate::decode::tx::plutus_data_from_bytes;
use crate::gen::ast::*;
use crate::gen::sem::*;
use num_bigint::BigInt;

fn b(n: i64) -> BigInt {
    BigInt::from(n)
}

pub fn semantics_self_test() -> Result<(), String> {
    // hand-translated `transfer` with a change output, a record datum with spread, a burn and a chain a-b-c
    let rec = TypeDef { name: "State".into(), record: true, cases: vec![Case { name: "Default".into(), fields: vec![("lock".into(), Ty::Int), ("owner".into(), Ty::Bytes), ("n".into(), Ty::Int)] }] };
    let prog = Program {
        parties: vec!["Sender".into(), "Receiver".into()],
        assets: vec![Asset { name: "Tok".into(), policy: vec![7; 28], asset_name: b"T".to_vec(), name_as_string: true, raw_policy: None, raw_asset_name: None }],
        types: vec![rec],
        txs: vec![TxDef {
            name: "transfer".into(),
            params: vec![("quantity".into(), Ty::Int)],
            inputs: vec![Input { name: "source".into(), from: Some(E::Party("Sender".into())), datum_is: Some(Ty::Custom("State".into())), ..Default::default() }],
            outputs: vec![
                Output { to: Some(E::Party("Receiver".into())), amount: Some(E::Ada(Box::new(E::Param("quantity".into())))), ..Default::default() },
                Output {
                    to: Some(E::Party("Sender".into())),
                    amount: Some(E::Sub(
                        Box::new(E::Sub(Box::new(E::InputValue("source".into())), Box::new(E::Ada(Box::new(E::Param("quantity".into())))))),
                        Box::new(E::Fees),
                    )),
                    datum: Some(E::Struct {
                        ty: "State".into(),
                        case: None,
                        case_index: 0,
                        def_fields: vec!["lock".into(), "owner".into(), "n".into()],
                        fields: vec![(
                            "n".into(),
                            E::Sub(Box::new(E::Sub(Box::new(E::Prop(Box::new(E::InputDatum("source".into())), "n".into(), 2)), Box::new(E::Int(3)))), Box::new(E::Int(4))),
                        )],
                        spread: Some(Box::new(E::InputDatum("source".into()))),
                    }),
                    ..Default::default()
                },
            ],
            burns: vec![MintBlock { amount: E::AssetCall("Tok".into(), Box::new(E::Int(5))), redeemer: None }],
            ..Default::default()
        }],
        ..Default::default()
    };
    let mut w = World { fee: 7, network: 0, tip_slot: 100, tip_time: 1000, ..Default::default() };
    w.args.insert("quantity".into(), V::Int(b(100)));
    w.args.insert("sender".into(), V::Address(vec![0x60; 29]));
    w.args.insert("receiver".into(), V::Address(vec![0x61; 29]));
    let mut assets = Assets::new();
    assets.insert(None, b(1000));
    w.inputs.insert(
        "source".into(),
        vec![UtxoV { txid: vec![1; 32], index: 2, address: vec![0x60; 29], assets, datum: Some(V::Constr(0, vec![V::Int(b(9)), V::Bytes(vec![1, 2]), V::Int(b(50))])) }],
    );
    let exp = Sem::new(&prog, &w).tx(&prog.txs[0]).map_err(|e| format!("semantics self-test: {e:?}"))?;
    let ok = exp.outputs.len() == 2
        && exp.outputs[0].lovelace == b(100)
        && exp.outputs[1].lovelace == b(893)
        && exp.outputs[1].datum == Some(PD::Constr(0, vec![PD::Int(b(9)), PD::Bytes(vec![1, 2]), PD::Int(b(43))]))
        && exp.mint.get(&(vec![7; 28], b"T".to_vec())) == Some(&b(-5))
        && exp.inputs.contains(&(vec![1; 32], 2))
        && exp.fee == b(7);
    if !ok {
        return Err(format!("semantics self-test: unexpected denotation {exp:?}"));
    }
    // printer: the program must print to the text we expect a human would write
    let text = print_program(&prog, Layout::plain());
    for needle in ["party Sender;", "tx transfer(quantity:Int)", "amount:source-Ada(quantity)-fees,", "...source}", "burn{amount:Tok(5),"] {
        if !text.replace(' ', "").replace('\n', "").contains(&needle.replace(' ', "")) {
            return Err(format!("printer self-test: {needle:?} not found in {text}"));
        }
    }
    plutus_data_self_test()
}

pub fn plutus_data_self_test() -> Result<(), String> {
    let cases: Vec<(&str, PD)> = vec![
        ("d87980", PD::Constr(0, vec![])),
        ("d87f9f0102ff", PD::Constr(6, vec![PD::Int(b(1)), PD::Int(b(2))])),
        ("d9050081182a", PD::Constr(7, vec![PD::Int(b(42))])),
        ("d9057880", PD::Constr(127, vec![])),
        ("d8668218808101", PD::Constr(128, vec![PD::Int(b(1))])),
        ("c249010000000000000000", PD::Int(BigInt::from(1u8) << 64usize)),
        ("c349010000000000000000", PD::Int(-(BigInt::from(1u8) << 64usize) - BigInt::from(1))),
        ("5f4101420203ff", PD::Bytes(vec![1, 2, 3])),
        ("a1014102", PD::Map(vec![(PD::Int(b(1)), PD::Bytes(vec![2]))])),
        ("3863", PD::Int(b(-100))),
    ];
    for (hexs, want) in cases {
        let got = plutus_data_from_bytes(&hex::decode(hexs).unwrap()).map_err(|e| format!("plutus-data self-test {hexs}: {e}"))?;
        if got != want {
            return Err(format!("plutus-data self-test {hexs}: got {got:?}, want {want:?}"));
        }
    }
    for bad in ["d88080", "d86681", "f6"] {
        if plutus_data_from_bytes(&hex::decode(bad).unwrap()).is_ok() {
            return Err(format!("plutus-data self-test: {bad} should not be accepted"));
        }
    }
    Ok(())
}
