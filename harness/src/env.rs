//! Execution environment: in-memory UtxoStore with an event log, a monitored compiler wrapper,
//! protocol parameters, conversions between the reference world and the repo's types.

use crate::gen::sem::{Assets, UtxoV, World, V};
use num_bigint::BigInt;
use std::cell::RefCell;
use std::sync::Mutex;
use std::collections::{BTreeMap, HashMap, HashSet};
use tx3_cardano::{ChainPoint, Compiler, Config, PParams};
use tx3_resolver::{Error as ResolverError, UtxoPattern, UtxoStore};
use tx3_tir::compile::{CompiledTx, Compiler as CompilerTrait};
use tx3_tir::encoding::AnyTir;
use tx3_tir::model::assets::{AssetClass, CanonicalAssets};
use tx3_tir::model::core::{Utxo, UtxoRef, UtxoSet};
use tx3_tir::model::v1beta0 as tir;
use tx3_tir::reduce::ArgValue;

pub const TIP_SLOT: u64 = 101_674_141;
pub const TIP_TIME: u128 = 1_757_611_408_000;

/// A cost model of the right arity for each language (values are irrelevant to the properties; the
/// language view is only hashed).
pub fn cost_models() -> HashMap<u8, Vec<i64>> {
    cost_models_salted(0)
}

/// `salt` shifts every value: two protocol-parameter sets with different salts have different language
/// views (and script-data hashes) for the same language
pub fn cost_models_salted(salt: i64) -> HashMap<u8, Vec<i64>> {
    let v1: Vec<i64> = (0..166).map(|i| 1000 + i * 7 + salt).collect();
    let v2: Vec<i64> = (0..175).map(|i| 2000 + i * 5 + salt).collect();
    let v3: Vec<i64> = (0..297).map(|i| 3000 + i * 3 + salt).collect();
    HashMap::from([(0, v1), (1, v2), (2, v3)])
}

#[derive(Clone, Debug)]
pub struct PP {
    pub mainnet: bool,
    pub a: u64,
    pub b: u64,
    pub coins_per_utxo_byte: u64,
    pub extra_fees: Option<u64>,
    pub cost_models: Vec<u8>,
    /// see `cost_models_salted`
    pub cost_salt: i64,
}

impl Default for PP {
    fn default() -> Self {
        PP { mainnet: false, a: 44, b: 155_381, coins_per_utxo_byte: 4310, extra_fees: None, cost_models: vec![0, 1, 2], cost_salt: 0 }
    }
}

pub fn compiler(pp: &PP) -> Compiler {
    let all = cost_models_salted(pp.cost_salt);
    let pparams = PParams {
        network: if pp.mainnet { tx3_cardano::Network::Mainnet } else { tx3_cardano::Network::Testnet },
        min_fee_coefficient: pp.a,
        min_fee_constant: pp.b,
        coins_per_utxo_byte: pp.coins_per_utxo_byte,
        cost_models: pp.cost_models.iter().filter_map(|l| all.get(l).map(|m| (*l, m.clone()))).collect(),
    };
    Compiler::new(
        pparams,
        Config { extra_fees: pp.extra_fees },
        ChainPoint { slot: TIP_SLOT, hash: vec![], timestamp: TIP_TIME },
    )
}

// ---------------------------------------------------------------------------------------------
// conversions reference world -> repo types

pub fn to_canonical_assets(a: &Assets) -> Option<CanonicalAssets> {
    let mut acc = CanonicalAssets::empty();
    for (class, amount) in a {
        let amount: i128 = amount.try_into().ok()?;
        let one = match class {
            None => CanonicalAssets::from_naked_amount(amount),
            Some((p, n)) => CanonicalAssets::from_class_and_amount(AssetClass::Defined(p.clone(), n.clone()), amount),
        };
        acc = acc + one;
    }
    Some(acc)
}

pub fn v_to_expr(v: &V) -> Option<tir::Expression> {
    Some(match v {
        V::Int(n) => tir::Expression::Number(n.try_into().ok()?),
        V::Bytes(b) => tir::Expression::Bytes(b.clone()),
        V::Str(s) => tir::Expression::String(s.clone()),
        V::Bool(b) => tir::Expression::Bool(*b),
        V::Unit => tir::Expression::Struct(tir::StructExpr::unit()),
        V::List(xs) => tir::Expression::List(xs.iter().map(v_to_expr).collect::<Option<_>>()?),
        V::Map(kvs) => tir::Expression::Map(kvs.iter().map(|(k, v)| Some((v_to_expr(k)?, v_to_expr(v)?))).collect::<Option<_>>()?),
        V::Constr(i, fs) => tir::Expression::Struct(tir::StructExpr {
            constructor: *i as usize,
            fields: fs.iter().map(v_to_expr).collect::<Option<_>>()?,
        }),
        V::Address(a) => tir::Expression::Address(a.clone()),
        V::Assets(_) | V::Refs(_) => return None,
    })
}

pub fn to_utxo(u: &UtxoV) -> Option<Utxo> {
    Some(Utxo {
        r#ref: UtxoRef { txid: u.txid.clone(), index: u.index as u32 },
        address: u.address.clone(),
        assets: to_canonical_assets(&u.assets)?,
        datum: match &u.datum {
            Some(d) => Some(v_to_expr(d)?),
            None => None,
        },
        script: None,
    })
}

pub fn v_to_arg(v: &V) -> Option<ArgValue> {
    Some(match v {
        V::Int(n) => ArgValue::Int(n.try_into().ok()?),
        V::Bytes(b) => ArgValue::Bytes(b.clone()),
        V::Str(s) => ArgValue::String(s.clone()),
        V::Bool(b) => ArgValue::Bool(*b),
        V::Address(a) => ArgValue::Address(a.clone()),
        V::Refs(r) if r.len() == 1 => ArgValue::UtxoRef(UtxoRef { txid: r[0].0.clone(), index: r[0].1 as u32 }),
        _ => return None,
    })
}

pub fn world_args(w: &World) -> Option<BTreeMap<String, ArgValue>> {
    w.args.iter().map(|(k, v)| Some((k.clone(), v_to_arg(v)?))).collect()
}

pub fn world_inputs(w: &World, collateral_name: Option<&str>) -> Option<BTreeMap<String, HashSet<Utxo>>> {
    let mut out = BTreeMap::new();
    for (name, us) in &w.inputs {
        out.insert(name.clone(), us.iter().map(to_utxo).collect::<Option<HashSet<_>>>()?);
    }
    if let Some(c) = collateral_name {
        out.insert(c.to_string(), w.collateral.iter().map(to_utxo).collect::<Option<HashSet<_>>>()?);
    }
    Some(out)
}

pub fn bigint(n: i128) -> BigInt {
    BigInt::from(n)
}

// ---------------------------------------------------------------------------------------------
// store with event log

#[derive(Clone, Debug, PartialEq)]
pub enum StoreEvent {
    NarrowByAddress(Vec<u8>, usize),
    NarrowByPolicy(Vec<u8>, usize),
    NarrowByAsset(Vec<u8>, Vec<u8>, usize),
    Fetch(Vec<UtxoRef>, usize),
}

#[derive(Default)]
pub struct LoggedStore {
    pub utxos: Vec<Utxo>,
    pub log: Mutex<Vec<StoreEvent>>,
}

impl LoggedStore {
    pub fn new(utxos: Vec<Utxo>) -> Self {
        LoggedStore { utxos, log: Mutex::new(vec![]) }
    }
    pub fn events(&self) -> Vec<StoreEvent> {
        self.log.lock().unwrap().clone()
    }
    pub fn clear_log(&self) {
        self.log.lock().unwrap().clear();
    }
    fn narrow(&self, pattern: &UtxoPattern<'_>) -> HashSet<UtxoRef> {
        self.utxos
            .iter()
            .filter(|u| match pattern {
                UtxoPattern::ByAddress(a) => u.address.as_slice() == *a,
                UtxoPattern::ByAssetPolicy(p) => u.assets.iter().any(|(c, q)| *q > 0 && c.policy() == Some(*p)),
                UtxoPattern::ByAsset(p, n) => u
                    .assets
                    .iter()
                    .any(|(c, q)| *q > 0 && matches!(c, AssetClass::Defined(cp, cn) if cp.as_slice() == *p && cn.as_slice() == *n)),
            })
            .map(|u| u.r#ref.clone())
            .collect()
    }
}

impl UtxoStore for LoggedStore {
    async fn narrow_refs(&self, pattern: UtxoPattern<'_>) -> Result<HashSet<UtxoRef>, ResolverError> {
        let out = self.narrow(&pattern);
        let ev = match pattern {
            UtxoPattern::ByAddress(a) => StoreEvent::NarrowByAddress(a.to_vec(), out.len()),
            UtxoPattern::ByAssetPolicy(p) => StoreEvent::NarrowByPolicy(p.to_vec(), out.len()),
            UtxoPattern::ByAsset(p, n) => StoreEvent::NarrowByAsset(p.to_vec(), n.to_vec(), out.len()),
        };
        self.log.lock().unwrap().push(ev);
        Ok(out)
    }

    async fn fetch_utxos(&self, refs: HashSet<UtxoRef>) -> Result<UtxoSet, ResolverError> {
        // a dangling reference is simply not returned (the trait has no "not found" error)
        let out: UtxoSet = self.utxos.iter().filter(|u| refs.contains(&u.r#ref)).cloned().collect();
        let mut asked: Vec<UtxoRef> = refs.into_iter().collect();
        asked.sort_by(|a, b| (&a.txid, a.index).cmp(&(&b.txid, b.index)));
        self.log.lock().unwrap().push(StoreEvent::Fetch(asked, out.len()));
        Ok(out)
    }
}

// ---------------------------------------------------------------------------------------------
// monitored compiler

#[derive(Clone, Debug)]
pub struct Round {
    /// fee found in the TIR handed to `compile` (what was applied for this round)
    pub fee_applied: Option<i128>,
    pub payload_len: usize,
    pub fee_reported: u64,
    pub ok: bool,
}

pub struct MonitoredCompiler {
    pub inner: Compiler,
    pub rounds: Vec<Round>,
    pub reduce_ops: RefCell<Vec<String>>,
}

impl MonitoredCompiler {
    pub fn new(inner: Compiler) -> Self {
        MonitoredCompiler { inner, rounds: vec![], reduce_ops: RefCell::new(vec![]) }
    }
}

impl CompilerTrait for MonitoredCompiler {
    type CompilerOp = tir::CompilerOp;
    type Expression = tir::Expression;

    fn compile(&mut self, t: &AnyTir) -> Result<CompiledTx, tx3_tir::compile::Error> {
        let fee_applied = match t {
            AnyTir::V1Beta0(tx) => match &tx.fees {
                tir::Expression::Number(n) => Some(*n),
                tir::Expression::Assets(a) if a.len() == 1 => a[0].amount.as_number(),
                _ => None,
            },
        };
        let r = self.inner.compile(t);
        match &r {
            Ok(c) => self.rounds.push(Round { fee_applied, payload_len: c.payload.len(), fee_reported: c.fee, ok: true }),
            Err(_) => self.rounds.push(Round { fee_applied, payload_len: 0, fee_reported: 0, ok: false }),
        }
        r
    }

    fn reset(&mut self) {
        self.inner.reset();
    }

    fn reduce_op(&self, op: Self::CompilerOp) -> Result<Self::Expression, tx3_tir::reduce::Error> {
        let name = match &op {
            tir::CompilerOp::BuildScriptAddress(_) => "BuildScriptAddress",
            tir::CompilerOp::ComputeMinUtxo(_) => "ComputeMinUtxo",
            tir::CompilerOp::ComputeTipSlot => "ComputeTipSlot",
            tir::CompilerOp::ComputeSlotToTime(_) => "ComputeSlotToTime",
            tir::CompilerOp::ComputeTimeToSlot(_) => "ComputeTimeToSlot",
        };
        self.reduce_ops.borrow_mut().push(name.to_string());
        self.inner.reduce_op(op)
    }
}
