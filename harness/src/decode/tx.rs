//! Conway transaction view over the independent CBOR reader, and the Plutus-Data reader written
//! from the Plutus / Alonzo CDDL.

use super::cbor::{decode_all, Node, C};
use crate::gen::sem::{ExpOut, ExpTx, Meta, PD};
use num_bigint::{BigInt, Sign};
use std::collections::{BTreeMap, BTreeSet};

type R<T> = Result<T, String>;

/// Structural facts a node would care about (C10) that are not part of the field values.
#[derive(Clone, Debug, Default)]
pub struct Facts {
    pub body_range: (usize, usize),
    pub witness_range: (usize, usize),
    pub aux_range: Option<(usize, usize)>,
    pub redeemers_range: Option<(usize, usize)>,
    pub datums_range: Option<(usize, usize)>,
    pub aux_hash: Option<Vec<u8>>,
    pub script_data_hash: Option<Vec<u8>>,
    pub network_id: Option<u64>,
    pub duplicates: Vec<String>,
    pub empties: Vec<String>,
    pub unknown_body_keys: Vec<u64>,
    pub body_keys_in_order: Vec<u64>,
    pub is_valid: Option<bool>,
    pub script_langs_in_witness: Vec<u8>,
    pub has_native_scripts: bool,
    pub has_metadata: bool,
    pub has_redeemers: bool,
    pub raw_input_count: usize,
    pub zero_amounts: Vec<String>,
    pub certificates: usize,
    pub redeemer_ex_units: Vec<(u64, u64)>,
}

pub struct TxView {
    pub tx: ExpTx,
    pub facts: Facts,
    /// output index -> raw datum bytes (the bytes inside the #6.24 wrapper)
    pub datum_bytes: Vec<Option<Vec<u8>>>,
    pub redeemer_bytes: BTreeMap<(u8, u32), Vec<u8>>,
}

pub fn bigint_from_node(n: &Node) -> R<BigInt> {
    match &n.v {
        C::UInt(x) => Ok(BigInt::from(*x)),
        C::NInt(x) => Ok(-BigInt::from(*x) - 1),
        C::Tag(2, inner) => match &inner.v {
            C::Bytes(b, _) => Ok(BigInt::from_bytes_be(Sign::Plus, b)),
            _ => Err("tag 2 without bytes".into()),
        },
        C::Tag(3, inner) => match &inner.v {
            C::Bytes(b, _) => Ok(-BigInt::from_bytes_be(Sign::Plus, b) - 1),
            _ => Err("tag 3 without bytes".into()),
        },
        other => Err(format!("not an integer: {other:?}")),
    }
}

/// Plutus Data per the CDDL: constr = #6.121..127 / #6.1280..1400 / #6.102([uint, [* data]]),
/// map, list, int / big_int, bounded bytes (definite or indefinite).
pub fn plutus_data(n: &Node) -> R<PD> {
    match &n.v {
        C::Tag(t, inner) if (121..=127).contains(t) => Ok(PD::Constr(t - 121, pd_list(inner)?)),
        C::Tag(t, inner) if (1280..=1400).contains(t) => Ok(PD::Constr(t - 1280 + 7, pd_list(inner)?)),
        C::Tag(102, inner) => {
            let a = inner.as_array().ok_or("tag 102 without array")?;
            if a.len() != 2 {
                return Err("tag 102 array must have 2 elements".into());
            }
            let idx = a[0].as_u64().ok_or("tag 102 index must be uint")?;
            Ok(PD::Constr(idx, pd_list(&a[1])?))
        }
        C::Tag(2, _) | C::Tag(3, _) | C::UInt(_) | C::NInt(_) => Ok(PD::Int(bigint_from_node(n)?)),
        C::Tag(t, _) => Err(format!("tag {t} is not a Plutus Data constructor tag")),
        // chunked (indefinite) and plain byte strings are both accepted, whatever their length
        C::Bytes(b, _) => Ok(PD::Bytes(b.clone())),
        C::Array(xs, _) => Ok(PD::List(xs.iter().map(plutus_data).collect::<R<_>>()?)),
        C::Map(kvs, _) => Ok(PD::Map(kvs.iter().map(|(k, v)| Ok((plutus_data(k)?, plutus_data(v)?))).collect::<R<_>>()?)),
        other => Err(format!("not Plutus Data: {other:?}")),
    }
}

fn pd_list(n: &Node) -> R<Vec<PD>> {
    n.as_array().ok_or("constructor fields must be an array")?.iter().map(plutus_data).collect()
}

pub fn plutus_data_from_bytes(b: &[u8]) -> R<PD> {
    plutus_data(&decode_all(b)?)
}

fn tx_in(n: &Node) -> R<(Vec<u8>, u64)> {
    let a = n.as_array().ok_or("input must be an array")?;
    if a.len() != 2 {
        return Err("input must have 2 elements".into());
    }
    Ok((a[0].as_bytes().ok_or("txid must be bytes")?.to_vec(), a[1].as_u64().ok_or("index must be uint")?))
}

fn input_set(n: &Node, name: &str, facts: &mut Facts) -> R<BTreeSet<(Vec<u8>, u64)>> {
    let (inner, _) = n.untag_set();
    let a = inner.as_array().ok_or(format!("{name} must be an array/set"))?;
    let mut out = BTreeSet::new();
    for x in a {
        if !out.insert(tx_in(x)?) {
            facts.duplicates.push(name.to_string());
        }
    }
    Ok(out)
}

fn multiasset(n: &Node, what: &str, signed: bool, facts: &mut Facts) -> R<BTreeMap<(Vec<u8>, Vec<u8>), BigInt>> {
    let mut out = BTreeMap::new();
    let m = n.as_map().ok_or(format!("{what} multiasset must be a map"))?;
    let mut seen_pol = BTreeSet::new();
    for (p, inner) in m {
        let pol = p.as_bytes().ok_or("policy id must be bytes")?.to_vec();
        if !seen_pol.insert(pol.clone()) {
            facts.duplicates.push(format!("{what}.policy"));
        }
        let im = inner.as_map().ok_or("asset map must be a map")?;
        if im.is_empty() {
            facts.empties.push(format!("{what}.policy-entry"));
        }
        for (nm, q) in im {
            let name = nm.as_bytes().ok_or("asset name must be bytes")?.to_vec();
            let q = if signed { q.as_int().ok_or("mint quantity must be int")? } else { q.as_u64().ok_or("quantity must be uint")? as i128 };
            if q == 0 {
                facts.zero_amounts.push(what.to_string());
            }
            if out.insert((pol.clone(), name), BigInt::from(q)).is_some() {
                facts.duplicates.push(format!("{what}.asset"));
            }
        }
    }
    Ok(out)
}

fn output(n: &Node, idx: usize, facts: &mut Facts) -> R<(ExpOut, Option<Vec<u8>>)> {
    let (addr, value, datum_opt) = match &n.v {
        C::Map(_, _) => (
            n.map_get(0).ok_or("output without address")?,
            n.map_get(1).ok_or("output without value")?,
            n.map_get(2),
        ),
        C::Array(a, _) if a.len() >= 2 => (&a[0], &a[1], None),
        _ => return Err("output must be a map or array".into()),
    };
    let address = addr.as_bytes().ok_or("address must be bytes")?.to_vec();
    let (lovelace, assets) = match &value.v {
        C::UInt(c) => (BigInt::from(*c), BTreeMap::new()),
        C::Array(a, _) if a.len() == 2 => {
            let ma = multiasset(&a[1], &format!("output[{idx}]"), false, facts)?;
            if a[1].as_map().map(|m| m.is_empty()).unwrap_or(false) {
                facts.empties.push(format!("output[{idx}].multiasset"));
            }
            (BigInt::from(a[0].as_u64().ok_or("coin must be uint")?), ma)
        }
        _ => return Err("value must be coin or [coin, multiasset]".into()),
    };
    let mut datum = None;
    let mut raw = None;
    if let Some(d) = datum_opt {
        let a = d.as_array().ok_or("datum_option must be an array")?;
        if a.len() != 2 {
            return Err("datum_option must have 2 elements".into());
        }
        match a[0].as_u64() {
            Some(1) => match &a[1].v {
                C::Tag(24, inner) => {
                    let b = inner.as_bytes().ok_or("#6.24 must wrap bytes")?;
                    raw = Some(b.to_vec());
                    datum = Some(plutus_data_from_bytes(b).map_err(|e| format!("inline datum of output {idx}: {e}"))?);
                }
                _ => return Err("inline datum must be #6.24(bytes)".into()),
            },
            Some(0) => {}
            _ => return Err("unknown datum_option kind".into()),
        }
    }
    Ok((ExpOut { address, lovelace, assets, datum }, raw))
}

fn metadatum(n: &Node) -> R<Meta> {
    match &n.v {
        C::UInt(_) | C::NInt(_) => Ok(Meta::Int(bigint_from_node(n)?)),
        C::Text(s, _) => Ok(Meta::Text(s.clone())),
        C::Bytes(b, _) => Ok(Meta::Bytes(b.clone())),
        other => Err(format!("unsupported metadatum {other:?}")),
    }
}

pub fn view(payload: &[u8]) -> R<TxView> {
    let root = decode_all(payload)?;
    let parts = root.as_array().ok_or("tx must be an array")?;
    if parts.len() != 4 {
        return Err(format!("tx array has {} elements", parts.len()));
    }
    let mut facts = Facts::default();
    let mut tx = ExpTx::default();
    let mut datum_bytes = vec![];
    let mut redeemer_bytes = BTreeMap::new();

    let body = &parts[0];
    facts.body_range = (body.start, body.end);
    let bm = body.as_map().ok_or("body must be a map")?;
    let mut seen = BTreeSet::new();
    for (k, v) in bm {
        let key = k.as_u64().ok_or("body key must be uint")?;
        facts.body_keys_in_order.push(key);
        if !seen.insert(key) {
            facts.duplicates.push(format!("body-key-{key}"));
        }
        match key {
            0 => {
                let (inner, _) = v.untag_set();
                facts.raw_input_count = inner.as_array().map(|a| a.len()).unwrap_or(0);
                tx.inputs = input_set(v, "inputs", &mut facts)?;
            }
            1 => {
                for (i, o) in v.as_array().ok_or("outputs must be an array")?.iter().enumerate() {
                    let (o, raw) = output(o, i, &mut facts)?;
                    tx.outputs.push(o);
                    datum_bytes.push(raw);
                }
            }
            2 => tx.fee = BigInt::from(v.as_u64().ok_or("fee must be uint")?),
            3 => tx.ttl = Some(BigInt::from(v.as_u64().ok_or("ttl must be uint")?)),
            4 => {
                let (inner, _) = v.untag_set();
                let a = inner.as_array().ok_or("certificates must be an array")?;
                if a.is_empty() {
                    facts.empties.push("certificates".into());
                }
                facts.certificates = a.len();
            }
            5 => {
                let m = v.as_map().ok_or("withdrawals must be a map")?;
                if m.is_empty() {
                    facts.empties.push("withdrawals".into());
                }
                for (a, c) in m {
                    let acct = a.as_bytes().ok_or("reward account must be bytes")?.to_vec();
                    if tx.withdrawals.insert(acct, BigInt::from(c.as_u64().ok_or("withdrawal must be uint")?)).is_some() {
                        facts.duplicates.push("withdrawals".into());
                    }
                }
            }
            7 => facts.aux_hash = Some(v.as_bytes().ok_or("aux hash must be bytes")?.to_vec()),
            8 => tx.validity_start = Some(BigInt::from(v.as_u64().ok_or("validity start must be uint")?)),
            9 => {
                if v.as_map().map(|m| m.is_empty()).unwrap_or(false) {
                    facts.empties.push("mint".into());
                }
                tx.mint = multiasset(v, "mint", true, &mut facts)?;
            }
            11 => facts.script_data_hash = Some(v.as_bytes().ok_or("script data hash must be bytes")?.to_vec()),
            13 => {
                tx.collateral = input_set(v, "collateral", &mut facts)?;
                if tx.collateral.is_empty() {
                    facts.empties.push("collateral".into());
                }
            }
            14 => {
                let (inner, _) = v.untag_set();
                let a = inner.as_array().ok_or("required signers must be an array")?;
                if a.is_empty() {
                    facts.empties.push("required_signers".into());
                }
                for h in a {
                    if !tx.signers.insert(h.as_bytes().ok_or("signer must be bytes")?.to_vec()) {
                        facts.duplicates.push("required_signers".into());
                    }
                }
            }
            15 => facts.network_id = Some(v.as_u64().ok_or("network id must be uint")?),
            18 => {
                tx.references = input_set(v, "reference_inputs", &mut facts)?;
                if tx.references.is_empty() {
                    facts.empties.push("reference_inputs".into());
                }
            }
            22 => tx.donation = Some(BigInt::from(v.as_u64().ok_or("donation must be uint")?)),
            16 | 17 | 19 | 20 | 21 => {}
            other => facts.unknown_body_keys.push(other),
        }
    }

    // witness set
    let ws = &parts[1];
    facts.witness_range = (ws.start, ws.end);
    let wm = ws.as_map().ok_or("witness set must be a map")?;
    for (k, v) in wm {
        match k.as_u64().ok_or("witness key must be uint")? {
            1 => {
                facts.has_native_scripts = true;
                let (inner, _) = v.untag_set();
                if inner.as_array().map(|a| a.is_empty()).unwrap_or(true) {
                    facts.empties.push("native_scripts".into());
                }
                if let Some(a) = inner.as_array() {
                    let mut seen = BTreeSet::new();
                    if a.iter().any(|x| !seen.insert(x.raw(payload).to_vec())) {
                        facts.duplicates.push("native_scripts".into());
                    }
                }
            }
            3 | 6 | 7 => {
                let lang = match k.as_u64().unwrap() {
                    3 => 0u8,
                    6 => 1,
                    _ => 2,
                };
                facts.script_langs_in_witness.push(lang);
                let (inner, _) = v.untag_set();
                if inner.as_array().map(|a| a.is_empty()).unwrap_or(true) {
                    facts.empties.push(format!("plutus_v{}_scripts", lang + 1));
                }
                if let Some(a) = inner.as_array() {
                    let mut seen = BTreeSet::new();
                    if a.iter().any(|x| !seen.insert(x.raw(payload).to_vec())) {
                        facts.duplicates.push(format!("plutus_v{}_scripts", lang + 1));
                    }
                }
            }
            4 => facts.datums_range = Some((v.start, v.end)),
            5 => {
                facts.has_redeemers = true;
                facts.redeemers_range = Some((v.start, v.end));
                match &v.v {
                    C::Map(m, _) => {
                        if m.is_empty() {
                            facts.empties.push("redeemers".into());
                        }
                        for (rk, rv) in m {
                            let ka = rk.as_array().ok_or("redeemer key must be [tag, index]")?;
                            let tag = ka.first().and_then(|x| x.as_u64()).ok_or("redeemer tag")? as u8;
                            let index = ka.get(1).and_then(|x| x.as_u64()).ok_or("redeemer index")? as u32;
                            let va = rv.as_array().ok_or("redeemer value must be [data, ex_units]")?;
                            let data_node = va.first().ok_or("redeemer data")?;
                            let data = plutus_data(data_node).map_err(|e| format!("redeemer ({tag},{index}): {e}"))?;
                            if let Some(ex) = va.get(1).and_then(|x| x.as_array()) {
                                facts.redeemer_ex_units.push((ex.first().and_then(|x| x.as_u64()).unwrap_or(0), ex.get(1).and_then(|x| x.as_u64()).unwrap_or(0)));
                            }
                            redeemer_bytes.insert((tag, index), data_node.raw(payload).to_vec());
                            if tx.redeemers.insert((tag, index), data).is_some() {
                                facts.duplicates.push("redeemers".into());
                            }
                        }
                    }
                    C::Array(a, _) => {
                        if a.is_empty() {
                            facts.empties.push("redeemers".into());
                        }
                        for r in a {
                            let ra = r.as_array().ok_or("legacy redeemer must be an array")?;
                            if ra.len() != 4 {
                                return Err("legacy redeemer must have 4 elements".into());
                            }
                            let tag = ra[0].as_u64().ok_or("redeemer tag")? as u8;
                            let index = ra[1].as_u64().ok_or("redeemer index")? as u32;
                            let data = plutus_data(&ra[2])?;
                            redeemer_bytes.insert((tag, index), ra[2].raw(payload).to_vec());
                            if tx.redeemers.insert((tag, index), data).is_some() {
                                facts.duplicates.push("redeemers".into());
                            }
                        }
                    }
                    _ => return Err("redeemers must be a map or array".into()),
                }
            }
            _ => {}
        }
    }

    // is_valid
    facts.is_valid = match &parts[2].v {
        C::Simple(21) => Some(true),
        C::Simple(20) => Some(false),
        _ => None,
    };

    // auxiliary data
    match &parts[3].v {
        C::Simple(22) => {}
        _ => {
            let aux = &parts[3];
            facts.aux_range = Some((aux.start, aux.end));
            let md_node: Option<&Node> = match &aux.v {
                C::Tag(259, inner) => inner.map_get(0),
                C::Map(_, _) => Some(aux),
                C::Array(a, _) => a.first(),
                _ => return Err("unsupported auxiliary data form".into()),
            };
            if let Some(md) = md_node {
                let m = md.as_map().ok_or("metadata must be a map")?;
                facts.has_metadata = !m.is_empty();
                if m.is_empty() {
                    facts.empties.push("metadata".into());
                }
                for (k, v) in m {
                    let key = BigInt::from(k.as_u64().ok_or("metadata label must be uint")?);
                    if tx.metadata.insert(key, metadatum(v)?).is_some() {
                        facts.duplicates.push("metadata".into());
                    }
                }
            }
        }
    }

    Ok(TxView { tx, facts, datum_bytes, redeemer_bytes })
}

/// Field-by-field comparison of the expected and the decoded transaction; returns the names of the
/// differing fields (empty = equal).
pub fn diff(expected: &ExpTx, got: &ExpTx) -> Vec<String> {
    let mut d = vec![];
    if expected.inputs != got.inputs {
        d.push("inputs".to_string());
    }
    if expected.outputs.len() != got.outputs.len() {
        d.push("outputs.count".into());
    } else {
        for (i, (a, b)) in expected.outputs.iter().zip(got.outputs.iter()).enumerate() {
            if a.address != b.address {
                d.push(format!("output[{i}].address"));
            }
            if a.lovelace != b.lovelace {
                d.push(format!("output[{i}].lovelace"));
            }
            if a.assets != b.assets {
                d.push(format!("output[{i}].assets"));
            }
            if a.datum != b.datum {
                d.push(format!("output[{i}].datum"));
            }
        }
    }
    if expected.mint != got.mint {
        d.push("mint".into());
    }
    if expected.validity_start != got.validity_start {
        d.push("validity_start".into());
    }
    if expected.ttl != got.ttl {
        d.push("ttl".into());
    }
    if expected.signers != got.signers {
        d.push("required_signers".into());
    }
    if expected.references != got.references {
        d.push("reference_inputs".into());
    }
    if expected.collateral != got.collateral {
        d.push("collateral".into());
    }
    if expected.metadata != got.metadata {
        d.push("metadata".into());
    }
    if expected.fee != got.fee {
        d.push("fee".into());
    }
    d
}
