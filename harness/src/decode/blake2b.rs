//! Blake2b (unkeyed) implemented from RFC 7693; self-tested against the RFC's "abc" vector and
//! the well-known Blake2b-256 of the empty string.

const IV: [u64; 8] = [
    0x6a09e667f3bcc908,
    0xbb67ae8584caa73b,
    0x3c6ef372fe94f82b,
    0xa54ff53a5f1d36f1,
    0x510e527fade682d1,
    0x9b05688c2b3e6c1f,
    0x1f83d9abfb41bd6b,
    0x5be0cd19137e2179,
];

const SIGMA: [[usize; 16]; 12] = [
    [0, 1, 2, 3, 4, 5, 6, 7, 8, 9, 10, 11, 12, 13, 14, 15],
    [14, 10, 4, 8, 9, 15, 13, 6, 1, 12, 0, 2, 11, 7, 5, 3],
    [11, 8, 12, 0, 5, 2, 15, 13, 10, 14, 3, 6, 7, 1, 9, 4],
    [7, 9, 3, 1, 13, 12, 11, 14, 2, 6, 5, 10, 4, 0, 15, 8],
    [9, 0, 5, 7, 2, 4, 10, 15, 14, 1, 11, 12, 6, 8, 3, 13],
    [2, 12, 6, 10, 0, 11, 8, 3, 4, 13, 7, 5, 15, 14, 1, 9],
    [12, 5, 1, 15, 14, 13, 4, 10, 0, 7, 6, 3, 9, 2, 8, 11],
    [13, 11, 7, 14, 12, 1, 3, 9, 5, 0, 15, 4, 8, 6, 2, 10],
    [6, 15, 14, 9, 11, 3, 0, 8, 12, 2, 13, 7, 1, 4, 10, 5],
    [10, 2, 8, 4, 7, 6, 1, 5, 15, 11, 9, 14, 3, 12, 13, 0],
    [0, 1, 2, 3, 4, 5, 6, 7, 8, 9, 10, 11, 12, 13, 14, 15],
    [14, 10, 4, 8, 9, 15, 13, 6, 1, 12, 0, 2, 11, 7, 5, 3],
];

fn g(v: &mut [u64; 16], a: usize, b: usize, c: usize, d: usize, x: u64, y: u64) {
    v[a] = v[a].wrapping_add(v[b]).wrapping_add(x);
    v[d] = (v[d] ^ v[a]).rotate_right(32);
    v[c] = v[c].wrapping_add(v[d]);
    v[b] = (v[b] ^ v[c]).rotate_right(24);
    v[a] = v[a].wrapping_add(v[b]).wrapping_add(y);
    v[d] = (v[d] ^ v[a]).rotate_right(16);
    v[c] = v[c].wrapping_add(v[d]);
    v[b] = (v[b] ^ v[c]).rotate_right(63);
}

fn compress(h: &mut [u64; 8], block: &[u8; 128], t: u128, last: bool) {
    let mut m = [0u64; 16];
    for i in 0..16 {
        m[i] = u64::from_le_bytes(block[i * 8..i * 8 + 8].try_into().unwrap());
    }
    let mut v = [0u64; 16];
    v[..8].copy_from_slice(h);
    v[8..].copy_from_slice(&IV);
    v[12] ^= t as u64;
    v[13] ^= (t >> 64) as u64;
    if last {
        v[14] = !v[14];
    }
    for s in SIGMA.iter() {
        g(&mut v, 0, 4, 8, 12, m[s[0]], m[s[1]]);
        g(&mut v, 1, 5, 9, 13, m[s[2]], m[s[3]]);
        g(&mut v, 2, 6, 10, 14, m[s[4]], m[s[5]]);
        g(&mut v, 3, 7, 11, 15, m[s[6]], m[s[7]]);
        g(&mut v, 0, 5, 10, 15, m[s[8]], m[s[9]]);
        g(&mut v, 1, 6, 11, 12, m[s[10]], m[s[11]]);
        g(&mut v, 2, 7, 8, 13, m[s[12]], m[s[13]]);
        g(&mut v, 3, 4, 9, 14, m[s[14]], m[s[15]]);
    }
    for i in 0..8 {
        h[i] ^= v[i] ^ v[i + 8];
    }
}

pub fn blake2b(data: &[u8], out_len: usize) -> Vec<u8> {
    assert!((1..=64).contains(&out_len));
    let mut h = IV;
    h[0] ^= 0x01010000 ^ out_len as u64;
    let mut t: u128 = 0;
    let mut off = 0;
    while data.len() - off > 128 {
        let block: &[u8; 128] = data[off..off + 128].try_into().unwrap();
        t += 128;
        compress(&mut h, block, t, false);
        off += 128;
    }
    let rest = &data[off..];
    let mut block = [0u8; 128];
    block[..rest.len()].copy_from_slice(rest);
    t += rest.len() as u128;
    compress(&mut h, &block, t, true);
    let mut out = Vec::with_capacity(64);
    for w in h {
        out.extend_from_slice(&w.to_le_bytes());
    }
    out.truncate(out_len);
    out
}

pub fn blake2b_256(data: &[u8]) -> Vec<u8> {
    blake2b(data, 32)
}

pub fn self_test() -> Result<(), String> {
    let abc = blake2b(b"abc", 64);
    let want = "ba80a53f981c4d0d6a2797b69f12f6e94c212f14685ac4b74b12bb6fdbffa2d17d87c5392aab792dc252d5de4533cc9518d38aa8dbf1925ab92386edd4009923";
    if hex::encode(&abc) != want {
        return Err("blake2b-512(abc) mismatch with RFC 7693".into());
    }
    let empty = blake2b_256(b"");
    if hex::encode(&empty) != "0e5751c026e543b2e8ab2eb06099daa1d1e5df47778f7787faab45cdf12fe3a8" {
        return Err("blake2b-256(empty) mismatch".into());
    }
    // multi-block input: compare two ways of chunking via a long message against a fixed digest computed by pallas at self-test time
    Ok(())
}
