//! Independent CBOR pull reader written from RFC 8949. Keeps byte ranges of every item.

#[derive(Clone, Debug, PartialEq)]
pub enum C {
    UInt(u64),
    /// value is -1 - n
    NInt(u64),
    Bytes(Vec<u8>, bool),
    Text(String, bool),
    Array(Vec<Node>, bool),
    Map(Vec<(Node, Node)>, bool),
    Tag(u64, Box<Node>),
    Simple(u8),
    Float(f64),
}

#[derive(Clone, Debug, PartialEq)]
pub struct Node {
    pub v: C,
    pub start: usize,
    pub end: usize,
}

pub struct Reader<'a> {
    b: &'a [u8],
    pos: usize,
    depth: usize,
}

type R<T> = Result<T, String>;

impl<'a> Reader<'a> {
    pub fn new(b: &'a [u8]) -> Self {
        Reader { b, pos: 0, depth: 0 }
    }

    fn byte(&mut self) -> R<u8> {
        let x = *self.b.get(self.pos).ok_or("unexpected end of input")?;
        self.pos += 1;
        Ok(x)
    }

    fn take(&mut self, n: usize) -> R<&'a [u8]> {
        if self.pos.checked_add(n).map(|e| e > self.b.len()).unwrap_or(true) {
            return Err(format!("length {n} beyond end of input"));
        }
        let s = &self.b[self.pos..self.pos + n];
        self.pos += n;
        Ok(s)
    }

    fn arg(&mut self, info: u8) -> R<Option<u64>> {
        Ok(Some(match info {
            0..=23 => info as u64,
            24 => self.byte()? as u64,
            25 => u16::from_be_bytes(self.take(2)?.try_into().unwrap()) as u64,
            26 => u32::from_be_bytes(self.take(4)?.try_into().unwrap()) as u64,
            27 => u64::from_be_bytes(self.take(8)?.try_into().unwrap()),
            31 => return Ok(None),
            _ => return Err(format!("reserved additional info {info}")),
        }))
    }

    pub fn item(&mut self) -> R<Node> {
        self.depth += 1;
        if self.depth > 512 {
            return Err("nesting too deep".into());
        }
        let start = self.pos;
        let ib = self.byte()?;
        let (major, info) = (ib >> 5, ib & 0x1f);
        let v = match major {
            0 => C::UInt(self.arg(info)?.ok_or("indefinite uint")?),
            1 => C::NInt(self.arg(info)?.ok_or("indefinite nint")?),
            2 | 3 => {
                let (data, indef) = match self.arg(info)? {
                    Some(n) => (self.take(n as usize)?.to_vec(), false),
                    None => {
                        let mut acc = vec![];
                        loop {
                            if *self.b.get(self.pos).ok_or("eof in indefinite string")? == 0xff {
                                self.pos += 1;
                                break;
                            }
                            let ib2 = self.byte()?;
                            if ib2 >> 5 != major {
                                return Err("chunk of wrong major type".into());
                            }
                            let n = self.arg(ib2 & 0x1f)?.ok_or("nested indefinite chunk")?;
                            acc.extend_from_slice(self.take(n as usize)?);
                        }
                        (acc, true)
                    }
                };
                if major == 2 {
                    C::Bytes(data, indef)
                } else {
                    C::Text(String::from_utf8(data).map_err(|_| "invalid utf-8 in text")?, indef)
                }
            }
            4 => {
                let mut xs = vec![];
                match self.arg(info)? {
                    Some(n) => {
                        for _ in 0..n {
                            xs.push(self.item()?);
                        }
                        C::Array(xs, false)
                    }
                    None => {
                        loop {
                            if *self.b.get(self.pos).ok_or("eof in indefinite array")? == 0xff {
                                self.pos += 1;
                                break;
                            }
                            xs.push(self.item()?);
                        }
                        C::Array(xs, true)
                    }
                }
            }
            5 => {
                let mut xs = vec![];
                match self.arg(info)? {
                    Some(n) => {
                        for _ in 0..n {
                            let k = self.item()?;
                            let v = self.item()?;
                            xs.push((k, v));
                        }
                        C::Map(xs, false)
                    }
                    None => {
                        loop {
                            if *self.b.get(self.pos).ok_or("eof in indefinite map")? == 0xff {
                                self.pos += 1;
                                break;
                            }
                            let k = self.item()?;
                            let v = self.item()?;
                            xs.push((k, v));
                        }
                        C::Map(xs, true)
                    }
                }
            }
            6 => {
                let t = self.arg(info)?.ok_or("indefinite tag")?;
                C::Tag(t, Box::new(self.item()?))
            }
            _ => match info {
                0..=23 => C::Simple(info),
                24 => C::Simple(self.byte()?),
                25 => {
                    let h = u16::from_be_bytes(self.take(2)?.try_into().unwrap());
                    C::Float(half_to_f64(h))
                }
                26 => C::Float(f32::from_be_bytes(self.take(4)?.try_into().unwrap()) as f64),
                27 => C::Float(f64::from_be_bytes(self.take(8)?.try_into().unwrap())),
                31 => return Err("unexpected break".into()),
                _ => return Err("reserved simple".into()),
            },
        };
        self.depth -= 1;
        Ok(Node { v, start, end: self.pos })
    }
}

fn half_to_f64(h: u16) -> f64 {
    let sign = if h & 0x8000 != 0 { -1.0 } else { 1.0 };
    let exp = ((h >> 10) & 0x1f) as i32;
    let mant = (h & 0x3ff) as f64;
    let v = if exp == 0 {
        mant * 2f64.powi(-24)
    } else if exp == 31 {
        if mant == 0.0 {
            f64::INFINITY
        } else {
            f64::NAN
        }
    } else {
        (1.0 + mant / 1024.0) * 2f64.powi(exp - 15)
    };
    sign * v
}

/// Decode exactly one item spanning the whole input.
pub fn decode_all(b: &[u8]) -> R<Node> {
    let mut r = Reader::new(b);
    let n = r.item()?;
    if r.pos != b.len() {
        return Err(format!("{} trailing bytes", b.len() - r.pos));
    }
    Ok(n)
}

impl Node {
    pub fn as_u64(&self) -> Option<u64> {
        match &self.v {
            C::UInt(n) => Some(*n),
            _ => None,
        }
    }
    pub fn as_bytes(&self) -> Option<&[u8]> {
        match &self.v {
            C::Bytes(b, _) => Some(b),
            _ => None,
        }
    }
    pub fn as_array(&self) -> Option<&[Node]> {
        match &self.v {
            C::Array(a, _) => Some(a),
            _ => None,
        }
    }
    pub fn as_map(&self) -> Option<&[(Node, Node)]> {
        match &self.v {
            C::Map(m, _) => Some(m),
            _ => None,
        }
    }
    pub fn map_get(&self, key: u64) -> Option<&Node> {
        self.as_map()?.iter().find(|(k, _)| k.as_u64() == Some(key)).map(|(_, v)| v)
    }
    pub fn raw<'a>(&self, all: &'a [u8]) -> &'a [u8] {
        &all[self.start..self.end]
    }
    /// signed integer value (uint / nint), as i128
    pub fn as_int(&self) -> Option<i128> {
        match &self.v {
            C::UInt(n) => Some(*n as i128),
            C::NInt(n) => Some(-1 - *n as i128),
            _ => None,
        }
    }
    /// strips a tag 258 (set) if present; returns (inner, had_tag)
    pub fn untag_set(&self) -> (&Node, bool) {
        match &self.v {
            C::Tag(258, inner) => (inner, true),
            _ => (self, false),
        }
    }
}
