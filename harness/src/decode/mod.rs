pub mod blake2b;
pub mod cbor;
pub mod tx;
