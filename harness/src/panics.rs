//! Panic capture: a global hook that records message, location and the first in-repo frame.

use std::cell::RefCell;
use std::collections::HashMap;
use std::panic::{self, AssertUnwindSafe};
use std::sync::Mutex;

#[derive(Clone, Debug)]
pub struct PanicInfo {
    pub message: String,
    /// file:line of the panic location
    pub location: String,
    /// crate-relative repo file of the first in-repo frame ("" if none)
    pub repo_file: String,
    /// function of the first in-repo frame ("" if none)
    pub repo_fn: String,
}

impl PanicInfo {
    pub fn in_repo(&self) -> bool {
        !self.repo_file.is_empty()
    }

    /// `panic:<file>:<fn>:<normalised message prefix>`
    pub fn signature(&self) -> String {
        let file = if self.repo_file.is_empty() {
            format!("?{}", strip_registry(&self.location))
        } else {
            self.repo_file.clone()
        };
        format!("panic:{}:{}:{}", file, self.repo_fn, normalise_message(&self.message))
    }
}

fn strip_registry(loc: &str) -> String {
    // keep "<crate-dir>/<rest>" of a registry path, drop line numbers
    let loc = loc.split(':').next().unwrap_or(loc);
    if let Some(i) = loc.find("/registry/src/") {
        let rest = &loc[i + "/registry/src/".len()..];
        if let Some(j) = rest.find('/') {
            return rest[j + 1..].to_string();
        }
    }
    if let Some(i) = loc.find("/library/") {
        return loc[i + 1..].to_string();
    }
    loc.to_string()
}

pub fn normalise_message(m: &str) -> String {
    let mut out = String::new();
    let mut last_hash = false;
    for c in m.chars() {
        if c.is_ascii_digit() {
            if !last_hash {
                out.push('#');
                last_hash = true;
            }
        } else if c == '\n' {
            break;
        } else {
            out.push(c);
            last_hash = false;
        }
        if out.len() >= 44 {
            break;
        }
    }
    out
}

thread_local! {
    static LAST: RefCell<Option<PanicInfo>> = const { RefCell::new(None) };
    static CAPTURING: RefCell<bool> = const { RefCell::new(false) };
}

static SITE_CACHE: Mutex<Option<HashMap<String, (String, String)>>> = Mutex::new(None);

/// Returns (crate-relative file, fn) of the first frame in the repo.
fn first_repo_frame() -> (String, String) {
    let bt = std::backtrace::Backtrace::force_capture().to_string();
    let mut prev_fn = String::new();
    for line in bt.lines() {
        let t = line.trim_start();
        if let Some(rest) = t.strip_prefix("at ") {
            if let Some(rel) = repo_relative(rest) {
                return (rel, prev_fn);
            }
        } else if let Some(pos) = t.find(": ") {
            // "12: symbol::name"
            prev_fn = short_fn(&t[pos + 2..]);
        }
    }
    (String::new(), String::new())
}

fn short_fn(sym: &str) -> String {
    // drop hash suffix and generic noise, keep the last two path segments
    let s = sym.trim();
    let s = match s.rfind("::h") {
        Some(i) if s.len() - i == 19 => &s[..i],
        _ => s,
    };
    let s = s.replace("{{closure}}", "{closure}");
    // remove <...> groups crudely
    let mut depth = 0;
    let mut flat = String::new();
    for c in s.chars() {
        match c {
            '<' => depth += 1,
            '>' => {
                if depth > 0 {
                    depth -= 1
                }
            }
            _ if depth == 0 => flat.push(c),
            _ => {}
        }
    }
    let flat = if flat.trim_matches(':').is_empty() { s.clone() } else { flat };
    let parts: Vec<&str> = flat.split("::").filter(|p| !p.is_empty()).collect();
    let n = parts.len();
    if n >= 2 {
        format!("{}::{}", parts[n - 2], parts[n - 1])
    } else {
        flat
    }
}

/// Maps an absolute path to "<crate>/src/..." when it lies inside the repo under test.
pub fn repo_relative(path_with_line: &str) -> Option<String> {
    let p = path_with_line;
    for marker in ["/crates/tx3-", "/bin/tx3c/"] {
        if let Some(i) = p.find(marker) {
            if p.contains("/registry/") {
                return None;
            }
            let rest = &p[i + 1..];
            let rest = rest.strip_prefix("crates/").unwrap_or(rest);
            // strip :line:col
            let file = rest.split(':').next().unwrap_or(rest);
            return Some(file.to_string());
        }
    }
    None
}

pub fn install_hook() {
    panic::set_hook(Box::new(|info| {
        let capturing = CAPTURING.with(|c| *c.borrow());
        let message = if let Some(s) = info.payload().downcast_ref::<&str>() {
            s.to_string()
        } else if let Some(s) = info.payload().downcast_ref::<String>() {
            s.clone()
        } else {
            "<non-string panic payload>".to_string()
        };
        let location = info
            .location()
            .map(|l| format!("{}:{}:{}", l.file(), l.line(), l.column()))
            .unwrap_or_default();
        if !capturing {
            eprintln!("[harness] uncaptured panic at {location}: {message}");
            return;
        }
        let key = location.clone();
        // a location outside the repo (core, pallas, ...) can be reached from many repo frames
        let cacheable = repo_relative(&location).is_some();
        let cached = if cacheable {
            let g = SITE_CACHE.lock().unwrap();
            g.as_ref().and_then(|m| m.get(&key).cloned())
        } else {
            None
        };
        let (repo_file, repo_fn) = match cached {
            Some(x) => x,
            None => {
                let mut fr = first_repo_frame();
                if fr.0.is_empty() {
                    if let Some(rel) = repo_relative(&location) {
                        fr.0 = rel;
                    }
                }
                if cacheable {
                    let mut g = SITE_CACHE.lock().unwrap();
                    g.get_or_insert_with(HashMap::new).insert(key, fr.clone());
                }
                fr
            }
        };
        LAST.with(|l| {
            *l.borrow_mut() = Some(PanicInfo {
                message,
                location,
                repo_file,
                repo_fn,
            })
        });
    }));
}

/// Runs `f`, converting a panic into `Err(PanicInfo)`.
pub fn catch<T>(f: impl FnOnce() -> T) -> Result<T, PanicInfo> {
    CAPTURING.with(|c| *c.borrow_mut() = true);
    LAST.with(|l| *l.borrow_mut() = None);
    let r = panic::catch_unwind(AssertUnwindSafe(f));
    CAPTURING.with(|c| *c.borrow_mut() = false);
    match r {
        Ok(v) => Ok(v),
        Err(_) => Err(LAST.with(|l| l.borrow_mut().take()).unwrap_or(PanicInfo {
            message: "<lost panic info>".into(),
            location: String::new(),
            repo_file: String::new(),
            repo_fn: String::new(),
        })),
    }
}
