//! Property trait, per-case context, worker loop and supervisor (sharding, watchdogs,
//! evidence, known-findings matching).

use crate::rng::{fnv64, Rng};
use serde_json::{json, Value};
use std::collections::{BTreeMap, BTreeSet};
use std::io::Write;
use std::path::{Path, PathBuf};
use std::sync::atomic::{AtomicU64, Ordering};
use std::sync::Arc;
use std::time::{Duration, Instant};

#[derive(Clone, Copy, Debug, PartialEq, Eq)]
pub enum Tier {
    Quick,
    Thorough,
}

impl Tier {
    pub fn name(&self) -> &'static str {
        match self {
            Tier::Quick => "quick",
            Tier::Thorough => "thorough",
        }
    }
    pub fn parse(s: &str) -> Option<Self> {
        match s {
            "quick" => Some(Tier::Quick),
            "thorough" => Some(Tier::Thorough),
            _ => None,
        }
    }
}

#[derive(Clone, Copy, Debug, PartialEq, Eq)]
pub enum Profile {
    Release,
    Checked,
}

impl Profile {
    pub fn name(&self) -> &'static str {
        match self {
            Profile::Release => "release",
            Profile::Checked => "checked",
        }
    }
}

#[derive(Clone, Debug)]
pub struct Phase {
    pub name: &'static str,
    pub cases: u64,
    pub profile: Profile,
    /// wall-clock back-stop per case (ms); a firing is *inconclusive* unless the property says otherwise
    pub budget_ms: u64,
    /// true when the phase enumerates a finite space completely
    pub exhaustive: bool,
}

impl Phase {
    pub fn new(name: &'static str, cases: u64, profile: Profile) -> Self {
        Phase {
            name,
            cases,
            profile,
            budget_ms: 20_000,
            exhaustive: false,
        }
    }
    pub fn budget(mut self, ms: u64) -> Self {
        self.budget_ms = ms;
        self
    }
    pub fn exhaustive(mut self) -> Self {
        self.exhaustive = true;
        self
    }
}

#[derive(Clone, Debug)]
pub struct Candidate {
    pub signature: String,
    pub phase: String,
    pub idx: u64,
    pub detail: Value,
}

/// Per-worker accumulation of observations.
pub struct Ctx {
    pub prop: &'static str,
    pub tier: Tier,
    pub seed: u64,
    pub phase: String,
    pub idx: u64,
    pub counters: BTreeMap<String, u64>,
    pub samples: Vec<Value>,
    pub sample_cap: usize,
    pub hashes: Vec<u64>,
    pub candidates: Vec<Candidate>,
    cand_seen: BTreeMap<String, u64>,
    pub inconclusive: Vec<String>,
    pub evaluations: u64,
}

impl Ctx {
    pub fn new(prop: &'static str, tier: Tier, seed: u64) -> Self {
        Ctx {
            prop,
            tier,
            seed,
            phase: String::new(),
            idx: 0,
            counters: BTreeMap::new(),
            samples: vec![],
            sample_cap: 3,
            hashes: vec![],
            candidates: vec![],
            cand_seen: BTreeMap::new(),
            inconclusive: vec![],
            evaluations: 0,
        }
    }

    pub fn count(&mut self, key: &str) {
        *self.counters.entry(key.to_string()).or_insert(0) += 1;
    }

    pub fn add(&mut self, key: &str, n: u64) {
        *self.counters.entry(key.to_string()).or_insert(0) += n;
    }

    /// one executed evaluation of the oracle
    pub fn eval(&mut self) {
        self.evaluations += 1;
    }

    /// records a distinct-and-nontrivial case hash
    pub fn nontrivial(&mut self, h: u64) {
        self.hashes.push(h);
    }

    pub fn nontrivial_str(&mut self, s: &str) {
        self.hashes.push(fnv64(s.as_bytes()));
    }

    pub fn sample(&mut self, v: impl FnOnce() -> Value) {
        if self.samples.len() < self.sample_cap {
            self.samples.push(v());
        }
    }

    pub fn violation(&mut self, signature: impl Into<String>, detail: Value) {
        let signature = signature.into();
        let n = {
            let n = self.cand_seen.entry(signature.clone()).or_insert(0);
            *n += 1;
            *n
        };
        self.count(&format!("candidate/{signature}"));
        // keep at most 3 witnesses per signature per worker
        if n <= 3 {
            self.candidates.push(Candidate {
                signature,
                phase: self.phase.clone(),
                idx: self.idx,
                detail,
            });
        }
    }

    pub fn inconclusive(&mut self, reason: impl Into<String>) {
        let r = reason.into();
        self.count(&format!("inconclusive/{r}"));
        if self.inconclusive.len() < 50 && !self.inconclusive.contains(&r) {
            self.inconclusive.push(r);
        }
    }
}

pub trait Property: Sync {
    fn id(&self) -> &'static str;
    fn level(&self) -> &'static str {
        "exploration"
    }
    fn rule(&self) -> String;
    fn assumptions(&self) -> Vec<String> {
        vec![]
    }
    fn phases(&self, tier: Tier) -> Vec<Phase>;
    /// Called once per worker before the first case (self-tests of instruments). Err = harness error.
    fn self_test(&self) -> Result<(), String> {
        Ok(())
    }
    fn run_case(&self, ctx: &mut Ctx, phase: &str, idx: u64, rng: &mut Rng);
    /// Does a wall-clock overrun of a case (reproduced alone with 3x budget) refute the property?
    fn hang_is_violation(&self) -> bool {
        false
    }
    /// Does the death of the worker by a signal (stack overflow, allocation failure) on a case,
    /// reproduced alone, refute the property? Otherwise it is reported as inconclusive.
    fn abort_is_violation(&self) -> bool {
        self.hang_is_violation()
    }
    /// Extra work done by the supervisor process itself (process pairs, CLI runs, Miri cross-runs).
    fn supervisor_phase(&self, _ctx: &mut Ctx, _env: &Env) {}
    /// Features that must have been reached for the run to count (counter keys).
    fn required_features(&self, _tier: Tier) -> Vec<String> {
        vec![]
    }
    /// extra evidence keys
    fn extra_coverage(&self, _counters: &BTreeMap<String, u64>) -> Value {
        json!({})
    }
}

/// Paths and environment of a run.
#[derive(Clone, Debug)]
pub struct Env {
    pub verif_dir: PathBuf,
    pub repo_dir: PathBuf,
    pub target_dir: PathBuf,
    pub tx3c: PathBuf,
    pub harness_dir: PathBuf,
    pub evidence_dir: PathBuf,
}

impl Env {
    pub fn from_env() -> Self {
        let verif_dir = PathBuf::from(std::env::var("VERIF_DIR").unwrap_or_else(|_| "/verif".into()));
        let repo_dir = PathBuf::from(std::env::var("VERIF_REPO").unwrap_or_else(|_| "/repo".into()));
        let target_dir = PathBuf::from(
            std::env::var("VERIF_TARGET").unwrap_or_else(|_| format!("{}/target", verif_dir.display())),
        );
        let tx3c = PathBuf::from(
            std::env::var("VERIF_TX3C")
                .unwrap_or_else(|_| format!("{}/tx3c/release/tx3c", target_dir.display())),
        );
        let harness_dir = PathBuf::from(
            std::env::var("VERIF_HARNESS").unwrap_or_else(|_| format!("{}/harness", verif_dir.display())),
        );
        let evidence_dir = PathBuf::from(
            std::env::var("VERIF_EVIDENCE").unwrap_or_else(|_| format!("{}/evidence", verif_dir.display())),
        );
        Env {
            verif_dir,
            repo_dir,
            target_dir,
            tx3c,
            harness_dir,
            evidence_dir,
        }
    }

    pub fn worker_bin(&self, profile: Profile) -> PathBuf {
        self.target_dir.join(profile.name()).join("tx3-verif")
    }
}

// ---------------------------------------------------------------------------------------------
// worker

const EXIT_HANG: i32 = 86;

pub fn run_worker(
    prop: &dyn Property,
    tier: Tier,
    seed: u64,
    phase: &Phase,
    from: u64,
    to: u64,
    step: u64,
    out: &Path,
    budget_ms: u64,
    skip: &[u64],
) -> i32 {
    crate::panics::install_hook();
    // a runaway allocation must kill this worker (an observation), not the machine
    let lim = libc::rlimit { rlim_cur: 6 << 30, rlim_max: 6 << 30 };
    // SAFETY: plain syscall with a valid struct
    unsafe {
        libc::setrlimit(libc::RLIMIT_AS, &lim);
    }
    if let Err(e) = prop.self_test() {
        eprintln!("[harness] self-test failed: {e}");
        return 3;
    }
    let mut ctx = Ctx::new(prop.id(), tier, seed);
    ctx.phase = phase.name.to_string();

    // watchdog
    let cur = Arc::new(AtomicU64::new(u64::MAX));
    let started = Arc::new(AtomicU64::new(0));
    let t0 = Instant::now();
    {
        let cur = cur.clone();
        let started = started.clone();
        let progress_path = out.with_extension("progress");
        std::thread::spawn(move || loop {
            std::thread::sleep(Duration::from_millis(50));
            let c = cur.load(Ordering::SeqCst);
            if c == u64::MAX {
                continue;
            }
            let s = started.load(Ordering::SeqCst);
            let now = t0.elapsed().as_millis() as u64;
            if now.saturating_sub(s) > budget_ms {
                let _ = std::fs::write(&progress_path, format!("hang {c}"));
                std::process::exit(EXIT_HANG);
            }
        });
    }

    let progress_path = out.with_extension("progress");
    let mut progress = std::fs::OpenOptions::new()
        .create(true)
        .write(true)
        .truncate(true)
        .open(&progress_path)
        .ok();

    let mut idx = from;
    let mut last_ckpt = Instant::now();
    while idx < to {
        if skip.contains(&idx) {
            idx += step;
            continue;
        }
        if last_ckpt.elapsed() > Duration::from_millis(1500) {
            write_worker_output(&ctx, out, Some(idx));
            last_ckpt = Instant::now();
        }
        if let Some(f) = progress.as_mut() {
            use std::os::unix::fs::FileExt;
            let s = format!("{idx:<24}");
            let _ = f.write_at(s.as_bytes(), 0);
        }
        started.store(t0.elapsed().as_millis() as u64, Ordering::SeqCst);
        cur.store(idx, Ordering::SeqCst);
        ctx.idx = idx;
        let mut rng = Rng::for_case(seed, prop.id(), phase.name, idx);
        let r = crate::panics::catch(|| prop.run_case(&mut ctx, phase.name, idx, &mut rng));
        cur.store(u64::MAX, Ordering::SeqCst);
        if let Err(p) = r {
            // a panic that escaped the property's own capture: if it is in the repo it is still an
            // observation, otherwise it is a harness error
            if p.in_repo() {
                ctx.violation(
                    format!("uncaught-{}", p.signature()),
                    json!({"message": p.message, "location": p.location}),
                );
            } else {
                eprintln!(
                    "[harness] panic in harness code at {} : {} (phase {} idx {})",
                    p.location, p.message, phase.name, idx
                );
                ctx.inconclusive(format!("harness-panic:{}", crate::panics::normalise_message(&p.message)));
                ctx.count("harness_panics");
            }
        }
        idx += step;
    }
    write_worker_output(&ctx, out, None);
    let _ = std::fs::remove_file(&progress_path);
    0
}

fn write_worker_output(ctx: &Ctx, out: &Path, next: Option<u64>) {
    let cands: Vec<Value> = ctx
        .candidates
        .iter()
        .map(|c| json!({"signature": c.signature, "phase": c.phase, "idx": c.idx, "detail": c.detail}))
        .collect();
    let v = json!({
        "evaluations": ctx.evaluations,
        "counters": ctx.counters,
        "samples": ctx.samples,
        "candidates": cands,
        "inconclusive": ctx.inconclusive,
        "next": next,
    });
    let mut buf = Vec::with_capacity(ctx.hashes.len() * 8);
    for h in &ctx.hashes {
        buf.extend_from_slice(&h.to_le_bytes());
    }
    // hashes first, then the json (renamed into place) so that a reader never sees a json without hashes
    let htmp = out.with_extension("hashes.tmp");
    std::fs::write(&htmp, &buf).expect("hash output");
    std::fs::rename(&htmp, out.with_extension("hashes")).expect("hash rename");
    let tmp = out.with_extension("json.tmp");
    let mut f = std::fs::File::create(&tmp).expect("worker output");
    f.write_all(serde_json::to_string(&v).unwrap().as_bytes()).unwrap();
    drop(f);
    std::fs::rename(&tmp, out).expect("output rename");
}

// ---------------------------------------------------------------------------------------------
// supervisor

#[derive(Clone, Debug)]
pub struct KnownFinding {
    pub property: String,
    pub signature: String,
    pub status: String,
    pub what: String,
}

pub fn load_known_findings(env: &Env) -> Vec<KnownFinding> {
    let p = env.verif_dir.join("known_findings.jsonl");
    let Ok(s) = std::fs::read_to_string(&p) else {
        return vec![];
    };
    let mut out = vec![];
    for line in s.lines() {
        let line = line.trim();
        if line.is_empty() || line.starts_with('#') {
            continue;
        }
        if let Ok(v) = serde_json::from_str::<Value>(line) {
            out.push(KnownFinding {
                property: v["property"].as_str().unwrap_or("").to_string(),
                signature: v["signature"].as_str().unwrap_or("").to_string(),
                status: v["status"].as_str().unwrap_or("").to_string(),
                what: v["what"].as_str().unwrap_or("").to_string(),
            });
        }
    }
    out
}

struct Merged {
    evaluations: u64,
    counters: BTreeMap<String, u64>,
    samples: Vec<Value>,
    candidates: Vec<Candidate>,
    inconclusive: BTreeSet<String>,
    hashes: Vec<u64>,
}

/// Returns None when unreadable, Some(next) otherwise (next = Some(idx) for a checkpoint).
fn merge_worker_file(m: &mut Merged, path: &Path) -> Option<Option<u64>> {
    let Ok(s) = std::fs::read_to_string(path) else {
        return None;
    };
    let Ok(v) = serde_json::from_str::<Value>(&s) else {
        return None;
    };
    m.evaluations += v["evaluations"].as_u64().unwrap_or(0);
    if let Some(o) = v["counters"].as_object() {
        for (k, n) in o {
            *m.counters.entry(k.clone()).or_insert(0) += n.as_u64().unwrap_or(0);
        }
    }
    if let Some(a) = v["samples"].as_array() {
        for s in a {
            if m.samples.len() < 5 {
                m.samples.push(s.clone());
            }
        }
    }
    if let Some(a) = v["candidates"].as_array() {
        for c in a {
            m.candidates.push(Candidate {
                signature: c["signature"].as_str().unwrap_or("").to_string(),
                phase: c["phase"].as_str().unwrap_or("").to_string(),
                idx: c["idx"].as_u64().unwrap_or(0),
                detail: c["detail"].clone(),
            });
        }
    }
    if let Some(a) = v["inconclusive"].as_array() {
        for s in a {
            if let Some(s) = s.as_str() {
                m.inconclusive.insert(s.to_string());
            }
        }
    }
    if let Ok(b) = std::fs::read(path.with_extension("hashes")) {
        for ch in b.chunks_exact(8) {
            m.hashes.push(u64::from_le_bytes(ch.try_into().unwrap()));
        }
    }
    Some(v["next"].as_u64())
}

pub struct RunOutcome {
    pub exit: i32,
}

fn spawn_worker(
    env: &Env,
    prop: &dyn Property,
    tier: Tier,
    seed: u64,
    phase: &Phase,
    from: u64,
    to: u64,
    step: u64,
    out: &Path,
    budget_ms: u64,
    skip: &[u64],
) -> std::io::Result<std::process::Child> {
    let errlog = std::fs::File::create(out.with_extension("stderr"))?;
    std::process::Command::new(env.worker_bin(phase.profile))
        .arg("worker")
        .arg(prop.id())
        .arg("--tier")
        .arg(tier.name())
        .arg("--seed")
        .arg(seed.to_string())
        .arg("--phase")
        .arg(phase.name)
        .arg("--from")
        .arg(from.to_string())
        .arg("--to")
        .arg(to.to_string())
        .arg("--step")
        .arg(step.to_string())
        .arg("--budget-ms")
        .arg(budget_ms.to_string())
        .arg("--out")
        .arg(out)
        .arg("--skip")
        .arg(skip.iter().map(|x| x.to_string()).collect::<Vec<_>>().join(","))
        .stdin(std::process::Stdio::null())
        .stdout(std::process::Stdio::null())
        .stderr(errlog)
        .spawn()
}

/// Confirmed watchdog firings per phase after which the remainder of the phase is not explored.
const MAX_CONFIRMED_HANGS: u32 = 4;

fn n_shards() -> u64 {
    std::env::var("VERIF_JOBS")
        .ok()
        .and_then(|s| s.parse().ok())
        .unwrap_or_else(|| std::thread::available_parallelism().map(|n| n.get() as u64).unwrap_or(8))
        .max(1)
}

/// Re-runs one case alone; returns (exit kind, merged output if any)
fn run_single(
    env: &Env,
    prop: &dyn Property,
    tier: Tier,
    seed: u64,
    phase: &Phase,
    idx: u64,
    budget_ms: u64,
    out: &Path,
) -> (String, Option<Merged>) {
    let child = spawn_worker(env, prop, tier, seed, phase, idx, idx + 1, 1, out, budget_ms, &[]);
    let Ok(mut child) = child else {
        return ("spawn-error".into(), None);
    };
    let st = child.wait();
    let kind = exit_kind(&st);
    let mut m = new_merged();
    let ok = merge_worker_file(&mut m, out).is_some();
    (kind, if ok { Some(m) } else { None })
}

fn new_merged() -> Merged {
    Merged {
        evaluations: 0,
        counters: BTreeMap::new(),
        samples: vec![],
        candidates: vec![],
        inconclusive: BTreeSet::new(),
        hashes: vec![],
    }
}

fn exit_kind(st: &std::io::Result<std::process::ExitStatus>) -> String {
    use std::os::unix::process::ExitStatusExt;
    match st {
        Ok(s) => {
            if let Some(sig) = s.signal() {
                format!("signal:{sig}")
            } else {
                match s.code() {
                    Some(0) => "ok".into(),
                    Some(EXIT_HANG) => "hang".into(),
                    Some(3) => "selftest".into(),
                    Some(c) => format!("exit:{c}"),
                    None => "unknown".into(),
                }
            }
        }
        Err(e) => format!("wait-error:{e}"),
    }
}

pub fn run_check(prop: &dyn Property, tier: Tier, seed: u64, env: &Env, replay: Option<(String, u64)>) -> RunOutcome {
    let t0 = Instant::now();
    let id = prop.id();
    let scratch = env.target_dir.join("runs").join(format!("{id}-{}-{}", tier.name(), std::process::id()));
    let _ = std::fs::remove_dir_all(&scratch);
    std::fs::create_dir_all(&scratch).expect("scratch dir");

    let mut merged = new_merged();
    let mut harness_errors: Vec<String> = vec![];
    let phases = prop.phases(tier);
    let shards = n_shards();
    let mut phase_info = vec![];
    let mut all_exhaustive = !phases.is_empty();

    for phase in &phases {
        if let Some((ph, _)) = &replay {
            if ph != phase.name {
                continue;
            }
        }
        if !phase.exhaustive {
            all_exhaustive = false;
        }
        let pt0 = Instant::now();
        // shard i handles indices i, i+shards, i+2*shards, ... (interleaved => balanced)
        let nsh = shards.min(phase.cases.max(1));
        // (shard, from, attempt, skip list)
        let mut pending: Vec<(u64, u64, u64, Vec<u64>)> = (0..nsh).map(|i| (i, i, 0, vec![])).collect();
        if let Some((_, idx)) = &replay {
            pending = vec![(0, *idx, 0, vec![])];
        }
        let mut restarts = 0u64;
        // hangs confirmed alone in this phase; beyond MAX_CONFIRMED_HANGS the rest of the phase is abandoned (a
        // change that makes every other case hang must end in a verdict, not in hours of watchdog waits)
        let mut confirmed_hangs = 0u32;
        let mut abandoned = false;
        while !pending.is_empty() {
            let mut children = vec![];
            for (shard, from, attempt, skips) in pending.drain(..) {
                let out = scratch.join(format!("{}-s{}-a{}.json", phase.name, shard, attempt));
                let (to, step) = if replay.is_some() { (from + 1, 1) } else { (phase.cases, nsh) };
                match spawn_worker(env, prop, tier, seed, phase, from, to, step, &out, phase.budget_ms, &skips) {
                    Ok(c) => children.push((shard, from, attempt, skips, out, c)),
                    Err(e) => harness_errors.push(format!("spawn failed: {e}")),
                }
            }
            let mut next = vec![];
            for (shard, from, attempt, mut skips, out, mut child) in children {
                let st = child.wait();
                let kind = exit_kind(&st);
                if kind == "ok" {
                    if merge_worker_file(&mut merged, &out).is_none() {
                        harness_errors.push(format!("worker output unreadable: {}", out.display()));
                    }
                    continue;
                }
                if kind == "selftest" {
                    let err = std::fs::read_to_string(out.with_extension("stderr")).unwrap_or_default();
                    harness_errors.push(format!("self-test failed: {}", err.lines().last().unwrap_or("")));
                    continue;
                }
                // abnormal end: find the case that was running
                let prog = std::fs::read_to_string(out.with_extension("progress")).unwrap_or_default();
                let prog = prog.trim();
                let (is_hang, at) = if let Some(r) = prog.strip_prefix("hang ") {
                    (true, r.trim().parse::<u64>().ok())
                } else {
                    (false, prog.parse::<u64>().ok())
                };
                let Some(at) = at else {
                    let err = std::fs::read_to_string(out.with_extension("stderr")).unwrap_or_default();
                    let tail: Vec<&str> = err.lines().rev().take(3).collect();
                    harness_errors.push(format!("worker died ({kind}) without progress info: {tail:?}"));
                    continue;
                };
                if is_hang && confirmed_hangs >= MAX_CONFIRMED_HANGS {
                    abandoned = true;
                    let _ = merge_worker_file(&mut merged, &out);
                    continue;
                }
                restarts += 1;
                // confirm alone (3x budget for hangs)
                let solo_out = scratch.join(format!("{}-solo-{}.json", phase.name, at));
                let budget = if is_hang { phase.budget_ms * 3 } else { phase.budget_ms };
                let (solo_kind, solo) = run_single(env, prop, tier, seed, phase, at, budget, &solo_out);
                match (solo_kind.as_str(), solo) {
                    ("ok", Some(m)) => {
                        // not reproducible alone: fold its observations in, note it
                        merge_into(&mut merged, m);
                        merged.inconclusive.insert(format!("{kind}-not-reproduced-alone"));
                        *merged.counters.entry(format!("inconclusive/{kind}-not-reproduced-alone")).or_insert(0) += 1;
                    }
                    (k, _) if k.starts_with("signal:") && !prop.abort_is_violation() => {
                        merged.inconclusive.insert(format!("worker-abort:{}:{}", k, phase.name));
                        *merged.counters.entry(format!("inconclusive/worker-abort:{}:{}", k, phase.name)).or_insert(0) += 1;
                    }
                    (k, _) if k.starts_with("signal:") => {
                        merged.candidates.push(Candidate {
                            signature: format!("abort:{}:{}", k, phase.name),
                            phase: phase.name.to_string(),
                            idx: at,
                            detail: json!({"worker_exit": k, "stderr_tail": stderr_tail(&solo_out)}),
                        });
                        *merged.counters.entry(format!("candidate/abort:{}:{}", k, phase.name)).or_insert(0) += 1;
                        merged.evaluations += 1;
                    }
                    ("hang", _) => {
                        confirmed_hangs += 1;
                        if prop.hang_is_violation() {
                            merged.candidates.push(Candidate {
                                signature: format!("hang:{}", phase.name),
                                phase: phase.name.to_string(),
                                idx: at,
                                detail: json!({"budget_ms": budget}),
                            });
                            merged.evaluations += 1;
                        } else {
                            merged.inconclusive.insert(format!("watchdog:{}", phase.name));
                            *merged.counters.entry(format!("inconclusive/watchdog:{}", phase.name)).or_insert(0) += 1;
                        }
                    }
                    (k, _) => {
                        harness_errors.push(format!("solo re-run of case {at} ended with {k}"));
                    }
                }
                // continue this shard: from the last checkpoint if there is one (its observations are
                // merged now), else from where this attempt started; the offending case is skipped
                if replay.is_none() {
                    let resume = match merge_worker_file(&mut merged, &out) {
                        Some(Some(n)) => n,
                        _ => from,
                    };
                    skips.push(at);
                    if attempt < 200 {
                        next.push((shard, resume, attempt + 1, skips));
                    } else {
                        harness_errors.push(format!("shard {shard} of phase {} restarted too often", phase.name));
                    }
                }
            }
            pending = next;
            if abandoned {
                pending.clear();
            }
        }
        if abandoned {
            merged.inconclusive.insert(format!("phase-abandoned-after-{MAX_CONFIRMED_HANGS}-confirmed-hangs:{}", phase.name));
            *merged.counters.entry(format!("inconclusive/phase-abandoned-after-confirmed-hangs:{}", phase.name)).or_insert(0) += 1;
        }
        phase_info.push(json!({
            "phase": phase.name, "cases": phase.cases, "profile": phase.profile.name(),
            "exhaustive": phase.exhaustive, "worker_restarts": restarts,
            "wall_s": pt0.elapsed().as_secs_f64(),
        }));
    }

    // supervisor-side phase (process pairs, CLI, Miri)
    if replay.is_none() {
        let mut sctx = Ctx::new(id, tier, seed);
        sctx.phase = "supervisor".into();
        sctx.sample_cap = 2;
        crate::panics::install_hook();
        prop.supervisor_phase(&mut sctx, env);
        merged.evaluations += sctx.evaluations;
        for (k, n) in sctx.counters {
            *merged.counters.entry(k).or_insert(0) += n;
        }
        merged.samples.extend(sctx.samples);
        merged.candidates.extend(sctx.candidates);
        merged.inconclusive.extend(sctx.inconclusive);
        merged.hashes.extend(sctx.hashes);
    }

    // required features
    let mut unreached = vec![];
    if replay.is_none() {
        for f in prop.required_features(tier) {
            if merged.counters.get(&f).copied().unwrap_or(0) == 0 {
                unreached.push(f);
            }
        }
    }

    // distinct non-trivial
    merged.hashes.sort_unstable();
    merged.hashes.dedup();
    let distinct = merged.hashes.len() as u64;

    // known findings
    let known = load_known_findings(env);
    let mut by_sig: BTreeMap<String, Vec<&Candidate>> = BTreeMap::new();
    for c in &merged.candidates {
        by_sig.entry(c.signature.clone()).or_default().push(c);
    }
    let mut violations = vec![];
    let mut known_hit = vec![];
    let replay_dir = env.evidence_dir.join("replays");
    let _ = std::fs::create_dir_all(&replay_dir);
    let mut lines = vec![];
    for (sig, cands) in &by_sig {
        let kf = known
            .iter()
            .find(|k| k.property == id && k.signature == *sig && k.status == "known");
        let count = merged.counters.get(&format!("candidate/{sig}")).copied().unwrap_or(cands.len() as u64);
        if let Some(kf) = kf {
            lines.push(format!("KNOWN-FINDING: property={id} {} [signature={sig}; seen {count}x]", kf.what));
            known_hit.push(json!({"signature": sig, "count": count}));
            continue;
        }
        let c = cands[0];
        let path = replay_dir.join(format!("{id}-{:016x}.json", fnv64(sig.as_bytes())));
        let rep = json!({
            "property": id, "signature": sig, "tier": tier.name(), "seed": seed,
            "phase": c.phase, "idx": c.idx, "count": count, "detail": c.detail,
            "replay_cmd": format!("bin/check {id} --replay {}", path.display()),
        });
        let _ = std::fs::write(&path, serde_json::to_string_pretty(&rep).unwrap());
        lines.push(format!("VIOLATION property={id} replay={} signature={sig}", path.display()));
        violations.push(json!({"signature": sig, "count": count, "replay": path.display().to_string()}));
    }
    for r in &merged.inconclusive {
        lines.push(format!("INCONCLUSIVE property={id} reason={r}"));
    }
    for f in &unreached {
        lines.push(format!("INCONCLUSIVE property={id} reason=feature-unreached:{f}"));
    }
    for e in &harness_errors {
        lines.push(format!("HARNESS-ERROR property={id} {e}"));
    }

    // evidence
    let wall = t0.elapsed().as_secs_f64();
    let mut coverage = json!({
        "evaluations": merged.evaluations,
        "distinct_nontrivial": distinct,
        "rule": prop.rule(),
        "samples": merged.samples,
        "exhaustive": all_exhaustive && replay.is_none(),
        "phases": phase_info,
        "counters": strip_candidate_counters(&merged.counters),
        "inconclusive": merged.inconclusive,
        "features_unreached": unreached,
        "known_findings_hit": known_hit,
        "violations_detail": violations,
        "harness_errors": harness_errors,
    });
    if prop.level() == "translation_validation" {
        coverage["programs"] = json!(merged.counters.get("programs").copied().unwrap_or(0));
        coverage["disagreements_checked"] = json!(merged.counters.get("disagreements_checked").copied().unwrap_or(0));
    }
    if let Some(extra) = prop.extra_coverage(&merged.counters).as_object() {
        for (k, v) in extra {
            coverage[k] = v.clone();
        }
    }
    let evidence = json!({
        "property_id": id,
        "tier": tier.name(),
        "seed": seed,
        "level": prop.level(),
        "coverage": coverage,
        "assumptions": prop.assumptions(),
        "wall_s": wall,
        "violations": violations.len(),
    });
    if replay.is_none() {
        let evdir = env.evidence_dir.clone();
        let _ = std::fs::create_dir_all(&evdir);
        let _ = std::fs::write(
            evdir.join(format!("{id}.json")),
            serde_json::to_string_pretty(&evidence).unwrap(),
        );
    }

    for l in &lines {
        println!("{l}");
    }
    println!(
        "SUMMARY property={id} tier={} seed={seed} evaluations={} distinct_nontrivial={distinct} violations={} known={} inconclusive={} wall_s={:.1}",
        tier.name(),
        merged.evaluations,
        violations.len(),
        evidence["coverage"]["known_findings_hit"].as_array().map(|a| a.len()).unwrap_or(0),
        merged.inconclusive.len() + unreached.len(),
        wall
    );
    let _ = std::fs::remove_dir_all(&scratch);

    let exit = if !violations.is_empty() {
        1
    } else if !harness_errors.is_empty() || merged.evaluations == 0 {
        2
    } else {
        0
    };
    RunOutcome { exit }
}

fn stderr_tail(out: &Path) -> Vec<String> {
    let err = std::fs::read_to_string(out.with_extension("stderr")).unwrap_or_default();
    let mut v: Vec<String> = err.lines().rev().take(6).map(|s| s.chars().take(200).collect()).collect();
    v.reverse();
    v
}

fn merge_into(a: &mut Merged, b: Merged) {
    a.evaluations += b.evaluations;
    for (k, n) in b.counters {
        *a.counters.entry(k).or_insert(0) += n;
    }
    a.candidates.extend(b.candidates);
    a.inconclusive.extend(b.inconclusive);
    a.hashes.extend(b.hashes);
}

fn strip_candidate_counters(c: &BTreeMap<String, u64>) -> BTreeMap<String, u64> {
    c.iter().map(|(k, v)| (k.clone(), *v)).collect()
}

// ---------------------------------------------------------------------------------------------
// Miri cross-run: the same generators and oracles executed by the Miri interpreter (undefined
// behaviour in dependency `unsafe` code, overflow checks and debug assertions on).

/// In-process shard (no worker subprocesses, no threads, no FFI): runs cases `from, from+step, ..< to` of
/// `phase` and prints one line per case: `START <idx>` before and `END <idx> <json>` after; `DONE` at the end.
/// This is what runs *inside* Miri.
pub fn run_inproc_shard(prop: &dyn Property, tier: Tier, seed: u64, phase: &str, from: u64, to: u64, step: u64) -> i32 {
    crate::panics::install_hook();
    let stdout = std::io::stdout();
    let mut idx = from;
    while idx < to {
        {
            let mut o = stdout.lock();
            let _ = writeln!(o, "START {idx}");
            let _ = o.flush();
        }
        let mut ctx = Ctx::new(prop.id(), tier, seed);
        ctx.phase = phase.to_string();
        ctx.idx = idx;
        ctx.sample_cap = 0;
        let mut rng = Rng::for_case(seed, prop.id(), phase, idx);
        let r = crate::panics::catch(|| prop.run_case(&mut ctx, phase, idx, &mut rng));
        if let Err(p) = r {
            if p.in_repo() {
                ctx.violation(format!("uncaught-{}", p.signature()), json!({"message": p.message, "location": p.location}));
            } else {
                ctx.inconclusive(format!("harness-panic:{}", crate::panics::normalise_message(&p.message)));
            }
        }
        let cands: Vec<Value> = ctx
            .candidates
            .iter()
            .map(|c| json!({"signature": c.signature, "phase": c.phase, "idx": c.idx, "detail": c.detail}))
            .collect();
        let v = json!({"evaluations": ctx.evaluations, "counters": ctx.counters, "candidates": cands, "inconclusive": ctx.inconclusive, "hashes": ctx.hashes});
        {
            let mut o = stdout.lock();
            let _ = writeln!(o, "END {idx} {}", serde_json::to_string(&v).unwrap());
            let _ = o.flush();
        }
        idx += step;
    }
    println!("DONE");
    0
}

/// One entry of a Miri plan: phase name (as understood by `run_case`) and number of case indices.
pub struct MiriPlan {
    pub phase: &'static str,
    pub cases: u64,
}

fn miri_command(env: &Env) -> std::process::Command {
    let mut c = std::process::Command::new("cargo");
    c.arg("+nightly")
        .arg("miri")
        .arg("run")
        .arg("--quiet")
        .arg("--manifest-path")
        .arg(env.harness_dir.join("Cargo.toml"))
        .arg("--target-dir")
        .arg(env.target_dir.join("miri"))
        .arg("--")
        .env("CARGO_NET_OFFLINE", "true")
        // isolation off: the monitors read tx3.pest and the examples from the repo under test
        .env("MIRIFLAGS", "-Zmiri-disable-isolation -Zmiri-ignore-leaks")
        .env("VERIF_REPO", &env.repo_dir)
        .env("VERIF_DIR", &env.verif_dir)
        .env("RUST_BACKTRACE", "0")
        .stdin(std::process::Stdio::null());
    c
}

/// Runs `plan` under Miri, sharded over the cores, each shard bounded by `wall_limit_s` seconds of wall
/// clock (an overrun is *inconclusive*; what the shard completed until then still counts). Counters are
/// merged under the prefix `miri/`. An "Undefined Behavior" report is a violation candidate
/// `miri-ub:<message>`; any other abnormal end of the interpreter (unsupported operation, ...) is
/// inconclusive. The number of operations the interpreter completed is `miri/ops`.
pub fn miri_cross_run(ctx: &mut Ctx, env: &Env, prop_id: &str, plan: &[MiriPlan], wall_limit_s: u64) {
    let dir = env.target_dir.join("runs").join(format!("{prop_id}-miri-{}", std::process::id()));
    let _ = std::fs::remove_dir_all(&dir);
    if std::fs::create_dir_all(&dir).is_err() {
        ctx.inconclusive("miri:no-scratch-dir");
        return;
    }
    // 1. build (and check that the interpreter is usable at all)
    let t0 = Instant::now();
    let build_log = dir.join("build.stderr");
    let st = std::fs::File::create(&build_log).and_then(|f| {
        miri_command(env)
            .args(["miri-shard", prop_id, "none", "0", "0", "1", "1", "quick"])
            .stdout(std::process::Stdio::null())
            .stderr(f)
            .status()
    });
    match st {
        Ok(s) if s.success() => {}
        other => {
            let tail = std::fs::read_to_string(&build_log).unwrap_or_default();
            let tail: Vec<&str> = tail.lines().rev().take(5).collect();
            eprintln!("[harness] miri build/start failed: {other:?} {tail:?}");
            ctx.inconclusive("miri:unavailable-or-build-failed");
            return;
        }
    }
    ctx.add("miri/build_s", t0.elapsed().as_secs());
    let shards = n_shards();
    let deadline = Instant::now() + Duration::from_secs(wall_limit_s);
    for p in plan {
        let nsh = shards.min(p.cases.max(1));
        let mut children = vec![];
        for i in 0..nsh {
            let out = dir.join(format!("{}-{i}.out", p.phase));
            let err = dir.join(format!("{}-{i}.err", p.phase));
            let (Ok(fo), Ok(fe)) = (std::fs::File::create(&out), std::fs::File::create(&err)) else { continue };
            let child = miri_command(env)
                .args(["miri-shard", prop_id, p.phase, &i.to_string(), &p.cases.to_string(), &nsh.to_string(), &ctx.seed.to_string(), ctx.tier.name()])
                .stdout(fo)
                .stderr(fe)
                .spawn();
            match child {
                Ok(c) => children.push((i, out, err, c)),
                Err(_) => ctx.inconclusive("miri:spawn-failed"),
            }
        }
        for (i, out, err, mut child) in children {
            // wait until the common deadline, then kill
            let mut status = None;
            loop {
                match child.try_wait() {
                    Ok(Some(s)) => {
                        status = Some(s);
                        break;
                    }
                    Ok(None) => {
                        if Instant::now() >= deadline {
                            let _ = child.kill();
                            let _ = child.wait();
                            break;
                        }
                        std::thread::sleep(Duration::from_millis(200));
                    }
                    Err(_) => break,
                }
            }
            let text = std::fs::read_to_string(&out).unwrap_or_default();
            let mut started: Option<u64> = None;
            let mut done = false;
            for line in text.lines() {
                if let Some(r) = line.strip_prefix("START ") {
                    started = r.trim().parse().ok();
                } else if let Some(r) = line.strip_prefix("END ") {
                    let mut it = r.splitn(2, ' ');
                    let _idx = it.next();
                    let Some(js) = it.next() else { continue };
                    let Ok(v) = serde_json::from_str::<Value>(js) else { continue };
                    started = None;
                    ctx.add("miri/ops", 1);
                    ctx.add(&format!("miri/ops/{}", p.phase), 1);
                    ctx.evaluations += v["evaluations"].as_u64().unwrap_or(0);
                    if let Some(o) = v["counters"].as_object() {
                        for (k, n) in o {
                            if k.starts_with("candidate/") {
                                continue;
                            }
                            ctx.add(&format!("miri/{k}"), n.as_u64().unwrap_or(0));
                        }
                    }
                    if let Some(a) = v["candidates"].as_array() {
                        for c in a {
                            let sig = c["signature"].as_str().unwrap_or("").to_string();
                            let mut d = c["detail"].clone();
                            if let Some(o) = d.as_object_mut() {
                                o.insert("engine".into(), json!("miri"));
                            }
                            ctx.phase = p.phase.to_string();
                            ctx.idx = c["idx"].as_u64().unwrap_or(0);
                            ctx.violation(sig, d);
                        }
                    }
                    if let Some(a) = v["inconclusive"].as_array() {
                        for s in a {
                            if let Some(s) = s.as_str() {
                                ctx.inconclusive(format!("miri:{s}"));
                            }
                        }
                    }
                    if let Some(a) = v["hashes"].as_array() {
                        for h in a {
                            if let Some(h) = h.as_u64() {
                                ctx.hashes.push(h ^ 0x6d69_7269);
                            }
                        }
                    }
                } else if line.trim() == "DONE" {
                    done = true;
                }
            }
            let etext = std::fs::read_to_string(&err).unwrap_or_default();
            match status {
                Some(s) if s.success() && done => ctx.add("miri/shards-completed", 1),
                Some(_) => {
                    // the interpreter stopped: UB report or something it does not support
                    if let Some(pos) = etext.find("Undefined Behavior") {
                        let msg: String = etext[pos..].lines().next().unwrap_or("").chars().take(160).collect();
                        let frames: Vec<String> = etext[pos..].lines().filter(|l| l.trim_start().starts_with("= note: inside") || l.trim_start().starts_with("-->")).take(12).map(|l| l.trim().chars().take(200).collect()).collect();
                        ctx.phase = p.phase.to_string();
                        ctx.idx = started.unwrap_or(0);
                        ctx.violation(
                            format!("miri-ub:{}", crate::panics::normalise_message(msg.trim_start_matches("Undefined Behavior:").trim())),
                            json!({"engine": "miri", "phase": p.phase, "idx": started, "shard": i, "report": msg, "frames": frames}),
                        );
                    } else {
                        let tail: Vec<String> = etext.lines().filter(|l| l.starts_with("error")).take(2).map(|l| l.chars().take(160).collect()).collect();
                        eprintln!("[harness] miri shard {i} of {} stopped at case {started:?}: {tail:?}", p.phase);
                        ctx.inconclusive(format!("miri:interpreter-stopped:{}", p.phase));
                    }
                }
                None => {
                    ctx.add("miri/shards-cut-at-deadline", 1);
                }
            }
        }
    }
    ctx.add("miri/wall_s", t0.elapsed().as_secs());
    if ctx.counters.get("miri/ops").copied().unwrap_or(0) == 0 {
        // the interpreter ran but finished nothing: the cross-run says nothing
        ctx.inconclusive("miri:no-operation-completed");
    }
    let _ = std::fs::remove_dir_all(&dir);
}

// ---------------------------------------------------------------------------------------------
// dev-profile stack probe (see /verif/stackprobe): payloads handled on a 2 MiB thread in an unoptimised build

#[derive(Debug, Clone, PartialEq)]
pub enum ProbeOutcome {
    Ok,
    Err,
    Panic,
    /// the probe process was killed by this signal while handling the payload (stack overflow => SIGABRT/SIGSEGV)
    Killed(i32),
}

/// Runs the probe binary over `inputs` (name, payload); `front` = parse + analyse source text instead of
/// decoding IR bytes. After a kill the remaining inputs are run in a new process. None = probe unusable.
pub fn stack_probe(env: &Env, tag: &str, front: bool, inputs: &[(String, Vec<u8>)]) -> Option<Vec<(String, ProbeOutcome)>> {
    stack_probe_mode(env, tag, if front { "front" } else { "" }, inputs)
}

/// `mode`: "" (decode IR payloads), "front" (parse + analyse source texts), "request" (IR payloads wrapped into
/// resolve requests and handed to parse_resolve_request)
pub fn stack_probe_mode(env: &Env, tag: &str, mode: &str, inputs: &[(String, Vec<u8>)]) -> Option<Vec<(String, ProbeOutcome)>> {
    use std::os::unix::process::ExitStatusExt;
    let probe = env.target_dir.join("stackprobe").join("debug").join("tx3-stackprobe");
    if !probe.exists() {
        return None;
    }
    let dir = env.target_dir.join("runs").join(format!("{tag}-stackprobe-{}", std::process::id()));
    let _ = std::fs::create_dir_all(&dir);
    let mut results = vec![];
    let mut pending: Vec<usize> = (0..inputs.len()).collect();
    let mut rounds = 0;
    while !pending.is_empty() && rounds < 200 {
        rounds += 1;
        let file = dir.join(format!("inputs-{rounds}.hex"));
        let text: String = pending.iter().map(|i| hex::encode(&inputs[*i].1) + "\n").collect();
        std::fs::write(&file, text).ok()?;
        let mut cmd = std::process::Command::new(&probe);
        if !mode.is_empty() {
            cmd.arg(mode);
        }
        // bounded: the probe gets 240 s of wall clock per invocation (it normally needs a second or two); on an
        // overrun it is killed and the caller is told the probe was unusable (inconclusive, never a verdict)
        let out_path = dir.join(format!("out-{rounds}.txt"));
        let out_file = std::fs::File::create(&out_path).ok()?;
        let mut child = cmd.arg(&file).stdin(std::process::Stdio::null()).stdout(out_file).stderr(std::process::Stdio::null()).spawn().ok()?;
        let t0 = Instant::now();
        let status = loop {
            match child.try_wait() {
                Ok(Some(s)) => break s,
                Ok(None) => {
                    if t0.elapsed() > Duration::from_secs(240) {
                        let _ = child.kill();
                        let _ = child.wait();
                        let _ = std::fs::remove_dir_all(&dir);
                        return None;
                    }
                    std::thread::sleep(Duration::from_millis(50));
                }
                Err(_) => {
                    let _ = std::fs::remove_dir_all(&dir);
                    return None;
                }
            }
        };
        struct Out {
            stdout: Vec<u8>,
            status: std::process::ExitStatus,
        }
        let out = Out { stdout: std::fs::read(&out_path).unwrap_or_default(), status };
        let stdout = String::from_utf8_lossy(&out.stdout).to_string();
        let mut started: Option<usize> = None;
        for line in stdout.lines() {
            let mut it = line.split(' ');
            let (Some(a), Some(b)) = (it.next(), it.next()) else { continue };
            let Ok(k) = a.parse::<usize>() else { continue };
            if k >= pending.len() {
                continue;
            }
            match b {
                "START" => started = Some(k),
                "OK" | "ERR" | "PANIC" => {
                    started = None;
                    let o = match b {
                        "OK" => ProbeOutcome::Ok,
                        "ERR" => ProbeOutcome::Err,
                        _ => ProbeOutcome::Panic,
                    };
                    results.push((inputs[pending[k]].0.clone(), o));
                }
                _ => {}
            }
        }
        if out.status.success() {
            pending.clear();
        } else if let (Some(sig), Some(k)) = (out.status.signal(), started) {
            results.push((inputs[pending[k]].0.clone(), ProbeOutcome::Killed(sig)));
            pending = pending[k + 1..].to_vec();
        } else {
            let _ = std::fs::remove_dir_all(&dir);
            return None;
        }
    }
    let _ = std::fs::remove_dir_all(&dir);
    Some(results)
}
