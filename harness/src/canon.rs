//! Canonical form of anything `Serialize` (TIR, params, queries) as a `ciborium::Value`, and a generic
//! walker over it. The walker sees every field the `Serialize` derive sees, independently of the
//! hand-written traversals in the code under test.

use ciborium::Value;
use serde::Serialize;

pub fn to_value<T: Serialize>(t: &T) -> Value {
    Value::serialized(t).expect("serialisable")
}

pub fn value_bytes(v: &Value) -> Vec<u8> {
    let mut buf = vec![];
    ciborium::into_writer(v, &mut buf).expect("cbor write");
    buf
}

fn is_variant(v: &Value, name: &str) -> bool {
    matches!(v, Value::Map(m) if m.len() == 1 && matches!(&m[0].0, Value::Text(t) if t == name))
}

/// Sort map entries; sort the arrays under `UtxoSet` and `Assets` (hash-ordered in the code).
pub fn canonicalise(v: &Value) -> Value {
    match v {
        Value::Array(xs) => Value::Array(xs.iter().map(canonicalise).collect()),
        Value::Map(m) => {
            let set_like = is_variant(v, "UtxoSet") || is_variant(v, "Assets");
            let mut entries: Vec<(Value, Value)> = m
                .iter()
                .map(|(k, x)| {
                    let k2 = canonicalise(k);
                    let mut x2 = canonicalise(x);
                    if set_like {
                        if let Value::Array(items) = &mut x2 {
                            items.sort_by_key(value_bytes);
                        }
                    }
                    (k2, x2)
                })
                .collect();
            entries.sort_by(|a, b| value_bytes(&a.0).cmp(&value_bytes(&b.0)));
            Value::Map(entries)
        }
        Value::Tag(t, inner) => Value::Tag(*t, Box::new(canonicalise(inner))),
        other => other.clone(),
    }
}

pub fn canon_bytes<T: Serialize>(t: &T) -> Vec<u8> {
    value_bytes(&canonicalise(&to_value(t)))
}

pub fn canon_hash<T: Serialize>(t: &T) -> u64 {
    crate::rng::fnv64(&canon_bytes(t))
}

/// Depth-first walk; `f(path, node)`.
pub fn walk<'a>(v: &'a Value, path: &mut Vec<String>, f: &mut dyn FnMut(&[String], &'a Value)) {
    f(path, v);
    match v {
        Value::Array(xs) => {
            for (i, x) in xs.iter().enumerate() {
                path.push(i.to_string());
                walk(x, path, f);
                path.pop();
            }
        }
        Value::Map(m) => {
            for (k, x) in m {
                let key = match k {
                    Value::Text(t) => t.clone(),
                    other => format!("{other:?}"),
                };
                path.push(key);
                walk(x, path, f);
                path.pop();
            }
        }
        Value::Tag(_, inner) => walk(inner, path, f),
        _ => {}
    }
}

#[derive(Debug, Clone, PartialEq, Eq, PartialOrd, Ord)]
pub enum Unresolved {
    Value(String),
    Input(String),
    Fees,
}

/// All `EvalParam(ExpectValue|ExpectInput|ExpectFees)` nodes with the path at which they occur.
pub fn unresolved_params(v: &Value) -> Vec<(Vec<String>, Unresolved)> {
    let mut out = vec![];
    let mut path = vec![];
    walk(v, &mut path, &mut |p, node| {
        if let Value::Map(m) = node {
            if m.len() == 1 {
                if let Value::Text(t) = &m[0].0 {
                    if t == "EvalParam" {
                        match &m[0].1 {
                            Value::Text(s) if s == "ExpectFees" => out.push((p.to_vec(), Unresolved::Fees)),
                            Value::Map(pm) if pm.len() == 1 => {
                                if let (Value::Text(kind), Value::Array(args)) = (&pm[0].0, &pm[0].1) {
                                    let name = args.first().and_then(|n| n.as_text()).unwrap_or("").to_string();
                                    match kind.as_str() {
                                        "ExpectValue" => out.push((p.to_vec(), Unresolved::Value(name))),
                                        "ExpectInput" => out.push((p.to_vec(), Unresolved::Input(name))),
                                        _ => {}
                                    }
                                }
                            }
                            _ => {}
                        }
                    }
                }
            }
        }
    });
    out
}

/// Names of the enum variants met on the way (for feature coverage of IR shapes).
pub fn variant_names(v: &Value) -> std::collections::BTreeSet<String> {
    let mut out = std::collections::BTreeSet::new();
    let mut path = vec![];
    walk(v, &mut path, &mut |_, node| match node {
        Value::Map(m) if m.len() == 1 => {
            if let Value::Text(t) = &m[0].0 {
                if t.chars().next().map(|c| c.is_ascii_uppercase()).unwrap_or(false) {
                    out.insert(t.clone());
                }
            }
        }
        Value::Text(t) if t.chars().next().map(|c| c.is_ascii_uppercase()).unwrap_or(false) && t.len() < 24 => {
            out.insert(t.clone());
        }
        _ => {}
    });
    out
}
